/* Framing automaton: the specification of "well-formed tokenised program file", written from
 * doc/bbcbasic.5 (FILE FORMAT, Big-/Little-endian Line Format, END OF FILE) and the statement
 * of C09.  It is driven by the *reads* the code performs on the ghost file (models/basic_stdio.h
 * calls fmon_consume(n) after delivering n bytes and fmon_eof() when it reports end of file), but
 * every decision is taken from the FILE CONTENTS g_file[], never from what the code does with them.
 *
 *   big-endian    0x0D <hi> <lo> <len> data[len-4]  ...   0x0D 0xFF <EOF>
 *   little-endian <len> <lo> <hi> data[len-4] 0x0D  ...   0x00 0xFF 0xFF <EOF>
 *
 * Allowances (documented in DESIGN.md, so that behaviour the statement does not rule out is not
 * reported): the zero-length file is an empty program; in a big-endian file 0x0D 0xFF followed by
 * more bytes is read as a line whose number has high byte 0xFF; bytes after a complete little-endian
 * end marker are tolerated; a little-endian line of length 3 (no terminator at all) carries no text.
 */
#ifndef VERIF_BASIC_FILE_MONITOR_H
#define VERIF_BASIC_FILE_MONITOR_H

enum { FPH_START = 0, FPH_B1, FPH_B2, FPH_B3, FPH_FF, FPH_BODY, FPH_LINE_READY,
       FPH_END1, FPH_END2, FPH_MARKER, FPH_DONE, FPH_BAD };


#ifndef SPEC_BIG_ENDIAN
#define SPEC_BIG_ENDIAN (DIALECT == 0 || DIALECT == 2 || DIALECT == 4 || DIALECT == 5)
#endif

unsigned short nondet_ushort(void);

static void fmon_line_ready(void)
{
  fmon_phase = FPH_LINE_READY;
  if (fmon_lines < (1ul << 40)) fmon_lines++;
  /* hand the framed line to the line monitor */
  mon_data = (const unsigned char *)g_last_fread_dst;
  mon_len = fmon_blen;
  mon_hi = fmon_hi;
  mon_lo = fmon_lo;
  mon_phase = PH_NUM;
  mon_i = 0;
  mon_q = 0;
  mon_indent_in = mon_indent_run;
  {
    /* prefix counts of this line: unknown here, but they satisfy what every count satisfies */
    unsigned short c0 = nondet_ushort(), c1 = nondet_ushort(), c2 = nondet_ushort(), c3 = nondet_ushort();
    __CPROVER_assume(c0 <= mon_len && c1 <= mon_len && c2 <= mon_len && c3 <= mon_len);
    mon_c0 = c0; mon_c1 = c1; mon_c2 = c2; mon_c3 = c3;
  }
}

/* one byte of header / marker, value b, located at file offset at */
static void fmon_byte(unsigned char b, size_t at)
{
  switch (fmon_phase)
    {
    case FPH_START:
    case FPH_LINE_READY:
      if (SPEC_BIG_ENDIAN)
        fmon_phase = (b == 0x0D) ? FPH_B1 : FPH_BAD;
      else if (b == 0)
        fmon_phase = FPH_END1;
      else if (b < 3)
        fmon_phase = FPH_BAD;
      else
        {
          fmon_total = b - 3u;
          fmon_phase = FPH_B1;
        }
      break;
    case FPH_B1:
      if (SPEC_BIG_ENDIAN)
        {
          fmon_hi = b;
          fmon_phase = (b == 0xFF) ? FPH_FF : FPH_B2;
        }
      else
        {
          fmon_lo = b;
          fmon_phase = FPH_B2;
        }
      break;
    case FPH_FF:       /* big-endian only: a byte follows 0x0D 0xFF */
    case FPH_B2:
      if (SPEC_BIG_ENDIAN)
        {
          fmon_lo = b;
          fmon_phase = FPH_B3;
        }
      else
        {
          fmon_hi = b;
          fmon_body = at + 1;
          fmon_rem = fmon_total;
          fmon_blen = (unsigned char)(fmon_total ? fmon_total - 1u : 0u);
          fmon_phase = FPH_BODY;
        }
      break;
    case FPH_B3:       /* big-endian length byte */
      if (b < 4)
        fmon_phase = FPH_BAD;
      else
        {
          fmon_total = b - 4u;
          fmon_rem = fmon_total;
          fmon_blen = (unsigned char)fmon_total;
          fmon_body = at + 1;
          fmon_phase = FPH_BODY;
        }
      break;
    case FPH_END1:
      fmon_phase = (b == 0xFF) ? FPH_END2 : FPH_BAD;
      break;
    case FPH_END2:
      fmon_phase = (b == 0xFF) ? FPH_MARKER : FPH_BAD;
      break;
    case FPH_MARKER:   /* trailing byte after a complete little-endian marker: tolerated */
      fmon_phase = FPH_DONE;
      break;
    default:
      fmon_phase = FPH_BAD;
      break;
    }
}

static void fmon_consume(size_t n)
{
  /* g_pos has already been advanced by n */
  if (!fmon_on) return;
  if (fmon_phase == FPH_BODY)
    {
      if (n > fmon_rem) { fmon_phase = FPH_BAD; return; }
      fmon_rem -= (unsigned)n;
      if (fmon_rem == 0)
        {
          if (SPEC_BIG_ENDIAN)
            fmon_line_ready();
          else if (fmon_total == 0)
            fmon_phase = FPH_START;              /* length-3 line: no text, nothing to list */
          else if (g_file[fmon_body + fmon_total - 1] == 0x0D)
            fmon_line_ready();
          else
            fmon_phase = FPH_BAD;
        }
      return;
    }
  if (n == 0) return;
  if (n == 1) { fmon_byte(g_file[g_pos - 1], g_pos - 1); return; }
  /* the code reads headers byte by byte; a multi-byte header read is outside this automaton */
  __CPROVER_assert(0, "framing automaton: multi-byte read outside a line body (proof needs updating)");
}

static void fmon_eof(void)
{
  if (!fmon_on) return;
  if (fmon_phase == FPH_START && g_len == 0)
    fmon_phase = FPH_DONE;                       /* empty file = empty program */
  else if (SPEC_BIG_ENDIAN && fmon_phase == FPH_FF)
    fmon_phase = FPH_DONE;
  else if (!SPEC_BIG_ENDIAN && fmon_phase == FPH_MARKER)
    fmon_phase = FPH_DONE;
  else if (fmon_phase != FPH_DONE)
    fmon_phase = FPH_BAD;                        /* cut short before the end of the marker */
}

#endif
