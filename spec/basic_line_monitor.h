/* Spec-as-monitor for ONE listed line (DESIGN.md 2.5), written from doc/bbcbasic.5
 * (TOKENISATION, LINE NUMBERS, extension-token tables), doc/bbcbasic_to_text.1 (--listo)
 * and the statement of C03.  Loop-free: called once per stdout event by models/basic_stdio.h.
 *
 * The monitor's inputs are the line as the caller defines it:
 *    mon_hi, mon_lo, mon_len, mon_data[0..mon_len), mon_listo, mon_indent_in, DIALECT
 * For each event it computes the ONE event the specification allows next and asserts that the
 * event produced by the code is that event.  mon_phase == PH_DONE <=> the whole line was listed.
 */
#ifndef VERIF_BASIC_LINE_MONITOR_H
#define VERIF_BASIC_LINE_MONITOR_H

#ifndef DIALECT
#error "DIALECT (0..5, enum Dialect) must be defined"
#endif
#define SPEC_CLASS   SPEC_PASTE(spec_class_, DIALECT)
#define SPEC_MAP     SPEC_PASTE(spec_map_, DIALECT)
#define SPEC_C6V     SPEC_PASTE(spec_c6_valid_, DIALECT)
#define SPEC_C7V     SPEC_PASTE(spec_c7_valid_, DIALECT)
#define SPEC_C8V     SPEC_PASTE(spec_c8_valid_, DIALECT)

enum { PH_NUM = 0, PH_SPACE, PH_PAD, PH_TOKENS, PH_DONE, PH_BAD };

/* monitor state lives in models/ghost.h (GC: run constants, GL: the line, G: mutable state) */

#define MON_OUTDENT (((mon_listo & 2) ? 2 * (int)mon_c0 : 0) + \
                     ((mon_listo & 4) ? 2 * (int)mon_c1 : 0))
#define MON_INDENT_AFTER_OUTDENT (mon_indent_in - MON_OUTDENT)
#define MON_INDENT_OUT (MON_INDENT_AFTER_OUTDENT + \
                        ((mon_listo & 2) ? 2 * (int)mon_c2 : 0) + \
                        ((mon_listo & 4) ? 2 * (int)mon_c3 : 0))
#define MON_PHASE_AFTER_SPACE ((MON_INDENT_AFTER_OUTDENT > 0) ? PH_PAD : PH_TOKENS)
#define MON_PHASE_AFTER_NUM   ((mon_listo & 1) ? PH_SPACE : MON_PHASE_AFTER_SPACE)

/* documented formula, doc/bbcbasic.5 "LINE NUMBERS" */
#define SPEC_TARGET(b1, b2, b3) \
  ((((((unsigned)(b3)) ^ (((unsigned)(b1)) << 4)) & 0xFFu) << 8) | \
   ((((unsigned)(b2)) ^ ((((unsigned)(b1)) << 2) & 0xC0u)) & 0xFFu))

static _Bool mon_str_is(const char *s, const char *lit, unsigned n)
{
  /* content comparison for the (short) literals that are not table entries */
  unsigned k;
  for (k = 0; k <= n; ++k)
    if (s[k] != lit[k]) return 0;
  return 1;
}

/* the token at cursor i is one the specification does not list (C09): NUL byte; outside quotes an
 * unassigned token, a crunched (fast) variable, a line-number form or extension token cut off by the
 * end of the line, an unassigned extension code, PDP11 0xC8 as last byte. */
#define SPEC_EXT_VALID(cl, e) ((cl) == CL_C6 ? SPEC_C6V[e] : (cl) == CL_C7 ? SPEC_C7V[e] : SPEC_C8V[e])
#define SPEC_TOKEN_BAD_AT(i, q) \
  (mon_data[i] == 0 || \
   (!(q) && (SPEC_CLASS[mon_data[i]] == CL_INVALID || SPEC_CLASS[mon_data[i]] == CL_FASTVAR || \
             (SPEC_CLASS[mon_data[i]] == CL_LINENUM && !((i) + 3 < mon_len)) || \
             (SPEC_CLASS[mon_data[i]] == CL_PDP && !((i) + 1 < mon_len)) || \
             ((SPEC_CLASS[mon_data[i]] == CL_C6 || SPEC_CLASS[mon_data[i]] == CL_C7 || SPEC_CLASS[mon_data[i]] == CL_C8) && \
              (!((i) + 1 < mon_len) || !SPEC_EXT_VALID(SPEC_CLASS[mon_data[i]], mon_data[((i) + 1 < mon_len) ? (i) + 1 : (i)]))))))

/* called by the stderr model for every diagnostic */
static void mon_on_diag(void)
{
#ifdef VERIF_NO_LINE_LEVEL       /* L3: decode_line is replaced by its contract, so every diagnostic seen
                                    here is a framing diagnostic of the program decoders themselves */
  mon_reject_ok = 0;
#else
  if (mon_on && mon_phase == PH_TOKENS && mon_i < mon_len)
    mon_reject_ok = SPEC_TOKEN_BAD_AT(mon_i, mon_q);
  else
    mon_reject_ok = 0;
#endif
}

static void mon_advance(unsigned width)
{
  if (mon_data[mon_i] == '"') mon_q = !mon_q;
  mon_i += width;
}

static void mon_event_chr(int c)
{
  if (g_out_events < 1000000u) g_out_events++;
  if (!mon_on) return;
  if (mon_phase == PH_SPACE)
    {
      __CPROVER_assert(c == ' ', "C03 listing: LISTO bit 0 prints exactly one space after the line number");
      mon_phase = MON_PHASE_AFTER_SPACE;
    }
  else if (mon_phase == PH_TOKENS && mon_i < mon_len)
    {
      __CPROVER_assert(mon_q, "C03 listing: a single character is only printed for a byte inside a quoted string");
      __CPROVER_assert((unsigned char)c == mon_data[mon_i], "C03 listing: a byte inside a quoted string is copied unchanged");
      if (mon_q && (unsigned char)c == mon_data[mon_i]) mon_advance(1); else mon_phase = PH_BAD;
    }
  else if (mon_phase == PH_TOKENS && mon_i == mon_len)
    {
      __CPROVER_assert(c == '\n', "C03 listing: the line ends with exactly one newline");
      mon_phase = (c == '\n') ? PH_DONE : PH_BAD;
      if (c == '\n') mon_indent_run = MON_INDENT_OUT;
    }
  else
    {
      __CPROVER_assert(0, "C03 listing: unexpected character event (nothing may be printed here)");
      mon_phase = PH_BAD;
    }
}

static void mon_event_str(const char *s)
{
  if (g_out_events < 1000000u) g_out_events++;
  if (!mon_on) return;
  if (mon_phase == PH_TOKENS && mon_i < mon_len && !mon_q)
    {
      const unsigned char b = mon_data[mon_i];
      const unsigned char cl = SPEC_CLASS[b];
      if (cl == CL_KW)
        {
          __CPROVER_assert(s == SPEC_MAP.base[b], "C03 listing: a token byte outside quotes is replaced by this dialect's keyword");
          mon_advance(1);
        }
      else if (cl == CL_C6 || cl == CL_C7 || cl == CL_C8)
        {
          __CPROVER_assert(mon_i + 1 < mon_len, "C09: extension token cut off by end of line must not list anything");
          if (mon_i + 1 < mon_len)
            {
              const unsigned char e = mon_data[mon_i + 1];
              const _Bool valid = (cl == CL_C6) ? SPEC_C6V[e] : (cl == CL_C7) ? SPEC_C7V[e] : SPEC_C8V[e];
              const char *kw = (cl == CL_C6) ? SPEC_MAP.c6[e] : (cl == CL_C7) ? SPEC_MAP.c7[e] : SPEC_MAP.c8[e];
              __CPROVER_assert(valid, "C09: unassigned extension code must not list anything");
              __CPROVER_assert(s == kw, "C03 listing: two-byte extension token is replaced by its keyword");
              mon_advance(2);
            }
          else mon_phase = PH_BAD;
        }
      else if (cl == CL_PDP)
        {
          /* doc: 0xC8 0x98 -> QUIT; 0xC8 NN -> LOAD followed by whatever NN expands to.
             0xC8 as the last byte of a line: the doc does not say; the code rejects it and the
             monitor accepts only what the doc defines, so no event is allowed there. */
          __CPROVER_assert(mon_i + 1 < mon_len, "C03 listing (PDP11): 0xC8 at end of line lists nothing");
          if (mon_i + 1 < mon_len && mon_data[mon_i + 1] == 0x98)
            {
              __CPROVER_assert(mon_str_is(s, "QUIT", 4), "C03 listing (PDP11): 0xC8 0x98 is QUIT");
              mon_advance(2);
            }
          else
            {
              __CPROVER_assert(mon_str_is(s, "LOAD", 4), "C03 listing (PDP11): 0xC8 NN is LOAD then NN");
              mon_advance(1);
            }
        }
      else
        {
          __CPROVER_assert(0, "C09: invalid / fast-variable / line-number byte must not be listed as a keyword");
          mon_phase = PH_BAD;
        }
    }
  else
    {
      __CPROVER_assert(0, "C03 listing: unexpected string event (nothing may be printed here)");
      mon_phase = PH_BAD;
    }
}

static void mon_event_fmt(const char *fmt, unsigned long a, unsigned long b)
{
  if (g_out_events < 1000000u) g_out_events++;
  if (fmt[0] == '%' && fmt[1] == '5' && (fmt[2] == 'u' || fmt[2] == 's') && fmt[3] == 0)
    if (g_lines_listed < (1ul << 40)) g_lines_listed++;
  if (!mon_on) return;
  if (mon_phase == PH_NUM)
    {
      const unsigned n = 256u * mon_hi + mon_lo;
      if (n != 0)
        {
          __CPROVER_assert(fmt[0] == '%' && fmt[1] == '5' && fmt[2] == 'u' && fmt[3] == 0,
                           "C03 listing: line number is printed right-aligned in 5 columns");
          __CPROVER_assert(a == n, "C03 listing: the line number printed is 256*hi+lo");
        }
      else
        {
          __CPROVER_assert(fmt[0] == '%' && fmt[1] == '5' && fmt[2] == 's' && fmt[3] == 0 &&
                           ((const char *)a)[0] == 0,
                           "C03 listing: line number 0 is shown as five blanks");
        }
      mon_phase = MON_PHASE_AFTER_NUM;
    }
  else if (mon_phase == PH_PAD)
    {
      __CPROVER_assert(fmt[0] == '%' && fmt[1] == '*' && fmt[2] == 's' && fmt[3] == 0 &&
                       ((const char *)b)[0] == 0,
                       "C03 listing: indentation is printed as blanks");
      __CPROVER_assert((int)a == MON_INDENT_AFTER_OUTDENT,
                       "C03 listing: indentation = running indent - 2*NEXTs (bit 1) - 2*UNTILs (bit 2)");
      mon_phase = PH_TOKENS;
    }
  else if (mon_phase == PH_TOKENS && mon_i < mon_len && !mon_q)
    {
      const unsigned char t = mon_data[mon_i];
      __CPROVER_assert(SPEC_CLASS[t] == CL_LINENUM, "C03 listing: a number is only printed for the 0x8D line-number form");
      __CPROVER_assert(mon_i + 3 < mon_len, "C09: line-number reference cut off by end of line must not list anything");
      if (SPEC_CLASS[t] == CL_LINENUM && mon_i + 3 < mon_len)
        {
          __CPROVER_assert(fmt[0] == '%' && fmt[1] == 'u' && fmt[2] == 0, "C03 listing: target line number printed in decimal");
          __CPROVER_assert(a == SPEC_TARGET(mon_data[mon_i + 1], mon_data[mon_i + 2], mon_data[mon_i + 3]),
                           "C03 listing: 0x8D b1 b2 b3 decodes by the documented formula");
          mon_advance(4);
        }
      else mon_phase = PH_BAD;
    }
  else
    {
      __CPROVER_assert(0, "C03 listing: unexpected formatted event (nothing may be printed here)");
      mon_phase = PH_BAD;
    }
}

#endif
