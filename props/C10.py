# C10 -- gzip compression of an image file is transparent (see DESIGN.md C10)
import sys, os
sys.path.insert(0, os.path.dirname(os.path.abspath(__file__)))
import dfs_common as D

def jobs(tier):
    return D.gz_jobs(Job)

META = {
    "trusted_base": D.DFS_TRUSTED + ["zlib.h contract of inflate() (consumes <= avail_in, produces <= avail_out, documented return codes, Z_BUF_ERROR only without progress)", "fread/fwrite/ferror per C11"],
    "assumptions": ["that zlib's inflate inverts gzip is assumed", "termination of the inflate loops is proved relative to the zlib/stdio model: the compressed file and the decompressed stream are finite (ghost byte counts), zlib.h 'Z_OK if some progress has been made', inflate after the end of the stream returns Z_STREAM_END again and does nothing (inflate.c state DONE)"],
    "outside": ["clause (i), container choice: the extension stripping of make_image_file / split_extensions (std::deque<std::string>) -- not extractable by the stated rules; the geometry hints of make_candidate_list ARE under contract (same hints with and without .gz)"],
    "explanation": "the name hints for X.gz are the hints for X; DecompressedFile::read returns exactly the bytes that exist, like OsFile::read; gzip format only; under the zlib.h contract of inflate: every byte inflate produced is written exactly once and in order; the loop exits normally only at Z_STREAM_END; any other code, a short fwrite or a read error raises an exception by value (a non-gzip / truncated file is never passed through)",
}
