# C10 -- gzip compression of an image file is transparent (clause ii only: see DESIGN.md C10)
import sys, os
sys.path.insert(0, os.path.dirname(os.path.abspath(__file__)))
import dfs_common as D

def jobs(tier):
    return D.gz_jobs(Job)

META = {
    "trusted_base": D.DFS_TRUSTED + ["zlib.h contract of inflate() (consumes <= avail_in, produces <= avail_out, documented return codes, Z_BUF_ERROR only without progress)", "fread/fwrite/ferror per C11"],
    "assumptions": ["that zlib's inflate inverts gzip is assumed", "termination of the inflate loop is zlib's (no decreases clause)"],
    "outside": ["clause (i): the extension/hint logic of make_image_file / make_candidate_list (std::string, std::deque) -- not extractable by the stated rules; the known loss of geometry hints for `x.ssd.gz` names is therefore NOT decided here",
                "DecompressedFile::read (vector resize, lambda)"],
    "explanation": "under the zlib.h contract of inflate: every byte inflate produced is written exactly once and in order; the loop exits normally only at Z_STREAM_END; any other code, a short fwrite or a read error raises an exception by value (a non-gzip / truncated file is never passed through)",
}
