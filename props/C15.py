# C15 -- wildcards and file names select exactly the files DFS semantics say
import sys, os
sys.path.insert(0, os.path.dirname(os.path.abspath(__file__)))
import dfs_common as D

def jobs(tier):
    return D.afsp_jobs(Job) + (D.c15_extra(Job, tier) if hasattr(D, "c15_extra") else [])

META = {
    "trusted_base": D.DFS_TRUSTED + ["POSIX.2 ERE axioms A1-A4 (contracts/dfs_afsp.h); toupper/tolower in the C locale"],
    "assumptions": ["7-bit non-NUL wildcard characters"],
    "outside": ["regcomp/regexec themselves; transform_string_with_regex; extend_wildcard / qualify (std::string, regex-based); std::find_if over the entries; the drive prefix of parse_filename"],
    "explanation": "for every wildcard character the emitted ERE fragment is the one that, under the POSIX axioms, denotes the documented set: # -> [^.], * -> [^.]*, letter -> [Xx], other -> [c] (or \^ for '^'); D.NAME splits into directory and name; case_insensitive_less is the lexicographic order of the lower-cased strings; has_name: same directory character and same 7-bit name up to case",
}
