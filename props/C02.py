# C02 -- dfs reports catalogue metadata exactly as encoded on the disc
import sys, os
sys.path.insert(0, os.path.dirname(os.path.abspath(__file__)))
import dfs_common as D

def jobs(tier):
    js = D.field_jobs(Job) + [D.sign_extend_job(Job)]
    js += D.c02_extra(Job, tier) if hasattr(D, "c02_extra") else []
    js += D.field_jobs(Job, D.CFG_ASSERT, "thorough")
    return js

META = {
    "trusted_base": D.DFS_TRUSTED,
    "assumptions": [],
    "outside": ["cat ordering and column layout (std::sort with a lambda comparator, colstream template, ostringstream::copyfmt)", "show-titles iteration"],
    "explanation": "independent decoding of every field of the 8 metadata bytes for all 2^64 values; sign extension per doc/dfs.1",
}
