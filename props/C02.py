# C02 -- dfs reports catalogue metadata exactly as encoded on the disc
import sys, os
sys.path.insert(0, os.path.dirname(os.path.abspath(__file__)))
import dfs_common as D

def jobs(tier):
    js = D.field_jobs(Job) + [D.sign_extend_job(Job)]
    js += D.c02_extra(Job, tier) if hasattr(D, "c02_extra") else []
    js += D.field_jobs(Job, D.CFG_ASSERT, "thorough")
    return js

META = {
    "trusted_base": D.DFS_TRUSTED,
    "assumptions": [],
    "outside": ["std::sort itself and the column layout of cat (colstream template, ostringstream::copyfmt; colstream::tab/update_col are under C19)", "show-titles iteration", "the value of the .inf CRC (TapeCRC accumulation across pieces)"],
    "explanation": "independent decoding of every field of the 8 metadata bytes for all 2^64 values; sign extension per doc/dfs.1; the info line and the .inf line against their output monitors; the catalogue header (title, cycle, boot option, total sectors: 10 bits, 11 on Watford DFS); the ordering key of cat (current directory first, then lower-cased directory, then case-insensitive name)",
}
