# C05 -- HFE and HxC-MFM flux images yield the same sectors as the equivalent sector dump (leaf lemmas only)
import sys, os
sys.path.insert(0, os.path.dirname(os.path.abspath(__file__)))
import dfs_common as D

def jobs(tier):
    return D.bitstream_jobs(Job) + D.crc_jobs(Job)[:2] + D.hxc_jobs(Job) + (D.c05_extra(Job, tier) if hasattr(D, "c05_extra") else [])

META = {
    "trusted_base": D.DFS_TRUSTED,
    "assumptions": ["tracks of at most 16 KiB; bit-stream stride 1 (HxC MFM) or 2 (HFE side interleave)", "copy_hfe: the number of cells a SKIPBITS operand contributes (8-n of the operand byte for n < 8, none for n >= 8) is taken from the code -- the property does not define it; no claim about their content; bytes F5..FF in an opcode position excluded", "the step from per-block copy_hfe contracts plus the state-carry monitor of the side-block loop to the whole side stream is an argument about the specification automaton (run over a concatenation), not a discharged obligation"],
    "outside": ["the rest of read_all_sectors (file reads, bit reversal by std::transform, per-track count check); compute_geometry (std::set): the end-to-end 'same sectors as the .ssd' clause is undecided"],
    "explanation": "reverse_bit_order is the bit reversal; BitStream::raw_pos/rawbit/getbit/size address bit (bitpos*stride+first) LSB-first in the byte vector; copy_hfe: opcode automaton (NOP/SETINDEX/SETBITRATE/SKIPBITS/RAND) with the decoding state carried across the side blocks of a track, every data cell at the position the automaton gives it (v1: byte for byte, bit-reversed); side h of a track is the blocks 2k+h; an MFM byte is delivered only under the MFM clock rule; HxC header fields and track list (read up to the last track of the last side); PicTrack::track_len rounds up to 512; both flux adapters return the sector whose ID is (lba / S, side, lba % S) or nothing",
}
