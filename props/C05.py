# C05 -- HFE and HxC-MFM flux images yield the same sectors as the equivalent sector dump (leaf lemmas only)
import sys, os
sys.path.insert(0, os.path.dirname(os.path.abspath(__file__)))
import dfs_common as D

def jobs(tier):
    return D.bitstream_jobs(Job) + D.crc_jobs(Job)[:2] + D.hxc_jobs(Job) + (D.c05_extra(Job, tier) if hasattr(D, "c05_extra") else [])

META = {
    "trusted_base": D.DFS_TRUSTED,
    "assumptions": ["tracks of at most 16 KiB; bit-stream stride 1 (HxC MFM) or 2 (HFE side interleave)"],
    "outside": ["the track state machines decode_fm_track / decode_mfm_track and read_all_sectors (STL state machines with a capturing lambda and std::sort): the end-to-end clause of C05 is undecided",
                "copy_hfe (HFE v3 opcodes), PicTrack, HFE/HxC adapters' sector lookup: not yet under contract"],
    "explanation": "leaf lemmas the decoders rest on: reverse_bit_order is the bit reversal; BitStream::raw_pos/rawbit/getbit/size address bit (bitpos*stride+first) LSB-first in the byte vector; little-endian field decoding of the HxC header",
}
