# C17 -- no command returns bytes from outside the volume or surface being read
import sys, os
sys.path.insert(0, os.path.dirname(os.path.abspath(__file__)))
import dfs_common as D

def jobs(tier):
    js = [D.volume_read_job(Job), D.visit_job(Job), D.last_sector_job(Job)]
    js += D.c17_extra(Job, tier) if hasattr(D, "c17_extra") else []
    js.append(D.volume_read_job(Job, D.CFG_ASSERT, "thorough"))
    return js

META = {
    "trusted_base": D.DFS_TRUSTED,
    "assumptions": [],
    "outside": ["the std::sort between the table loop and the extent loop of the OpusDiscCatalogue constructor (both loops are under contract)", "the flux adapters' sector lookup is under C05/C06"],
    "explanation": "Volume::Access::read_block(lba): lba >= len => none, otherwise exactly one underlying read at origin+lba; composition: visit_file_body_piecewise only reads start..start+ceil(len/256)-1 through that access object; FileView reads only its own take-windows and nothing at/after its end; Opus volumes end where the next begins (disjoint, ordered, inside the disc)",
}
