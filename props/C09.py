# C09 -- bbcbasic_to_text rejects truncated or ill-formed programs and never invents text
import sys, os
sys.path.insert(0, os.path.dirname(os.path.abspath(__file__)))
import basic_common as B

def jobs(tier):
    js = []
    cfg = B.CFG_NDEBUG
    for d in range(6):
        t = "quick" if d in (0, 1, 3) else "thorough"      # 6502 (BE), Z80 (LE), Windows (LE, crunched variables)
        # (i)-(iii): framing automaton; (ii) decode_line's precondition "the line was completely read from
        # this file by the most recent fread"; (iv) token-level rejection
        js.append(B.framing(Job, d, cfg, t))
        js.append(B.handle_token(Job, d, cfg, "quick" if d == 5 else t))     # PDP11: the 0xC8 rule (cut-off operand)
        js.append(B.decode_line(Job, d, cfg, t))
        js.append(B.count(Job, d, cfg, "quick" if d == 0 else "thorough"))   # the loop-keyword counter reads the line's own bytes only (nothing left over from an earlier line or file)
        js.append(B.decode_file(Job, d, cfg, t))
    js.append(B.wrapped_main(Job, cfg))     # (iii) per-file independence: fresh decoder, fresh indent, frame
    return js

META = {
    "trusted_base": B.BASIC_TRUSTED,
    "assumptions": ["input files of at most 16 MiB",
                    "allowances: the zero-length file is an empty program; bytes after a complete little-endian end marker only warn; "
                    "0x0D 0xFF followed by more bytes in a big-endian file is read as a line number with high byte 0xFF; "
                    "a little-endian line of length 3 carries no text"],
    "outside": [],
    "explanation": "returns true only if the framing automaton (written from doc/bbcbasic.5) reached DONE; decode_line is only ever handed a line completely read from the current file (ghost-index equality with the file bytes); failure implies a diagnostic; a token the spec rejects is never listed",
}
