# C16 -- every attached image gets its own drive number and commands read the right one
import sys, os
sys.path.insert(0, os.path.dirname(os.path.abspath(__file__)))
import dfs_common as D

def jobs(tier):
    return D.storage_jobs(Job) + (D.c16_extra(Job, tier) if hasattr(D, "c16_extra") else [])

META = {
    "trusted_base": D.DFS_TRUSTED + ["drive occupancy (std::map lookups behind is_drive_connected) is a ghost array indexed by the unbounded drive number"],
    "assumptions": ["getopt_long hands over the options in command-line order (C library)"],
    "outside": ["select_drive / mount (std::map lookup), CachedDevice (vector of unique_ptr), --show-config text", "history clause for 511-slot MMB files (reachable-state invariant: protocol-level)"],
    "explanation": "opposite_surface is the involution pairing {4k,4k+2},{4k+1,4k+3}; next/prev/next-device arithmetic with overflow => exception; check_sequence_fits(i,n) <=> i, opposite(i), i+2k (k<n) all free and in range; StorageConfiguration::connect_drives (both policies): nothing occupied changes, exactly n new drives, failure => nothing connected; ViewFile::connect_drives: one drive configuration per view, in order",
}
