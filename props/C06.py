# C06 -- track decoding never returns damaged or misaddressed sector data (leaf lemmas; see DESIGN.md C06)
import sys, os
sys.path.insert(0, os.path.dirname(os.path.abspath(__file__)))
import dfs_common as D

def jobs(tier):
    return D.crc_jobs(Job) + D.bitstream_jobs(Job) + D.mfm_decoder_jobs(Job) + (D.c06_extra(Job, tier) if hasattr(D, "c06_extra") else [])

META = {
    "trusted_base": D.DFS_TRUSTED,
    "assumptions": ["tracks of at most 16 KiB", "CRC blocks of at most 264 bytes (3 + 1 + 256 + 2)"],
    "outside": ["decode_fm_track / decode_mfm_track state machines (vectors of vectors, capturing lambda, std::sort): the first sentence of C06 is undecided",
                "check_track_is_supported, read_all_sectors"],
    "explanation": "crc_cycle is the CRC-16/CCITT bit step; update() folds the byte step over the data in order (loop contract against the bit-serial specification); an MFM byte is delivered only if every clock bit obeys the MFM rule",
}
