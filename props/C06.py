# C06 -- track decoding never returns damaged or misaddressed sector data (leaf lemmas; see DESIGN.md C06)
import sys, os
sys.path.insert(0, os.path.dirname(os.path.abspath(__file__)))
import dfs_common as D

def jobs(tier):
    return D.crc_jobs(Job) + D.bitstream_jobs(Job) + D.mfm_decoder_jobs(Job) + (D.c06_extra(Job, tier) if hasattr(D, "c06_extra") else [])

META = {
    "trusted_base": D.DFS_TRUSTED + ["models of std::vector<byte> in harness/dfs_track.c: size() as a field, elements in one shared store (at most one vector in use at a time), push_back / operator[] / resize / std::copy as checked accessors; sec.data tracked by the facts recorded when std::copy ran (which CRC-checked vector, which slice)"],
    "assumptions": ["tracks of at most 16 KiB", "CRC blocks: check_crc_with_a1s proved for vectors of up to 24 bytes (quick) / 261 bytes (thorough: 256-byte sectors); 512- and 1024-byte sectors only through update()'s own contract",
                    "termination of the decoder loops is not proved (no decreases clause on decode_mfm_track / scan_for)",
                    "check_crc_with_a1s / get_crc replaced in the state-machine jobs by their contracts without the ghost-table clauses (verdict unconstrained there)"],
    "outside": ["read_all_sectors (HFE/HxC), std::sort of the decoded sectors", "self_test_crc (asserts only)"],
    "explanation": "crc_cycle is the CRC-16/CCITT bit step; update() folds the byte step over any segment of the logical stream (loop contract against the bit-serial specification); check_crc_with_a1s is true iff the CRC over A1 A1 A1 ++ data is 0; an MFM byte is delivered only if every clock bit obeys the MFM rule; copy_mfm_bytes delivers exactly the bytes of consecutive 16-cell groups; scan_for reports the 64 cells that end at the reported position; decode_mfm_track and decode_fm_track (loop contracts over the two-state machines; the FM data CRC is computed inline and tracked by what the CRC object was fed) yield a sector only when the 7-byte ID field and the size+3 byte data field both passed the CRC check, the data field is the first field after that ID field (MFM: the next sync mark; FM: no ID address mark between, by scan_for's first-match postcondition), its mark is FB, and the data is exactly the bytes between mark and CRC",
}
