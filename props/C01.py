# C01 -- dfs delivers each catalogued file's bytes exactly
import sys, os
sys.path.insert(0, os.path.dirname(os.path.abspath(__file__)))
import dfs_common as D

def jobs(tier):
    js = []
    js += D.field_jobs(Job)
    js.append(D.sector_count_job(Job))
    js.append(D.last_sector_job(Job))
    js.append(D.visit_job(Job))
    js.append(D.volume_read_job(Job))
    js += D.c01_extra(Job, tier) if hasattr(D, "c01_extra") else []
    for j in D.field_jobs(Job, D.CFG_ASSERT, "thorough") + [D.last_sector_job(Job, D.CFG_ASSERT, "thorough"), D.visit_job(Job, D.CFG_ASSERT, "thorough")]:
        js.append(j)
    return js

META = {
    "trusted_base": D.DFS_TRUSTED,
    "assumptions": [],
    "outside": ["name lookup -> mount -> body plumbing (body_command, StorageConfiguration::mount, std::find_if over the entries: std::map, unique_ptr); the entry match itself (CatalogEntry::has_name) is under contract in C15"],
    "explanation": "field lemmas for all 2^64 metadata values; last_sector; sector walk of visit_file_body_piecewise by loop contract with a read/visit monitor; Volume::Access::read_block; the type / list body lambdas and hexdump_bytes against their output monitors",
}
