"""Extraction specs (engine/cxx2c.py) for the dfs/ functions under contract.  Every regex rule is
must-fire with the stated count; see DESIGN.md 2.2 for the rule vocabulary."""

SC = (r"static_cast<(?:DFS::)?sector_count_type>\(", r"(sector_count_type)(", 1)
ASSERT = lambda n: (r"\bassert\(", "VERIF_ASSERT(", n)

CE_PRE = """#define raw_name_ (self->raw_name_)
#define raw_metadata_ (self->raw_metadata_)
#define metadata_byte(o) CatalogEntry_metadata_byte(self, (o))
#define metadata_word(o) CatalogEntry_metadata_word(self, (o))
#define start_sector() CatalogEntry_start_sector(self)
#define file_length() CatalogEntry_file_length(self)
#define last_sector() CatalogEntry_last_sector(self)
"""
CE_POST = """#undef raw_name_
#undef raw_metadata_
#undef metadata_byte
#undef metadata_word
#undef start_sector
#undef file_length
#undef last_sector
"""

def ce(name, anchor, sig, rules=(), file="dfs/dfs_catalog.h"):
    return {"name": "CatalogEntry_" + name, "file": file, "anchor": anchor, "sig": sig, "rules": list(rules),
            "pre": CE_PRE, "post": CE_POST}

SPECS = {}
def add(s):
    SPECS[s["name"]] = s
    return s

add({"name": "sector_count", "file": "dfs/dfstypes.h",
     "anchor": r"inline sector_count_type sector_count\(long int x\)",
     "sig": "static sector_count_type sector_count(long int x)",
     "rules": [ASSERT(2), (r"std::numeric_limits<sector_count_type>::max\(\)", "UINT_MAX", 1),
               (r"static_cast<DFS::sector_count_type>\(", "(sector_count_type)(", 1)]})
add(ce("metadata_byte", r"unsigned short metadata_byte\(unsigned offset\) const",
       "static unsigned short CatalogEntry_metadata_byte(const struct CatalogEntry *self, unsigned offset)"))
add(ce("metadata_word", r"unsigned short metadata_word\(unsigned offset\) const",
       "static unsigned short CatalogEntry_metadata_word(const struct CatalogEntry *self, unsigned offset)",
       [(r"static_cast<unsigned short>\(", "(unsigned short)(", 1)]))
add(ce("load_address", r"unsigned long load_address\(\) const",
       "static unsigned long CatalogEntry_load_address(const struct CatalogEntry *self)"))
add(ce("exec_address", r"unsigned long exec_address\(\) const",
       "static unsigned long CatalogEntry_exec_address(const struct CatalogEntry *self)"))
add(ce("file_length", r"unsigned long file_length\(\) const",
       "static unsigned long CatalogEntry_file_length(const struct CatalogEntry *self)"))
add(ce("start_sector", r"sector_count_type start_sector\(\) const",
       "static sector_count_type CatalogEntry_start_sector(const struct CatalogEntry *self)", [SC]))
add(ce("directory", r"char directory\(\) const", "static char CatalogEntry_directory(const struct CatalogEntry *self)"))
add(ce("is_locked", r"bool is_locked\(\) const", "static bool CatalogEntry_is_locked(const struct CatalogEntry *self)"))
add(ce("last_sector", r"sector_count_type CatalogEntry::last_sector\(\) const",
       "static sector_count_type CatalogEntry_last_sector(const struct CatalogEntry *self)",
       [(r"\bconst auto\b", "const unsigned long", 2), (r"\bldiv_t\b", "verif_ldiv_t", 1), (r"\bldiv\(", "verif_ldiv((long)", 1),
        (r"DFS::SECTOR_BYTES", "SECTOR_BYTES", 1), ASSERT(1), (r"std::numeric_limits<int>::max\(\)", "INT_MAX", 1),
        (r"static_cast<int>\(", "(int)(", 1)],
       file="dfs/dfs_catalog.cc"))
add(ce("visit_file_body_piecewise", r"bool CatalogEntry::visit_file_body_piecewise\s*\(DataAccess& media,\s*std::function<bool\(const byte\* begin, const byte\* end\)> visitor\) const",
       "static bool CatalogEntry_visit_file_body_piecewise(const struct CatalogEntry *self, struct DataAccess *media, struct visitor *visitor)",
       [(r"auto buf = media\.read_block\(sec\);", "opt_SectorBuffer buf = DataAccess_read_block(media, sec);", 1),
        (r"if \(!buf\)", "if (!buf.has)", 1),
        (r'throw BadFileSystem\("[^"]*"\);', "{ VERIF_THROW(BadFileSystem, 0); return false; }", 1),
        (r"visitor\(buf->begin\(\), buf->begin\(\) \+ visit_len\)", "visitor_call(visitor, buf.val.d, buf.val.d + visit_len)", 1),
        ASSERT(1),
        (r"(for \(sector_count_type sec = start; sec <= end; \+\+sec\))", r"\1 VISIT_LOOP_CONTRACT", 1)],
       file="dfs/dfs_catalog.cc"))
add({"name": "sign_extend", "file": "dfs/dfs_catalog.cc",
     "anchor": r"unsigned long sign_extend\(unsigned long address\)",
     "sig": "static unsigned long sign_extend(unsigned long address)", "rules": []})
add({"name": "VolumeAccess_read_block", "file": "dfs/dfs_volume.h",
     "anchor": r"std::optional<SectorBuffer> read_block\(unsigned long lba\) override",
     "sig": "static opt_SectorBuffer VolumeAccess_read_block(struct VolumeAccess *self, unsigned long lba)",
     "pre": "#define origin_ (self->origin_)\n#define len_ (self->len_)\n",
     "post": "#undef origin_\n#undef len_\n",
     "rules": [(r"return std::nullopt;", "{ opt_SectorBuffer none_; none_.has = 0; return none_; }", 1),
               (r"underlying_\.read_block\(", "DataAccess_read_block(self->underlying_, ", 1)]})
