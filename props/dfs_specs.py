"""Extraction specs (engine/cxx2c.py) for the dfs/ functions under contract.  Every regex rule is
must-fire with the stated count; see DESIGN.md 2.2 for the rule vocabulary."""

SC = (r"static_cast<(?:DFS::)?sector_count_type>\(", r"(sector_count_type)(", 1)
ASSERT = lambda n: (r"\bassert\(", "VERIF_ASSERT(", n)

CE_PRE = """#define raw_name_ (self->raw_name_)
#define raw_metadata_ (self->raw_metadata_)
#define metadata_byte(o) CatalogEntry_metadata_byte(self, (o))
#define metadata_word(o) CatalogEntry_metadata_word(self, (o))
#define start_sector() CatalogEntry_start_sector(self)
#define file_length() CatalogEntry_file_length(self)
#define last_sector() CatalogEntry_last_sector(self)
"""
CE_POST = """#undef raw_name_
#undef raw_metadata_
#undef metadata_byte
#undef metadata_word
#undef start_sector
#undef file_length
#undef last_sector
"""

def ce(name, anchor, sig, rules=(), file="dfs/dfs_catalog.h"):
    return {"name": "CatalogEntry_" + name, "file": file, "anchor": anchor, "sig": sig, "rules": list(rules),
            "pre": CE_PRE, "post": CE_POST}

SPECS = {}
def add(s):
    SPECS[s["name"]] = s
    return s

add({"name": "sector_count", "file": "dfs/dfstypes.h",
     "anchor": r"inline sector_count_type sector_count\(long int x\)",
     "sig": "static sector_count_type sector_count(long int x)",
     "rules": [ASSERT(2), (r"std::numeric_limits<sector_count_type>::max\(\)", "UINT_MAX", 1),
               (r"static_cast<DFS::sector_count_type>\(", "(sector_count_type)(", 1)]})
add(ce("metadata_byte", r"unsigned short metadata_byte\(unsigned offset\) const",
       "static unsigned short CatalogEntry_metadata_byte(const struct CatalogEntry *self, unsigned offset)"))
add(ce("metadata_word", r"unsigned short metadata_word\(unsigned offset\) const",
       "static unsigned short CatalogEntry_metadata_word(const struct CatalogEntry *self, unsigned offset)",
       [(r"static_cast<unsigned short>\(", "(unsigned short)(", 1)]))
add(ce("load_address", r"unsigned long load_address\(\) const",
       "static unsigned long CatalogEntry_load_address(const struct CatalogEntry *self)"))
add(ce("exec_address", r"unsigned long exec_address\(\) const",
       "static unsigned long CatalogEntry_exec_address(const struct CatalogEntry *self)"))
add(ce("file_length", r"unsigned long file_length\(\) const",
       "static unsigned long CatalogEntry_file_length(const struct CatalogEntry *self)"))
add(ce("start_sector", r"sector_count_type start_sector\(\) const",
       "static sector_count_type CatalogEntry_start_sector(const struct CatalogEntry *self)", [SC]))
add(ce("directory", r"char directory\(\) const", "static char CatalogEntry_directory(const struct CatalogEntry *self)"))
add(ce("is_locked", r"bool is_locked\(\) const", "static bool CatalogEntry_is_locked(const struct CatalogEntry *self)"))
add(ce("last_sector", r"sector_count_type CatalogEntry::last_sector\(\) const",
       "static sector_count_type CatalogEntry_last_sector(const struct CatalogEntry *self)",
       [(r"\bconst auto\b", "const unsigned long", 2), (r"\bldiv_t\b", "verif_ldiv_t", 1), (r"\bldiv\(", "verif_ldiv((long)", 1),
        (r"DFS::SECTOR_BYTES", "SECTOR_BYTES", 1), ASSERT(1), (r"std::numeric_limits<int>::max\(\)", "INT_MAX", 1),
        (r"static_cast<int>\(", "(int)(", 1)],
       file="dfs/dfs_catalog.cc"))
add(ce("visit_file_body_piecewise", r"bool CatalogEntry::visit_file_body_piecewise\s*\(DataAccess& media,\s*std::function<bool\(const byte\* begin, const byte\* end\)> visitor\) const",
       "static bool CatalogEntry_visit_file_body_piecewise(const struct CatalogEntry *self, struct DataAccess *media, struct visitor *visitor)",
       [(r"auto buf = media\.read_block\(([^;]*)\);", r"opt_SectorBuffer buf = DataAccess_read_block(media, \1);", 1),
        (r"if \(!buf\)", "if (!buf.has)", 1),
        (r'throw BadFileSystem\("[^"]*"\);', "{ VERIF_THROW(BadFileSystem, 0); return false; }", ">=0"),
        (r"buf->begin\(\)", "buf.val.d", 2), (r"\bvisitor\(", "visitor_call(visitor, ", 1),
        ASSERT(1),
        (r"(for \(sector_count_type sec = start; sec <= end; \+\+sec\))", r"\1 VISIT_LOOP_CONTRACT", 1)],
       file="dfs/dfs_catalog.cc"))
add({"name": "sign_extend", "file": "dfs/dfs_catalog.cc",
     "anchor": r"unsigned long sign_extend\(unsigned long address\)",
     "sig": "static unsigned long sign_extend(unsigned long address)", "rules": []})
add({"name": "VolumeAccess_read_block", "file": "dfs/dfs_volume.h",
     "anchor": r"std::optional<SectorBuffer> read_block\(unsigned long lba\) override",
     "sig": "static opt_SectorBuffer VolumeAccess_read_block(struct VolumeAccess *self, unsigned long lba)",
     "pre": "#define origin_ (self->origin_)\n#define len_ (self->len_)\n",
     "post": "#undef origin_\n#undef len_\n",
     "rules": [(r"return std::nullopt;", "{ opt_SectorBuffer none_; none_.has = 0; return none_; }", 1),
               (r"underlying_\.read_block\(", "DataAccess_read_block(self->underlying_, ", 1)]})

# ---- img_fileio.cc / img_sdf.cc / dfs.h (C04, C17) ---------------------------------------------
FV_PRE = "#define initial_skip_ (self->initial_skip_)\n#define take_ (self->take_)\n#define leave_ (self->leave_)\n#define total_ (self->total_)\n"
FV_POST = "#undef initial_skip_\n#undef take_\n#undef leave_\n#undef total_\n"
NULLOPT_SB = (r"return std::nullopt;", "{ opt_SectorBuffer none_; none_.has = 0; return none_; }")
add({"name": "safe_unsigned_multiply_ul", "file": "dfs/dfs.h",
     "anchor": r"template <typename T> T safe_unsigned_multiply\(T a, T b\)",
     "sig": "static unsigned long safe_unsigned_multiply_ul(unsigned long a, unsigned long b)",
     "rules": [(r"static_assert\(std::numeric_limits<T>::is_integer\s*&& !std::numeric_limits<T>::is_signed\);", "/* static_assert dropped: T = unsigned long */", 1),
               (r"\bT\(", "(unsigned long)(", 2),
               (r"std::numeric_limits<T>::max\(\)", "ULONG_MAX", 1),
               (r'throw std::range_error\("[^"]*"\);', "{ VERIF_THROW(Other, 0); return 0; }", 1)],
     "dropped": ["static_assert on the template parameter"]})
# OsFile::read (C10 i: the uncompressed reference path; C07: short reads): exactly the bytes that exist
add({"name": "OsFile_read", "file": "dfs/img_fileio.cc", "anchor": r"std::vector<byte> OsFile::read\(unsigned long pos, unsigned long len\)",
     "sig": "static struct rvec OsFile_read(unsigned long pos, unsigned long len)",
     "rules": [(r"std::cerr <<(?:[^;\"]|\"(?:[^\"\\]|\\.)*\")*;", "g_diag++;  /* diagnostic text dropped */", ">=1"),
               (r"if \(!f_\)", "if (ifs_not(&F))", 1),
               (r"std::vector<byte> buf;", "struct rvec buf; buf.n = 0;", 1),
               (r"!f_\.seekg\(pos, f_\.beg\)", "!ifs_seekg(&F, pos)", 1),
               (r"f_\.clear\(\);", "ifs_clear(&F);", ">=1"),
               (r"f_\.read\(reinterpret_cast<char\*>\(buf\.data\(\)\), len\);", "ifs_read(&F, buf.n, len);", 1),
               (r"buf\.resize\(((?:[^();]|\([^()]*\))*)\);", r"buf.n = (\1);", ">=2"),
               (r"f_\.gcount\(\)", "F.gcount", ">=1"), (r"!f_\.good\(\)", "!ifs_good(&F)", 1),
               (r"\bf_ \?", "(!ifs_not(&F)) ?", ">=0"),
               (r"throw DFS::FileIOError\(file_name_, \w+\);", "{ VERIF_THROW(OsError, 0); return buf; }", ">=1"),
               (r"\berrno\b", "g_errno", ">=1")],
     "dropped": ["diagnostic texts", "the bytes themselves (istream::read delivers them: model)"]})
add({"name": "FileView_read_block", "file": "dfs/img_fileio.cc",
     "anchor": r"std::optional<DFS::SectorBuffer> FileView::read_block\(unsigned long sector\)",
     "sig": "static opt_SectorBuffer FileView_read_block(struct FileView *self, unsigned long sector)",
     "pre": FV_PRE, "post": FV_POST,
     "rules": [(NULLOPT_SB[0], NULLOPT_SB[1], ">=1"),
               (r"safe_unsigned_multiply\(", "safe_unsigned_multiply_ul(", 1),
               (r"static_cast<unsigned long>\(", "(unsigned long)(", 1),
               (r"return media_\.read_block\(([^;]*)\);", r"if (g_exc) { opt_SectorBuffer none_; none_.has = 0; return none_; } return DataAccess_read_block(self->media_, \1);", 1)]})
add({"name": "FilePresentedBlockwise_read_block", "file": "dfs/img_sdf.cc",
     "anchor": r"std::optional<SectorBuffer> FilePresentedBlockwise::read_block\(unsigned long lba\)",
     "sig": "static opt_SectorBuffer FilePresentedBlockwise_read_block(struct FilePresentedBlockwise *self, unsigned long lba)",
     "rules": [(r"DFS::SECTOR_BYTES", "SECTOR_BYTES", ">=1"),
               (r"std::vector<byte> got = f_\.read\(([^;]*)\);", r"struct bytevec got = FileAccess_read(self->f_, \1);", 1),
               (r"got\.size\(\)", "got.n", ">=0"), (r"got\.empty\(\)", "(got.n == 0)", ">=0"), (r"\bassert\(", "VERIF_ASSERT(", ">=0"),
               (NULLOPT_SB[0], NULLOPT_SB[1], 1),
               (r"std::copy\(got\.begin\(\), got\.end\(\), buf\.begin\(\)\);", "bytevec_copy(&got, buf.d);", 1),
               (r"return buf;", "{ opt_SectorBuffer some_; some_.has = 1; some_.val = buf; return some_; }", 1)]})

# ---- identify.cc (C13) ---------------------------------------------------------------------------
ID = "dfs/identify.cc"
add({"name": "smells_like_hdfs", "file": ID, "anchor": r"bool smells_like_hdfs\(const DFS::SectorBuffer& sec1\)",
     "sig": "static bool smells_like_hdfs(const SectorBuffer *sec1)",
     "rules": [(r"sec1\[", "sec1->d[", 1)]})
add({"name": "get_dfs_sector_count", "file": ID, "anchor": r"DFS::sector_count_type get_dfs_sector_count\(const DFS::SectorBuffer& sec1\)",
     "sig": "static sector_count_type get_dfs_sector_count(const SectorBuffer *sec1)",
     "rules": [(r"sec1\[", "sec1->d[", 2), (r"DFS::sector_count_type\(", "(sector_count_type)(", 1)]})
add({"name": "get_hdfs_sector_count", "file": ID, "anchor": r"DFS::sector_count_type get_hdfs_sector_count\(const DFS::SectorBuffer& sec1\)",
     "sig": "static sector_count_type get_hdfs_sector_count(const SectorBuffer *sec1)",
     "rules": [(r"sec1\[", "sec1->d[", 3), (r"DFS::sector_count_type\(", "(sector_count_type)(", 1),
               (r"\bauto sectors_per_side\b", "int sectors_per_side", 1), (r"\bconst auto side_shift\b", "const int side_shift", 1)]})
add({"name": "smells_like_watford", "file": ID,
     "anchor": r"bool smells_like_watford\(DFS::DataAccess& access,\s*const DFS::SectorBuffer& buf1\)",
     "sig": "static bool smells_like_watford(struct DataAccess *access, const SectorBuffer *buf1)",
     "rules": [(r"DFS::byte", "byte", 2), (r"buf1\[", "buf1->d[", ">=2"),
               (r"\bauto start_sector\b", "__auto_type start_sector", 1),
               (r'eliminated_format\(DFS::Format::WDFS, "sector 2 is in use by a file"\);', "g_witness_pos = pos;  /* diagnostic dropped, witness kept */", 1),
               (r'eliminated_format\(DFS::Format::WDFS, "[^"]*"\);', "/* diagnostic dropped */", 2),
               (r"auto got = access\.read_block\(([^;]*)\);", r"opt_SectorBuffer got = DataAccess_read_block(access, \1);", 1),
               (r"if \(!got\)", "if (!got.has)", 1),
               (r"std::all_of\(got->cbegin\(\), got->cbegin\(\)\+([0-9a-fx]+),\s*\[\]\(byte b\) \{ return b == ([0-9A-Fa-fx]+); \}\)", r"bytes_all_equal(got.val.d, \1, \2)", 1),
               (r"(for \(pos = 8; pos <= last_catalog_entry_pos; pos \+= 8\))", r"\1 WATFORD_LOOP_CONTRACT", 1)],
     "dropped": ["eliminated_format(...) diagnostics (verbose-only stderr text)"]})

# smells_like_opus_ddos (C13 "Opus DDOS only when sector 16 holds a self-consistent volume table"): the decision structure; the
# OpusDiscCatalogue constructor and CatalogFragment::valid it relies on have their own contracts (recording models here)
SS = r"std::ostringstream ss;(?:[^;\"]|\"(?:[^\"\\]|\\.)*\")*;(?:\s*ss\b(?:[^;\"]|\"(?:[^\"\\]|\\.)*\")*;)*"
add({"name": "smells_like_opus_ddos", "file": ID,
     "anchor": r"bool smells_like_opus_ddos\(DFS::DataAccess& media, DFS::sector_count_type\* sectors\)",
     "sig": "static bool smells_like_opus_ddos(struct DataAccess *media, sector_count_type *sectors)",
     "rules": [(r"std::optional<DFS::SectorBuffer> got = media\.read_block\(16\);", "opt_SectorBuffer got = DataAccess_read_block(media, 16);", 1),
               (r"if \(!got\)", "if (!got.has)", 1),
               (r"const DFS::SectorBuffer& sector16\(\*got\);", "const SectorBuffer *sector16_ = &got.val;", 1),
               (r"\bsector16\[", "sector16_->d[", ">=3"),
               (SS, "", ">=1"),
               (r"eliminated_format\(DFS::Format::OpusDDOS,(?:[^;\"]|\"(?:[^\"\\]|\\.)*\")*;", "eliminated_model();", ">=5"),
               (r"std::vector<DFS::internal::OpusDiscCatalogue::VolumeLocation> locations;", "size_t locations_n = 0;", 1),
               (r"try\s*\{\s*DFS::internal::OpusDiscCatalogue opus_disc_cat\(sector16, std::nullopt\);\s*locations = opus_disc_cat\.get_volume_locations\(\);\s*\}\s*catch \(BadFileSystem& e\)\s*\{",
                "locations_n = opus_catalogue_model(sector16_);   /* constructor without a geometry + get_volume_locations */\n    if (g_exc == EXC_BadFileSystem)\n      { g_exc = EXC_NONE;", 1),
               (r"locations\.empty\(\)", "(locations_n == 0)", 1),
               (r"if \(DFS::verbose\)\s*\{[^{}]*\}", "/* verbose dropped */", ">=0"), (r"if \(DFS::verbose\)\s*std::cerr <<[^;]*;", "/* verbose dropped */", ">=0"),
               (r"for \(const auto& loc : locations\)\s*\{", "for (size_t li_ = 0; li_ < locations_n; ++li_) OPUS_SMELL_LOOP_CONTRACT\n      { const struct VolumeLocation *loc = &h_locs[li_];", 1),
               ASSERT(">=0"), (r"\bloc\.start_sector\(\)", "loc->start_sector_", ">=0"),
               (r"DFS::Volume vol\(DFS::Format::OpusDDOS,\s*([^;]*?),\s*media\);\s*const DFS::Catalog& root\(vol\.root\(\)\);\s*std::string error;\s*if \(!root\.valid\(error\)\)",
                r"if (!volume_root_valid_model(\1, media))", 1),
               (r"\bloc\.catalog_location\(\)", "loc->catalog_location_", 1), (r"\bloc\.len\(\)", "loc->len_", 1),
               (r"auto sector_to_read = DFS::sector_count\(", "const sector_count_type sector_to_read = sector_count(", 1),
               (r"auto last = media\.read_block\(sector_to_read\);", "opt_SectorBuffer last = DataAccess_read_block(media, sector_to_read);", 1),
               (r"if \(!last\)", "if (!last.has)", 1),
               (r"\*sectors = DFS::sector_count\(", "*sectors = sector_count(", 1)],
     "dropped": ["eliminated_format(...) diagnostics (verbose-only stderr text)", "the Volume / Catalog objects built per volume (their validity check is a recording model)"]})

# probe order (C13): smells_like_acorn_dfs and probe_format; every probe call goes through a recording wrapper (PF_*)
add({"name": "smells_like_acorn_dfs", "file": ID,
     "anchor": r"bool smells_like_acorn_dfs\(DFS::DataAccess& media, const DFS::SectorBuffer& sec1,\s*std::string& error\)",
     "sig": "static bool smells_like_acorn_dfs(struct DataAccess *media, const SectorBuffer *sec1)",
     "rules": [(r"sec1\[", "sec1->d[", ">=1"),
               (r"eliminated_format\(DFS::Format::DFS, [^;]*\);", "/* diagnostic dropped */", ">=1"),
               (r"smells_like_watford\(media, sec1\)", "PF_watford(media, sec1)", 1),
               (r"DFS::sector_count_type sectors;", "sector_count_type sectors = 0;", 1),
               (r"smells_like_opus_ddos\(media, &sectors\)", "PF_opus(media, &sectors)", 1),
               (r"has_valid_dfs_catalog\(media, 0, error\)", "PF_valid_catalog(media, 0)", 1)],
     "dropped": ["eliminated_format(...) diagnostics"]})
add({"name": "probe_format", "file": ID,
     "anchor": r"probe_format\(DFS::DataAccess& access, std::string& error\)",
     "sig": "static struct opt_format_count probe_format(struct DataAccess *access)",
     "rules": [(r"DFS::SectorBuffer buf1;", "SectorBuffer buf1;", 1),
               (r"auto got = access\.read_block\(([^;]*)\);", r"opt_SectorBuffer got = DataAccess_read_block(access, \1);", 1),
               (r"if \(!got\)", "if (!got.has)", 1), (r'error = "[^"]*";', "g_diag++;", ">=0"),
               (r"buf1 = \*got;", "buf1 = got.val;", 1),
               (r"return std::nullopt;", "{ struct opt_format_count none_; none_.has = 0; none_.fmt = 0; none_.count = 0; return none_; }", ">=1"),
               (r"return std::make_pair\(DFS::Format::(\w+), ([^;]*)\);", r"{ struct opt_format_count some_; some_.has = 1; some_.fmt = Format_\1; some_.count = (\2); return some_; }", ">=1"),
               (r"smells_like_hdfs\(buf1\)", "PF_hdfs(&buf1)", 1), (r"get_hdfs_sector_count\(buf1\)", "get_hdfs_sector_count(&buf1)", ">=0"),
               (r"get_dfs_sector_count\(buf1\)", "get_dfs_sector_count(&buf1)", ">=0"),
               (r"smells_like_watford\(access, buf1\)", "PF_watford(access, &buf1)", 1),
               (r"DFS::sector_count_type opus_sectors;", "sector_count_type opus_sectors = 0;", 1),
               (r"smells_like_opus_ddos\(access, &opus_sectors\)", "PF_opus(access, &opus_sectors)", 1),
               (r"std::string acorn_dfs_error;", "/* error text dropped */", 1),
               (r"smells_like_acorn_dfs\(access, buf1, acorn_dfs_error\)", "PF_acorn(access, &buf1)", 1),
               (r"std::ostringstream ss;.*?error = ss\.str\(\);", "g_diag++;  /* diagnostic text dropped */", 1)],
     "dropped": ["diagnostic texts"]})

# geometry selection (C13: "a geometry large enough for the catalogue's sector count"): the three lambdas of probe_geometry
add({"name": "single_sided_filesystem", "file": "dfs/dfs_filesystem.cc", "anchor": r"bool single_sided_filesystem\(Format fmt, DataAccess& media\)",
     "sig": "static bool single_sided_filesystem(int fmt, struct DataAccess *media)",
     "rules": [(r"DFS::Format::(\w+)", r"Format_\1", ">=1"),
               (r"std::optional<DFS::SectorBuffer> got = media\.read_block\(([^;]*)\);", r"opt_SectorBuffer got = DataAccess_read_block(media, \1);", 1),
               (r"if \(!got\)", "if (!got.has)", 1), (r"const DFS::SectorBuffer& sec1\(\*got\);", "const SectorBuffer *sec1 = &got.val;", 1),
               (r"sec1\[", "sec1->d[", ">=1")]})
add({"name": "geom_large_enough", "file": ID, "anchor": r"\[total_sectors, fmt, &media\]\(const DFS::ImageFileFormat& ff\) -> bool",
     "sig": "static bool geom_large_enough(sector_count_type total_sectors, int fmt, struct DataAccess *media, const struct ImageFileFormat *ff)",
     "rules": [(r"DFS::sector_count_type available_sectors;", "sector_count_type available_sectors;", 1), (r"std::string sides_desc;", "/* description dropped */", 1),
               (r'sides_desc = "[^"]*";', "/* description dropped */", ">=0"),
               (r"DFS::single_sided_filesystem\(fmt, media\)", "(g_single_sided = single_sided_filesystem(fmt, media))", 1),
               (r"DFS::sector_count\(", "sector_count(", ">=1"), (r"ff\.geometry\.total_sectors\(\)", "Geometry_total_sectors(&ff->geometry)", ">=1"),
               (r"ff\.geometry\.", "ff->geometry.", ">=1"),
               (r"if \(DFS::verbose\)\s*\{[^{}]*\}", "/* verbose dropped */", "=0or1"),
               (r"std::ostringstream os;.*?eliminated_geometry\([^;]*\);", "g_diag++;  /* diagnostic text dropped */", 1)],
     "dropped": ["verbose text", "eliminated_geometry diagnostic"]})
add({"name": "geom_other_side_has_catalog_too", "file": ID, "anchor": r"\[&media\]\(const DFS::ImageFileFormat& ff\) -> bool",
     "sig": "static bool geom_other_side_has_catalog_too(struct DataAccess *media, const struct ImageFileFormat *ff)",
     "rules": [(r"DFS::sector_count_type other =", "sector_count_type other =", 1), (r"DFS::sector_count\(", "sector_count(", 1),
               (r"ff\.geometry\.", "ff->geometry.", ">=1"), (r"ff\.interleaved", "ff->interleaved", ">=1"),
               (r"std::string error;", "/* error text dropped */", 1),
               (r"has_valid_dfs_catalog\(media, other, error\)", "has_valid_dfs_catalog_model(media, other)", 1),
               (r"std::ostringstream os;.*?eliminated_format\([^;]*\);", "g_diag++;  /* diagnostic text dropped */", 1)],
     "dropped": ["eliminated_format diagnostic"]})
add({"name": "geom_compare_formats", "file": ID, "anchor": r"\[\]\(const DFS::ImageFileFormat& left,\s*const DFS::ImageFileFormat& right\)",
     "sig": "static bool geom_compare_formats(const struct ImageFileFormat *left, const struct ImageFileFormat *right)",
     "rules": [(r"\b(left|right)\.geometry\.total_sectors\(\)", r"Geometry_total_sectors(&\1->geometry)", ">=2"), (r"\b(left|right)\.geometry\.", r"\1->geometry.", ">=1")]})

# the name hints of make_candidate_list (C10 i: X and X.gz are probed with the same hints)
add({"name": "candidate_hints", "file": ID,
     "anchor": r"std::optional<DFS::Encoding> encoding_hint;", "region_end": r"std::vector<DFS::ImageFileFormat> candidates;",
     "sig": "static void candidate_hints(struct NameM name, struct hints *out)",
     "region_epilogue": "out->encoding = encoding_hint; out->interleaving = interleaving_hint; out->sides = sides_hint;\n",
     "rules": [(r"std::optional<DFS::Encoding> encoding_hint;", "struct opt_int encoding_hint = { 0, 0 };", 1),
               (r"std::optional<bool> interleaving_hint;", "struct opt_int interleaving_hint = { 0, 0 };", 1),
               (r"std::optional<int> sides_hint;", "struct opt_int sides_hint = { 0, 0 };", 1),
               (r"std::string base\(name\);", "struct NameM base = name;", "=0or1"),
               (r"DFS::stringutil::remove_suffix\(&(\w+), (\"[^\"]*\")\);", r"remove_suffix_model(&\1, \2);", ">=0"),
               (r"DFS::stringutil::ends_with\((\w+), (\"[^\"]*\")\)", r"ends_with_model(&\1, \2)", ">=1"),
               (r"(\w+_hint) = DFS::Encoding::(\w+);", r"{ \1.has = 1; \1.val = Encoding_\2; }", ">=0"),
               (r"(\w+_hint) = (false|true|\d+);", r"{ \1.has = 1; \1.val = \2; }", ">=0")],
     "dropped": []})

# ---- stringutil.cc (C10 i: the ".gz" is taken off the END of the name; C04/C13: the suffix tests of the hints) ----------------
add({"name": "su_ends_with", "file": "dfs/stringutil.cc", "anchor": r"bool ends_with\(const std::string & s, const std::string& suffix\)",
     "sig": "static bool su_ends_with(const struct cstr *s_, const struct cstr *suffix_)",
     "rules": [(r"suffix\.size\(\)", "suffix_->n", ">=1"), (r"\bs\.size\(\)", "s_->n", ">=1"),
               (r"std::equal\(suffix\.rbegin\(\), suffix\.rend\(\), s\.rbegin\(\)\)", "rev_equal_model(suffix_, s_)", 1)]})
add({"name": "su_remove_suffix", "file": "dfs/stringutil.cc", "anchor": r"bool remove_suffix\(std::string\* s, const std::string& suffix\)",
     "sig": "static bool su_remove_suffix(struct cstr *s, const struct cstr *suffix_)",
     "rules": [(r"suffix\.size\(\)", "suffix_->n", ">=1"), (r"\bs->size\(\)", "s->n", ">=1"),
               (r"std::equal\(suffix\.rbegin\(\), suffix\.rend\(\), s->rbegin\(\)\)", "rev_equal_model(suffix_, s)", 1),
               (r"s->find\(suffix\)", "cstr_find_model(s, suffix_)", ">=0"),
               (r"s->erase\(((?:[^();]|\([^()]*\))*)\);", r"cstr_erase_model(s, \1);", 1)]})

# ---- driveselector.cc / storage.cc (C16): SurfaceSelector is `unsigned int d_` by value -----------
DS = "dfs/driveselector.cc"
SSEL = (r"SurfaceSelector\(", "(surface_t)(")
THROW_OOR = (r'throw std::out_of_range\("[^"]*"\);', "{ VERIF_THROW(Other, 0); return 0; }")
add({"name": "SurfaceSelector_opposite_surface", "file": DS, "anchor": r"SurfaceSelector SurfaceSelector::opposite_surface\(\) const",
     "sig": "static surface_t SurfaceSelector_opposite_surface(surface_t d_)",
     "rules": [(SSEL[0], SSEL[1], 2), (r"\babort\(\);", "VERIF_ABORT();", 1)]})
add({"name": "SurfaceSelector_corresponding_side_of_next_device", "file": DS,
     "anchor": r"SurfaceSelector SurfaceSelector::corresponding_side_of_next_device\(const SurfaceSelector& d\)",
     "sig": "static surface_t SurfaceSelector_corresponding_side_of_next_device(surface_t d)",
     "rules": [(r"\bauto val\b", "surface_t val", 1), (r"d\.d_", "d", 2), (THROW_OOR[0], THROW_OOR[1], 1), (SSEL[0], SSEL[1], 1)]})
add({"name": "SurfaceSelector_next", "file": DS, "anchor": r"SurfaceSelector SurfaceSelector::next\(\) const",
     "sig": "static surface_t SurfaceSelector_next(surface_t d_)",
     "rules": [(r"std::numeric_limits<unsigned int>::max\(\)", "UINT_MAX", 1), (THROW_OOR[0], THROW_OOR[1], 1), (SSEL[0], SSEL[1], 1)]})
add({"name": "SurfaceSelector_prev", "file": DS, "anchor": r"SurfaceSelector SurfaceSelector::prev\(\) const",
     "sig": "static surface_t SurfaceSelector_prev(surface_t d_)",
     "rules": [(THROW_OOR[0], THROW_OOR[1], 1), (SSEL[0], SSEL[1], 1)]})
add({"name": "check_sequence_fits", "file": "dfs/storage.cc",
     "anchor": r"bool check_sequence_fits\(DFS::drive_number i,\s*const std::vector<DriveConfig>::size_type to_do,\s*std::function<bool\(DFS::drive_number\)> occupied\)",
     "sig": "static bool check_sequence_fits(surface_t i, const size_t to_do, struct occ_fn *occupied)",
     "rules": [(r"typedef const std::vector<DriveConfig> vec;", "g_i0 = i;  /* typedef dropped; ghost: entry value of i */", 1),
               (r"vec::size_type", "size_t", 1),
               (r"occupied\(i\.opposite_surface\(\)\)", "occupied_call(occupied, SurfaceSelector_opposite_surface(i))", 1),
               (r"occupied\(i\)", "occupied_call(occupied, i)", 2),
               (r"const auto limit = std::numeric_limits<DFS::drive_number>::max\(\)\.prev\(\);", "const surface_t limit = SurfaceSelector_prev(UINT_MAX);", 1),
               (r"DFS::drive_number::corresponding_side_of_next_device\(i\)", "SurfaceSelector_corresponding_side_of_next_device(i)", 1),
               (r"return false;", "{ g_cf_witness = i; return false; }", 3),
               (r"(while \(i < limit && done < to_do\))", r"\1 FITS_LOOP_CONTRACT", 1)],
     "dropped": ["local typedef"]})

# ---- cmd_free.cc (C14): the used/free computation of CommandFree::invoke (statement region) ---------
add({"name": "free_compute", "file": "dfs/cmd_free.cc",
     "anchor": r"int sectors_used = [^;]*;\s*const std::vector<DFS::CatalogEntry> entries = catalog\.entries\(\);",
     "region_end": r"std::cout << std::uppercase;",
     "region_epilogue": "out->files_free = files_free; out->files_used = files_used; out->sectors_free = sectors_free; out->sectors_used = sectors_used;\n",
     "sig": "static void free_compute(const struct CatalogEntry *entries, size_t entries_n, const struct CatalogView *catalog, struct free_result *out)",
     "rules": [(r"const std::vector<DFS::CatalogEntry> entries = catalog\.entries\(\);", "/* entries: parameter */", 1),
               (r"catalog\.catalog_sectors\(\)", "catalog->catalog_sectors", "=0or1"),
               (r"for \(const auto& entry : entries\)", "for (size_t ei = 0; ei < entries_n; ++ei) FREE_LOOP_CONTRACT", 1),
               (r"entry\.file_length\(\)", "CatalogEntry_file_length(&entries[ei])", ">=2"),
               (r"entry\.start_sector\(\)", "CatalogEntry_start_sector(&entries[ei])", 1),
               ASSERT(2), (r"std::numeric_limits<int>::max\(\)", "INT_MAX", 2),
               (r"\bdiv_t\b", "verif_div_t", 1), (r"\bdiv\(", "verif_div(", 1), (r"static_cast<int>\(", "(int)(", 2),
               (r"DFS::SECTOR_BYTES", "SECTOR_BYTES", ">=1"),
               (r"(sectors_used = last_sector_of_file[^;]*;)", r"{ \1 g_used_witness = ei; }", 1),
               (r"ostream_flag_saver restore_cout_flags\(std::cout\);", "/* dropped: stream flag saver */", 1),
               (r"auto show = \[\]\(int files, int sectors, const std::string& desc\)\s*\{.*?\};", "/* dropped: output lambda (formatting is outside this contract) */", 1),
               (r"auto prevlocale = std::cout\.imbue\(.*?\);", "/* dropped: locale */", 1),
               (r"entries\.size\(\)", "entries_n", 2),
               (r"catalog\.max_file_count\(\)", "catalog->max_file_count", 1),
               (r"catalog\.total_sectors\(\)", "catalog->total_sectors", 1)],
     "dropped": ["ostream_flag_saver", "the `show` output lambda", "locale imbue"]})

# ---- afsp.cc (C15): the per-character translation inside convert_wildcard_into_extended_regex --------
add({"name": "afsp_up", "file": "dfs/afsp.cc", "anchor": r"inline char up\(char ch\)", "sig": "static char afsp_up(char ch)",
     "rules": [(r"static_cast<char>\(", "(char)(", 1), (r"static_cast<unsigned char>\(", "(unsigned char)(", 1), (r"\btoupper\(", "verif_toupper(", 1)]})
add({"name": "afsp_down", "file": "dfs/afsp.cc", "anchor": r"inline char down\(char ch\)", "sig": "static char afsp_down(char ch)",
     "rules": [(r"static_cast<char>\(", "(char)(", 1), (r"static_cast<unsigned char>\(", "(unsigned char)(", 1), (r"\btolower\(", "verif_tolower(", 1)]})
add({"name": "wildcard_char_to_ere", "file": "dfs/afsp.cc", "anchor": r"for \(auto w : full_wildcard\)",
     "sig": "static void wildcard_char_to_ere(char w, struct charvec *parts)",
     "rules": [(r"parts\.push_back\(", "charvec_push(parts, ", ">=10"), (r"\bup\(", "afsp_up(", ">=1"), (r"\bdown\(", "afsp_down(", ">=1")]})

# ---- cmd_extract_files.cc / dfs_catalog.cc (C12): host file name construction ---------------------------
add({"name": "byte_to_ascii7", "file": "dfs/stringutil.h", "anchor": r"inline char byte_to_ascii7\(DFS::byte b\)",
     "sig": "static char byte_to_ascii7(byte b)", "rules": [(r"\bchar\(", "(char)(", 1)]})
add(ce("name", r"std::string CatalogEntry::name\(\) const",
       "static struct cstr CatalogEntry_name(const struct CatalogEntry *self)",
       [(r"std::string result;", "struct cstr result; result.n = 0;", 1),
        (r"result\.reserve\(7\);", "/* reserve dropped */", 1),
        (r"for \(auto it = raw_name_\.cbegin\(\); it != raw_name_\.cbegin\(\) \+ 7; \+\+it\)", "for (const byte *it = raw_name_; it != raw_name_ + 7; ++it)", 1),
        (r"DFS::stringutil::byte_to_ascii7\(", "byte_to_ascii7(", 1),
        (r"result\.push_back\(ch\);", "cstr_push(&result, ch);", 1)],
       file="dfs/dfs_catalog.cc"))
add({"name": "extract_files_basename", "file": "dfs/cmd_extract_files.cc",
     "anchor": r"const string output_origname\(string\(1, entry\.directory\(\)\) \+ \"\.\" \+ rtrim\(entry\.name\(\)\)\);",
     "region_end": r"std::ofstream outfile\(output_body_file, std::ofstream::out\);",
     "region_epilogue": "mon_create_file(&dest_dir, &output_basename);\nreturn true;\n",
     "sig": "static bool extract_files_basename(const struct CatalogEntry *entry, char current_directory, struct cstr dest_dir)",
     "rules": [(r"const string output_origname\(string\(1, entry\.directory\(\)\) \+ \"\.\" \+ rtrim\(entry\.name\(\)\)\);",
                "const struct cstr output_origname = cstr_dir_dot_name(CatalogEntry_directory(entry), cstr_rtrim(CatalogEntry_name(entry)));", 1),
               (r"string output_basename;", "struct cstr output_basename; output_basename.n = 0;", 1),
               (r"output_basename = rtrim\(entry\.name\(\)\);", "output_basename = cstr_rtrim(CatalogEntry_name(entry));", 1),
               (r"output_basename = string\(1, entry\.directory\(\)\) \+ \"\.\" \+ rtrim\(entry\.name\(\)\);",
                "output_basename = cstr_dir_dot_name(CatalogEntry_directory(entry), cstr_rtrim(CatalogEntry_name(entry)));", 1),
               (r"entry\.directory\(\)", "CatalogEntry_directory(entry)", ">=1"), (r"ctx\.current_directory", "current_directory", ">=1"),
               (r"output_basename\.find\('/'\) != string::npos", "cstr_has_char(&output_basename, '/')", ">=0"),
               (r"output_basename\.front\(\)", "cstr_front(&output_basename)", ">=0"), (r"output_basename\.empty\(\)", "(output_basename.n == 0)", ">=0"),
               (r'output_basename == "\."', 'cstr_is(&output_basename, ".")', ">=0"),
               (r'output_basename == "\.\."', 'cstr_is(&output_basename, "..")', ">=0"),
               (r'std::cerr << "refusing to extract " << output_origname\s*<< ": it has no usable name inside " << dest_dir << "\\n";', "g_diag++;  /* diagnostic text dropped */", 1),
               (r"const string output_body_file = dest_dir \+ output_basename;", "/* output_body_file = dest_dir + output_basename: see mon_create_file */", 1)],
     "dropped": ["diagnostic text"]})

# ---- img_hxcmfm.cc (C07): header and track-list parsing on arbitrary file bytes ---------------------------
HX = "dfs/img_hxcmfm.cc"
DROP_SS = (r"std::ostringstream ss;.*?error = ss\.str\(\);", "g_diag++;  /* diagnostic text dropped */")
add({"name": "hxc_le_word", "file": HX, "anchor": r"unsigned short le_word\(const byte \*d\)",
     "sig": "static unsigned short hxc_le_word(const byte *d)", "rules": [(r"static_cast<unsigned short>\(", "(unsigned short)(", 1)]})
add({"name": "hxc_le_quad", "file": HX, "anchor": r"unsigned long le_quad\(const byte \*d\)",
     "sig": "static unsigned long hxc_le_quad(const byte *d)", "rules": [(r"static_cast<unsigned long>\(", "(unsigned long)(", 4)]})
add({"name": "hxc_read_and_verify_header", "file": HX,
     "anchor": r"std::optional<Header> read_and_verify_header\(DFS::FileAccess \*f, std::string& error\)",
     "sig": "static struct opt_HxcHeader hxc_read_and_verify_header(struct FileAccess *f)",
     "rules": [(r"std::vector<byte> header_data = f->read\(([^;]*)\);", r"struct dynvec header_data = FileAccess_read_dyn(f, \1); struct opt_HxcHeader ret_; ret_.has = 0;", 1),
               (r"header_data\.size\(\)", "header_data.n", 1),
               (r'error = "[^"]*";', "g_diag++;  /* diagnostic text dropped */", 1),
               (r"header_data\.data\(\)", "header_data.d", ">=2"),
               (DROP_SS[0], DROP_SS[1], 2),
               (r"return std::nullopt;", "return ret_;", 3),
               (r"Header result;", "struct HxcHeader result;", 1),
               (r"std::copy\(header_data\.begin\(\), header_data\.begin\(\) \+ sizeof\(Header::signature\),\s*result\.signature\);", "bytes_copy7(result.signature, header_data.d);", 1),
               ASSERT(1), (r"\ble_word\(", "hxc_le_word(", 3), (r"\ble_quad\(", "hxc_le_quad(", 1),
               (r"if \(DFS::verbose\)\s*\{\s*std::cerr << result;\s*\}", "/* verbose dump dropped */", 1),
               (r"return result;", "{ ret_.has = 1; ret_.val = result; return ret_; }", 1)],
     "dropped": ["diagnostic text (ostringstream / hexdump)", "verbose header dump"]})
add({"name": "hxc_get_track_metadata", "file": HX,
     "anchor": r"std::map<TrackDataKey, TrackData> HxcMfmFile::get_track_metadata\(\)",
     "sig": "static void hxc_get_track_metadata(struct HxcMfmFile *self)",
     "rules": [(r"std::map<TrackDataKey, TrackData> result;", "/* result: ghost map (trackmap_insert) */", 1),
               (r"header_\.", "self->header_.", ">=1"),
               (r"std::vector<byte> raw_metadata = file_->read\(([^;]*)\);", r"struct dynvec raw_metadata = FileAccess_read_dyn(self->file_, \1);", 1),
               (r"raw_metadata\.size\(\)", "raw_metadata.n", 1),
               (r'throw InvalidHxcMfmFile\("[^"]*"\);', "{ VERIF_THROW(Other, 0); return; }", 2),
               (r"raw_metadata\.data\(\)", "raw_metadata.d", 1),
               (r"const TrackDataKey key\(([^;]*)\);", r"const struct TrackDataKey key = { \1 };", 1), (r"\ble_word\(", "hxc_le_word(", ">=1"),
               (r"const TrackData td\(([^;]*)\);", r"const struct TrackData td = { \1 };", 1), (r"\ble_quad\(", "hxc_le_quad(", ">=1"),
               (r"if \(DFS::verbose\)\s*\{.*?\}", "/* verbose dropped */", 2),
               (r"result\.insert\(result\.end\(\), std::make_pair\(key, td\)\);", "trackmap_insert(key, td);", 1),
               (r"return result;", "return;", 1),
               (r"(for \(unsigned long pos = self->header_\.track_list_offset;\s*;\s*pos \+= 11\))", r"\1 TRACKLIST_LOOP_CONTRACT", 1)],
     "dropped": ["verbose diagnostics"]})

# ---- crc16.cc, track.h (C02 .inf CRC, C05/C06 leaf lemmas) ---------------------------------------------------
add({"name": "crc_cycle", "file": "dfs/crc16.cc", "anchor": r"inline unsigned long crc_cycle\(unsigned long crc\)",
     "sig": "static unsigned long crc_cycle(unsigned long crc)", "rules": []})
add({"name": "CRC16Base_update", "file": "dfs/crc16.cc", "anchor": r"void CRC16Base::update\(const uint8_t\* start, const uint8_t \*end\)",
     "sig": "static void CRC16Base_update(struct CRC16Base *self, const uint8_t *start, const uint8_t *end)",
     "pre": "#define crc_ (self->crc_)\n", "post": "#undef crc_\n",
     "rules": [(r"const auto in = \*p\+\+;", "const uint8_t in = *p++;", 1), ASSERT(1),
               (r"(for \(const uint8_t\* p = start; p < end; \))", r"\1 CRC_UPDATE_LOOP_CONTRACT", 1),
               (r"(for\(int k = 0; k < 8; k\+\+\))", r"CRC_INNER_GHOST_SETUP \1 CRC_INNER_LOOP_CONTRACT", 1)]})
add({"name": "CRC16Base_update_bit", "file": "dfs/crc16.cc", "anchor": r"void CRC16Base::update_bit\(bool bitval\)",
     "sig": "static void CRC16Base_update_bit(struct CRC16Base *self, bool bitval)",
     "pre": "#define crc_ (self->crc_)\n", "post": "#undef crc_\n", "rules": [ASSERT(1)]})
add({"name": "reverse_bit_order", "file": "dfs/track.h", "anchor": r"inline byte reverse_bit_order\(Track::byte in\)",
     "sig": "static byte reverse_bit_order(byte in)", "rules": [(r"static_cast<byte>\(", "(byte)(", 1)]})
BS_PRE = "#define input_ (self->input_)\n#define raw_bit_size_ (self->raw_bit_size_)\n#define first_ (self->first_)\n#define stride_ (self->stride_)\n#define raw_pos(x) BitStream_raw_pos(self, (x))\n#define rawbit(x) BitStream_rawbit(self, (x))\n"
BS_POST = "#undef input_\n#undef raw_bit_size_\n#undef first_\n#undef stride_\n#undef raw_pos\n#undef rawbit\n"
def bs(name, anchor, sig, rules=()):
    return {"name": "BitStream_" + name, "file": "dfs/track.h", "anchor": anchor, "sig": sig, "rules": list(rules), "pre": BS_PRE, "post": BS_POST}
add(bs("raw_pos", r"size_t raw_pos\(size_t bitpos\) const", "static size_t BitStream_raw_pos(const struct BitStream *self, size_t bitpos)"))
add(bs("rawbit", r"bool rawbit\(size_t raw_bitpos\) const", "static bool BitStream_rawbit(const struct BitStream *self, size_t raw_bitpos)"))
add(bs("getbit", r"bool getbit\(size_t bitpos\) const", "static bool BitStream_getbit(const struct BitStream *self, size_t bitpos)"))
add(bs("size", r"size_t size\(\) const", "static size_t BitStream_size(const struct BitStream *self)"))
add({"name": "mfm_read_byte", "file": "dfs/track_mfm.cc",
     "anchor": r"std::optional<Track::byte> read_byte\(const Track::BitStream& bits, size_t& pos,\s*std::string& error\)",
     "sig": "static struct opt_byte mfm_read_byte(const struct BitStream *bits, size_t *pos_)",
     "pre": "#define pos (*pos_)\n", "post": "#undef pos\n",
     "rules": [ASSERT(1), (r"\bauto began_at\b", "size_t began_at", 1), (r"bits\.getbit\(", "BitStream_getbit(bits, ", 3),
               (r"bits\.size\(\)", "BitStream_size(bits)", 1),
               (r'error = "unexpected end-of-track";', "g_diag++;", 1),
               (r"std::ostringstream ss;.*?error = ss\.str\(\);", "g_diag++;  /* diagnostic text dropped */", 1),
               (r"return std::nullopt;", "{ struct opt_byte none_; none_.has = 0; none_.val = 0; return none_; }", 2),
               (r"return data;", "{ struct opt_byte some_; some_.has = 1; some_.val = (byte)data; return some_; }", 1),
               (r"(for \(int bitnum = 0; bitnum < 8; \+\+bitnum\))", r"\1 MFM_BYTE_LOOP_CONTRACT", 1)],
     "dropped": ["diagnostic text"]})

# ---- track_mfm.cc / track.cc / track.h (C06 first sentence): the MFM decoder -------------------------------------------
add({"name": "track_constants", "file": "dfs/track.h", "anchor": r"constexpr int normal_fm_clock = ", "region_end": r"\n\s*\n",
     "toplevel": True, "sig": "",
     "rules": [(r"constexpr int (\w+) = ([^;]*);", r"enum { \1 = \2 };", ">=4")]})
add({"name": "CCITT_CRC16_init", "file": "dfs/crc.h",
     "anchor": r"static constexpr unsigned long init = [^;]*;(?=\s*public:\s*CCITT_CRC16\(\);)",
     "region_end": r"\s*public:",
     "sig": "static unsigned long CCITT_CRC16_init(void)",
     "rules": [(r"static constexpr unsigned long init = ([^;]*);", r"return \1;", 1)],
     "dropped": ["the constructor chain CCITT_CRC16() : CRC16Base(init), CRC16Base(uint16_t init) : crc_(init) (mem-initialisers)"]})
add({"name": "CRC16Base_get", "file": "dfs/crc16.cc", "anchor": r"unsigned long CRC16Base::get\(\) const",
     "sig": "static unsigned long CRC16Base_get(const struct CRC16Base *self)",
     "pre": "#define crc_ (self->crc_)\n", "post": "#undef crc_\n", "rules": []})
add({"name": "check_crc_with_a1s", "file": "dfs/track_mfm.cc",
     "anchor": r"bool check_crc_with_a1s\(const std::vector<byte>& data, std::string& error\)",
     "sig": "static bool check_crc_with_a1s(const struct decvec *data)",
     "rules": [(r"static const byte a1bytes\[\] = \{([^}]*)\};",
                r"static const byte a1bytes_src[] = {\1}; const byte *a1bytes = crc_stream_place(a1bytes_src, sizeof(a1bytes_src));  /* the constant array, placed at the front of the logical CRC stream (contents asserted equal) */", 1),
               (r"sizeof\(a1bytes\)", "sizeof(a1bytes_src)", ">=1"),
               (r"DFS::CCITT_CRC16 crc;", "struct CRC16Base crc; crc.crc_ = CCITT_CRC16_init();", 1),
               (r"crc\.update\(", "CRC16Base_update(&crc, ", ">=1"),
               (r"crc\.get\(\)", "CRC16Base_get(&crc)", ">=1"),
               (r"data\.data\(\)", "h_vec_store", ">=1"), (r"data\.size\(\)", "data->n", ">=1"),
               (r"std::ostringstream ss;.*?error = ss\.str\(\);", "g_diag++;  /* diagnostic text dropped */", "=0or1")],
     "dropped": ["diagnostic text"]})
add({"name": "copy_mfm_bytes", "file": "dfs/track_mfm.cc",
     "anchor": r"bool copy_mfm_bytes\(const Track::BitStream& bits, size_t& thisbit,\s*size_t n, std::vector<byte>\* out,\s*std::string& error\)",
     "sig": "static bool copy_mfm_bytes(const struct BitStream *bits, size_t *thisbit_, size_t n, struct decvec *out)",
     "pre": "#define thisbit (*thisbit_)\n", "post": "#undef thisbit\n",
     "rules": [(r"std::optional<Track::byte> data = read_byte\(bits, thisbit, error\);", "struct opt_byte data = mfm_read_byte(bits, &thisbit);", 1),
               (r"if \(data\)", "if (data.has)", 1), (r"out->push_back\(\*data\);", "decvec_push(out, data.val);", 1),
               (r"(while \(n--\))", r"\1 COPY_MFM_LOOP_CONTRACT", 1)]})
add({"name": "decode_sector_address_and_size", "file": "dfs/track.cc",
     "anchor": r"bool decode_sector_address_and_size\(const byte\* header, SectorAddress\* address,\s*int\* siz, std::string& error\)",
     "sig": "static bool decode_sector_address_and_size(const byte *header, struct SectorAddress *address, int *siz)",
     "rules": [(r"std::ostringstream ss;.*?error = ss\.str\(\);", "g_diag++;  /* diagnostic text dropped */", ">=0")],
     "dropped": ["diagnostic texts"]})
add({"name": "BitStream_scan_for", "file": "dfs/track.h",
     "anchor": r"std::optional<std::pair<size_t, int64_t>> scan_for\(size_t start,\s*uint64_t val,\s*uint64_t mask\) const",
     "sig": "static struct opt_scan BitStream_scan_for(const struct BitStream *self, size_t start, uint64_t val, uint64_t mask)",
     "rules": [(r"\braw_pos\(", "BitStream_raw_pos(self, ", 1), (r"\brawbit\(", "BitStream_rawbit(self, ", 1),
               (r"\braw_bit_size_\b", "self->raw_bit_size_", ">=1"), (r"\bstride_\b", "self->stride_", ">=1"),
               (r"return std::make_pair\(([^;]*)\);", r"{ struct opt_scan some_; some_.has = 1; scan_pair(&some_, \1); return some_; }", 1),
               (r"(got = \(got << 1u\) \| 1u;)", r"\1 SCAN_GHOST_LOG  /* ghost: the word seen at the ghost position g_q */", 1),
               (r"return std::nullopt;", "{ struct opt_scan none_; none_.has = 0; none_.first = 0; none_.second = 0; return none_; }", 1),
               (r"(for \(size_t i = BitStream_raw_pos\(self, start\); i < self->raw_bit_size_; \+\+i_cooked, i \+= self->stride_\))", r"\1 SCAN_LOOP_CONTRACT", 1)]})
VERBOSE_BLOCK = (r"if \(verbose\)\s*\{[^{}]*\}", "/* verbose diagnostics dropped */")
VERBOSE_STMT = (r"if \(verbose\)\s*std::cerr[^;]*;", "/* verbose diagnostic dropped */;")
add({"name": "decode_mfm_track", "file": "dfs/track_mfm.cc",
     "anchor": r"std::vector<Sector> decode_mfm_track\(const BitStream& bits, bool verbose\)",
     "sig": "static void decode_mfm_track(const struct BitStream *bits)",
     "rules": [(r"self_test_crc\(\);", "/* self_test_crc(): asserts only (C19) */", "=0or1"),
               (r"std::vector<Sector> result;", "/* result: every push_back is monitored */", 1),
               (r"bits\.size\(\)", "BitStream_size(bits)", ">=1"),
               (r"enum class MfmDecodeState", "enum MfmDecodeState", 1), (r"MfmDecodeState::", "", ">=1"),
               (r"\bSector sec;", "struct DecSector sec; decsector_init(&sec);", 1),
               (r"auto found = bits\.scan_for\(", "struct opt_scan found = BitStream_scan_for_v(bits, ", 1),
               (r"if \(!found\)", "if (!found.has)", 1), (r"found->first", "found.first", ">=1"),
               (r"std::string error;", "/* error text dropped */", ">=0"),
               (r"std::vector<byte> (\w+);", r"struct decvec \1; decvec_init(&\1);", ">=1"),
               (VERBOSE_BLOCK[0], VERBOSE_BLOCK[1], ">=0"), (VERBOSE_STMT[0], VERBOSE_STMT[1], ">=0"),
               (r"copy_mfm_bytes\(bits, thisbit, ([^;]*?),\s*&(\w+),\s*error\)", r"copy_mfm_bytes_v(bits, &thisbit, \1, &\2)", ">=1"),
               (r"check_crc_with_a1s\((\w+), error\)", r"check_crc_with_a1s_v(&\1)", ">=1"),
               (r"decode_sector_address_and_size\((\w+)\.data\(\), ([^;]*?),\s*error\)", r"decode_sector_address_and_size_v(&\1, \2)", ">=1"),
               (r"const auto is_data\b", "const _Bool is_data", "=0or1"),
               (r"\b(mark_and_data|header)\[([^\]]*)\]", r"DECVEC_AT(&\1, \2)", ">=0"), (r"\b(mark_and_data|header)\.size\(\)", r"\1.n", ">=0"),
               (r"sec\.data\.resize\(([^;]*)\);", r"secdata_resize(&sec, \1);", ">=0"),
               (r"std::copy\((\w+)\.begin\(\) \+ ([^,]*),\s*\1\.begin\(\) \+ ([^,]*),\s*sec\.data\.begin\(\)\);", r"secdata_copy(&sec, &\1, (\2), (\3));", ">=0"),
               (r"result\.push_back\(sec\);", "mon_push_sector(&sec);", ">=1"),
               (r"return result;", "return;", 1),
               (r"(while \(bits_avail\))", r"\1 MFM_DECODE_LOOP_CONTRACT", 1)],
     "dropped": ["verbose diagnostics (std::cerr, hexdump)", "error strings", "the result vector itself: each push_back is checked by the monitor"]})

# ---- track_fm.cc (C06 first sentence, FM half) -------------------------------------------------------------------------
VERBOSE_NESTED = (r"if \(verbose\)\s*\{(?:[^{}]|\{[^{}]*\})*\}", "/* verbose diagnostics dropped */")
add({"name": "fm_read_byte", "file": "dfs/track_fm.cc",
     "anchor": r"read_byte\(const Track::BitStream& bits, size_t& start\)",
     "sig": "static struct opt_cd fm_read_byte(const struct BitStream *bits, size_t *start_)",
     "pre": "#define start (*start_)\n", "post": "#undef start\n",
     "rules": [(r"bits\.size\(\)", "BitStream_size(bits)", ">=1"), (r"bits\.getbit\(", "BitStream_getbit(bits, ", ">=2"),
               (r"return std::nullopt;", "{ struct opt_cd none_; none_.has = 0; none_.first = 0; none_.second = 0; return none_; }", ">=1"),
               (r"return std::make_pair\(static_cast<unsigned char>\(([^()]*)\),\s*static_cast<unsigned char>\(([^()]*)\)\);",
                r"{ struct opt_cd some_; some_.has = 1; some_.first = (unsigned char)(\1); some_.second = (unsigned char)(\2); return some_; }", 1),
               (r"(for \(int bitnum = 0; bitnum < 8; \+\+bitnum\))", r"\1 FM_BYTE_LOOP_CONTRACT", 1)]})
add({"name": "copy_fm_bytes", "file": "dfs/track_fm.cc",
     "anchor": r"bool copy_fm_bytes\(const Track::BitStream& bits, size_t& thisbit,\s*size_t n, std::vector<Track::byte>\* out,\s*bool verbose\)",
     "sig": "static bool copy_fm_bytes(const struct BitStream *bits, size_t *thisbit_, size_t n, struct decvec *out)",
     "pre": "#define thisbit (*thisbit_)\n", "post": "#undef thisbit\n",
     "rules": [(r"auto clock_and_data = read_byte\(bits, thisbit\);", "struct opt_cd clock_and_data = fm_read_byte(bits, &thisbit);", 1),
               (VERBOSE_NESTED[0], "{ g_diag++; }  /* verbose diagnostics dropped; the failure is counted */", "=0or1"),
               (r"clock_and_data && clock_and_data->first == Track::normal_fm_clock", "clock_and_data.has && clock_and_data.first == normal_fm_clock", ">=0"),
               (r"clock_and_data->(first|second)", r"clock_and_data.\1", ">=1"), (r"Track::normal_fm_clock", "normal_fm_clock", ">=0"),
               (r"\(clock_and_data\b(?!\.)", "(clock_and_data.has", ">=0"),
               (r"out->push_back\(([^;]*)\);", r"decvec_push(out, \1);", 1),
               (r"(while \(n--\))", r"\1 COPY_FM_LOOP_CONTRACT", 1)]})
add({"name": "fm_get_crc", "file": "dfs/track_fm.cc", "anchor": r"unsigned long get_crc\(const std::vector<Track::byte>& data\)",
     "sig": "static unsigned long fm_get_crc(const struct decvec *data)",
     "rules": [(r"DFS::CCITT_CRC16 crc;", "struct CRC16Base crc; crc.crc_ = CCITT_CRC16_init();", 1),
               (r"crc\.update\(", "CRC16Base_update(&crc, ", ">=1"), (r"crc\.get\(\)", "CRC16Base_get(&crc)", ">=1"),
               (r"data\.data\(\)", "h_vec_store", ">=1"), (r"data\.size\(\)", "data->n", ">=1")]})
add({"name": "fm_find_record_address_mark", "file": "dfs/track_fm.cc",
     "anchor": r"\[&thisbit, &bits, bits_avail\]\(\) -> std::optional<unsigned int>",
     "sig": "static struct opt_uint fm_find_record_address_mark(size_t *thisbit_, const struct BitStream *bits, size_t bits_avail)",
     "pre": "#define thisbit (*thisbit_)\n", "post": "#undef thisbit\n",
     "rules": [(r"auto found = bits\.scan_for\(", "struct opt_scan found = BitStream_scan_for(bits, ", 1),
               (r"if \(!found\)", "if (!found.has)", 1), (r"found->(first|second)", r"found.\1", ">=3"),
               (r"return found\.second;", "{ struct opt_uint some_; some_.has = 1; some_.val = (unsigned int)found.second; return some_; }", 1),
               (r"return std::nullopt;", "{ struct opt_uint none_; none_.has = 0; none_.val = 0; return none_; }", 1),
               (r"(while \(thisbit < bits_avail\))", r"\1 FM_FIND_LOOP_CONTRACT", 1)]})
add({"name": "decode_fm_track", "file": "dfs/track_fm.cc",
     "anchor": r"std::vector<Sector> decode_fm_track\(const BitStream& bits, bool verbose\)",
     "sig": "static void decode_fm_track(const struct BitStream *bits)",
     "rules": [(r"self_test_crc\(\);", "/* self_test_crc(): asserts only (C19) */", "=0or1"),
               (r"std::vector<Sector> result;", "/* result: every push_back is monitored */", 1),
               (r"auto find_record_address_mark =\s*\[&thisbit, &bits, bits_avail\]\(\) -> std::optional<unsigned int>\s*\{.*?\n\s*\};",
                "/* lambda find_record_address_mark: extracted separately (fm_find_record_address_mark) */", 1),
               (r"bits\.size\(\)", "BitStream_size(bits)", ">=1"),
               (r"enum class DecodeState", "enum DecodeState", 1), (r"DecodeState::", "", ">=1"),
               (r"\bSector sec;", "struct FmSector sec; fmsector_init(&sec);", 1),
               (r"auto (\w+) = bits\.scan_for\(", r"struct opt_scan \1 = BitStream_scan_for_v(bits, ", ">=1"),
               (r"std::optional<unsigned int> found = find_record_address_mark\(\);", "struct opt_uint found = fm_find_record_address_mark_v(&thisbit, bits, bits_avail);", 1),
               (r"if \(!found\)", "if (!found.has)", ">=1"), (r"\((\w+) && \1->first", r"(\1.has && \1.first", ">=0"), (r"\b(\w+)->first\b", r"\1.first", ">=1"), (r"\*found\b", "found.val", ">=1"),
               (r"std::string error;", "/* error text dropped */", ">=0"),
               (r"std::vector<byte> (\w+);", r"struct decvec \1; decvec_init(&\1);", ">=1"),
               (r"id\.push_back\(byte\(([^;]*)\)\);", r"decvec_push_v(&id, (byte)(\1));", ">=0"),
               (VERBOSE_NESTED[0], VERBOSE_NESTED[1], ">=0"), (VERBOSE_STMT[0], VERBOSE_STMT[1], ">=0"),
               (r"copy_fm_bytes\(bits, thisbit, ([^;]*?),\s*&([\w.]+),\s*verbose\)", r"copy_fm_bytes_v(bits, &thisbit, \1, &\2)", ">=1"),
               (r"const auto addr_crc = get_crc\((\w+)\);", r"const unsigned long addr_crc = fm_get_crc_v(&\1);", "=0or1"),
               (r"const (?:byte|unsigned char|Track::byte) addr_crc = get_crc\((\w+)\);", r"const byte addr_crc = (byte)fm_get_crc_v(&\1);", "=0or1"),
               (r"decode_sector_address_and_size\((\w+)\.data\(\), ([^;]*?),\s*error\)", r"decode_sector_address_and_size_v(&\1, \2)", ">=1"),
               (r"sec\.data\.resize\(([^;]*)\);", r"decvec_resize(&sec.data, \1);", ">=0"), (r"sec\.data\.clear\(\);", "decvec_clear(&sec.data);", ">=0"),
               (r"byte data_mark\[1\] =\s*\{\s*byte\(([^;]*)\)\s*\};", r"byte data_mark[1] = { (byte)(\1) };", 1),
               (r"DFS::CCITT_CRC16 crc;", "struct crcmodel crc; crcm_init(&crc);", 1),
               (r"sec\.data\.data\(\)", "h_vec_store", ">=0"),
               (r"crc\.update\(([^;]*)\);", r"crcm_update(&crc, \1);", ">=1"),
               (r"auto data_crc = crc\.get\(\);", "unsigned long data_crc = crcm_get(&crc);", 1),
               (r"sec\.data\[([^\]]*)\]", r"DECVEC_AT(&sec.data, \1)", ">=0"),
               (r"result\.push_back\(sec\);", "mon_push_sector_fm(&sec);", ">=1"),
               (r'std::cerr << "Dropping the control record\\n";', "g_diag++;", "=0or1"),
               (r"return result;", "return;", 1),
               (r"(while \(thisbit < bits_avail\))", r"\1 FM_DECODE_LOOP_CONTRACT", 1)],
     "dropped": ["verbose diagnostics", "error strings", "the result vector itself: each push_back is checked by the monitor"]})

# ---- img_mmb.cc (C04): the slot loop of the MmbFile constructor ------------------------------------------
add({"name": "MmbFile_ctor", "file": "dfs/img_mmb.cc",
     "anchor": r"explicit MmbFile\(const std::string& name, bool compressed,\s*std::unique_ptr<DFS::FileAccess>&& file\)\s*: ViewFile\(name, std::move\(file\)\)",
     "sig": "static void MmbFile_ctor(struct DataAccess *blocks)",
     "rules": [(r"const DFS::Geometry disc_image_geom = DFS::Geometry\(80, 1, 10, DFS::Encoding::FM\);", "/* disc_image_geom = Geometry(80, 1, 10, FM) */", 1),
               (r"const auto disc_image_sectors = disc_image_geom\.total_sectors\(\);", "const sector_count_type disc_image_sectors = 80u * 1u * 10u;  /* Geometry(80,1,10).total_sectors() */", 1),
               (r"DFS::SECTOR_BYTES", "SECTOR_BYTES", 1),
               (r"auto got = block_access\(\)\.read_block\(([^;]*)\);", r"opt_SectorBuffer got = DataAccess_read_block(blocks, \1);", 1),
               (r"if \(!got\)", "if (!got.has)", 1),
               (r'throw DFS::BadFileSystem\("[^"]*"\);', "{ VERIF_THROW(BadFileSystem, 0); return; }", 1),
               (r"got->data\(\)", "got.val.d", 1),
               (r"const auto slot_status\b", "const unsigned char slot_status", 1),
               (r"std::string slot_status_desc;", "/* description strings dropped */", 1),
               (r'slot_status_desc = "[^"]*";', "", 5),
               (r"std::cerr << \"MMB entry \".*?<< \"\\n\";", "g_diag++;  /* warning text dropped */", 1),
               (r"std::ostringstream ss;.*?const std::string disc_name = ss\.str\(\);", "/* disc_name text dropped */", 1),
               (r"\bauto initial_skip_sectors\b", "unsigned long initial_skip_sectors", 1),
               (r"DFS::sector_count\(", "sector_count(", ">=0"),
               (r"add_view\(FileView\(block_access\(\), name, disc_name,\s*disc_image_geom,([^;]*)\)\);", r"mmb_add_view(1,\1);", 1),
               (r"add_view\(FileView::unformatted_device\(name, disc_name, disc_image_geom\)\);", "mmb_add_view(0, 0, 0, 1, 1);  /* unformatted_device: take = 0 */", 1),
               (r"(for \(unsigned sec = 0; sec < mmb_sectors; \+\+sec\))", r"\1 MMB_OUTER_LOOP_CONTRACT", 1),
               (r"(for \(unsigned i = 0; i < entries_per_sector; \+\+i\))", r"\1 MMB_INNER_LOOP_CONTRACT", 1)],
     "dropped": ["slot description strings", "warning text for unknown status bytes"]})

# ---- img_sdf.cc / geometry.cc (C04): the view parameters the sector-dump containers pass to FileView ---------
add({"name": "Geometry_total_sectors", "file": "dfs/geometry.cc", "anchor": r"DFS::sector_count_type Geometry::total_sectors\(\) const",
     "sig": "static sector_count_type Geometry_total_sectors(const struct Geometry *self)",
     "pre": "#define cylinders (self->cylinders)\n#define heads (self->heads)\n#define sectors (self->sectors)\n",
     "post": "#undef cylinders\n#undef heads\n#undef sectors\n",
     "rules": [(r"DFS::sector_count\(", "sector_count(", 1)]})
GEO_MAKE = (r"const DFS::Geometry single_side_geom = DFS::Geometry\(geometry\.cylinders,\s*1,\s*geometry\.sectors,\s*geometry\.encoding\);",
            "const struct Geometry single_side_geom = { geometry.cylinders, 1, geometry.sectors };  /* encoding dropped */")
add({"name": "noninterleaved_views", "file": "dfs/img_sdf.cc",
     "anchor": r"DFS::sector_count_type skip = 0;",
     "region_end": r"\}\s*\};\s*class InterleavedFile",
     "sig": "static void noninterleaved_views(const struct Geometry geometry)",
     "rules": [(r"DFS::sector_count_type", "sector_count_type", 2), GEO_MAKE + (1,),
               (r"\b(\w+)\.total_sectors\(\)", r"Geometry_total_sectors(&\1)", ">=1"),
               (r"std::ostringstream os;.*?std::string desc = os\.str\(\);", "/* description text dropped */", 1),
               (r"FileView v\(block_access\(\), name, desc, single_side_geom,([^;]*)\);", r"view_add(\1);", 1),
               (r"DFS::sector_count\(", "sector_count(", 1),
               (r"add_view\(v\);", "/* add_view(v): recorded by view_add */", 1),
               (r"(for \(int surface_num = 0; surface_num < geometry\.heads; \+\+surface_num\))", r"\1 SIDES_LOOP_CONTRACT", 1)],
     "dropped": ["view description strings", "Geometry::encoding"]})
add({"name": "interleaved_views", "file": "dfs/img_sdf.cc",
     "anchor": r"const DFS::Geometry single_side_geom = DFS::Geometry\(geometry\.cylinders,\s*1,\s*geometry\.sectors,\s*geometry\.encoding\);\s*const DFS::sector_count_type track_len",
     "region_end": r"\}\s*\};\s*\}  // namespace",
     "sig": "static void interleaved_views(const struct Geometry geometry)",
     "rules": [GEO_MAKE + (1,), (r"DFS::sector_count_type", "sector_count_type", 1),
               (r"single_side_geom\.sectors", "single_side_geom.sectors", 1),
               (r"\b(\w+)\.total_sectors\(\)", r"Geometry_total_sectors(&\1)", ">=1"),
               (r"FileView side0\(block_access\(\), name, make_desc\(0\),\s*single_side_geom,([^;]*)\);", r"view_add(\1);", 1),
               (r"FileView side1\(block_access\(\), name, make_desc\(1\),\s*single_side_geom,([^;]*)\);", r"view_add(\1);", 1),
               (r"add_view\(side[01]\);", "/* add_view: recorded by view_add */", 2)],
     "dropped": ["view description lambda", "Geometry::encoding"]})

# ---- storage.cc (C16): StorageConfiguration::connect_drives, both allocation policies --------------------------
add({"name": "connect_drives", "file": "dfs/storage.cc",
     "anchor": r"bool StorageConfiguration::connect_drives\(const std::vector<std::optional<DriveConfig>>& drives,\s*DriveAllocation how\)",
     "sig": "static bool connect_drives(size_t drives_n, int how)",
     "rules": [(r"const auto limit = std::numeric_limits<drive_number>::max\(\);", "const surface_t limit = UINT_MAX;", 1),
               (r"DriveAllocation::PHYSICAL", "DriveAllocation_PHYSICAL", 1),
               (r"auto occ = \[this\]\(DFS::drive_number i\) -> bool\s*\{\s*return is_drive_connected\(i\);\s*\};", "struct occ_fn *occ = &h_occ;  /* lambda: is_drive_connected(i) */", 1),
               (r"for \(DFS::drive_number n = DFS::drive_number\((.*?)\);\s*n < limit;\s*n = n\.next\(\)\)", r"for (surface_t n = (surface_t)(\1); n < limit; n = SurfaceSelector_next(n)) PHYS_OUTER_CONTRACT", 1),
               (r"drives\.size\(\)", "drives_n", 1),
               (r"for \(auto d : drives\)(\s*\{\s*connect_internal)", r"for (size_t di = 0; di < drives_n; ++di) PHYS_CONNECT_CONTRACT\1", 1),
               (r"for \(auto d : drives\)(\s*\{\s*for \(; n < limit)", r"for (size_t di = 0; di < drives_n; ++di) FIRST_OUTER_CONTRACT\1", 1),
               (r"connect_internal\(n, d\);", "connect_internal_model(n, di);", 2),
               (r"n = n\.next\(\)\.next\(\);", "n = SurfaceSelector_next(n); if (g_exc) return false; n = SurfaceSelector_next(n); if (g_exc) return false;  /* exception propagation */", "=0or1"),
               (r"n = n\.opposite_surface\(\);", "n = SurfaceSelector_opposite_surface(n);", ">=0"),
               (r"n = n\.next\(\);(?!\s*\))", "n = SurfaceSelector_next(n); if (g_exc) return false;", ">=0"),
               (r"DFS::drive_number n\((.*?)\);", r"surface_t n = (surface_t)(\1);", 1), (r"static_cast<unsigned int>\(", "(unsigned int)(", ">=0"), (r"drives_\.size\(\)", "g_drives_size", ">=0"),
               (r"for \(; n < limit; n = n\.next\(\)\)", "for (; n < limit; n = SurfaceSelector_next(n)) FIRST_INNER_CONTRACT", 1),
               (r"is_drive_connected\(n\)", "is_drive_connected_model(n)", 1)],
     "dropped": []})

# ---- opus_cat.h (C17): extents of Opus DDOS volumes --------------------------------------------------------------
VL_PRE = "#define catalog_location_ (self->catalog_location_)\n#define start_sector_ (self->start_sector_)\n#define len_ (self->len_)\n#define volume_ (self->volume_)\n"
VL_POST = "#undef catalog_location_\n#undef start_sector_\n#undef len_\n#undef volume_\n"
add({"name": "VolumeLocation_set_next_sector", "file": "dfs/opus_cat.h", "anchor": r"void set_next_sector\(unsigned long next\)",
     "sig": "static void VolumeLocation_set_next_sector(struct VolumeLocation *self, unsigned long next)",
     "pre": VL_PRE, "post": VL_POST, "rules": [ASSERT(1)]})
add({"name": "VolumeLocation_len", "file": "dfs/opus_cat.h", "anchor": r"unsigned long len\(\) const",
     "sig": "static unsigned long VolumeLocation_len(const struct VolumeLocation *self)", "pre": VL_PRE, "post": VL_POST, "rules": []})
add({"name": "VolumeLocation_start_sector", "file": "dfs/opus_cat.h", "anchor": r"unsigned long start_sector\(\) const",
     "sig": "static unsigned long VolumeLocation_start_sector(const struct VolumeLocation *self)", "pre": VL_PRE, "post": VL_POST, "rules": []})

# ---- hexdump.cc (C01 `dump` rendering): 8-byte hex + ASCII rows via the ostream event model -------------------------
add({"name": "hexdump_bytes", "file": "dfs/hexdump.cc",
     "anchor": r"bool hexdump_bytes\(std::ostream& os, size_t pos, size_t stride,\s*const DFS::byte\* begin, const DFS::byte\* end\)",
     "sig": "static bool hexdump_bytes(struct ostream *os, size_t pos, size_t stride, const byte *begin, const byte *end)",
     "rules": [(r"ostream_flag_saver saver\(os\);", "/* ostream_flag_saver dropped (flags are restored on return) */", 1),
               (r"DFS::byte", "byte", 1),
               ("OSTREAM_CHAIN", "os", ">=6"),
               (r"static_cast<unsigned char>\(", "(unsigned char)(", ">=0"),
               (r"\bisgraph\(", "verif_isgraph(", ">=0"),
               (r"(while \(len\))", r"\1 HEXDUMP_ROW_CONTRACT", 1),
               (r"(for \(size_t i = 0; i < stride; \+\+i\))(\s*\{\s*if \(i < len\)\s*\{ OUT_CHR)", r"\1 HEXDUMP_HEX_CONTRACT\2", 1),
               (r"(for \(size_t i = 0; i < stride; \+\+i\))(\s*\{\s*char ch)", r"\1 HEXDUMP_ASCII_CONTRACT\2", 1)],
     "dropped": ["ostream_flag_saver (stream flags restored on return)"]})

# ---- dfs_catalog.cc (C02): the `info` line, operator<<(ostream&, const CatalogEntry&) ----------------------------
add({"name": "info_line", "file": "dfs/dfs_catalog.cc",
     "anchor": r"ostream& operator<<\(ostream& outer_os, const DFS::CatalogEntry& entry\)",
     "sig": "static void info_line(const struct CatalogEntry *entry)",
     "pre": "#define os (&os_obj)\n", "post": "#undef os\n",
     "rules": [(r"std::ostream::sentry s\(outer_os\);", "/* sentry dropped */", 1), (r"if \(s\)", "if (1)", 1),
               (r"std::ostringstream os;", "os_init(&os_obj);  /* ostringstream os: fresh stream, default format state */", 1),
               (r"DFS::sign_extend\(", "sign_extend(", ">=0"),
               (r"entry\.load_address\(\)", "CatalogEntry_load_address(entry)", 1), (r"entry\.exec_address\(\)", "CatalogEntry_exec_address(entry)", 1),
               (r"entry\.directory\(\)", "CatalogEntry_directory(entry)", 1), (r"entry\.name\(\)", "CSTR(CatalogEntry_name(entry))", 1),
               (r"entry\.is_locked\(\)", "CatalogEntry_is_locked(entry)", 1), (r"entry\.file_length\(\)", "CatalogEntry_file_length(entry)", 1),
               (r"entry\.start_sector\(\)", "CatalogEntry_start_sector(entry)", 1),
               ("OSTREAM_CHAIN", "os", 1),
               (r"outer_os << os\.str\(\);", "/* outer_os << os.str(): the line built above is inserted into the caller's stream as one string */", 1),
               (r"return outer_os;", "return;", 1)],
     "dropped": ["ostream::sentry", "the final insertion of the assembled line into the outer stream"]})

# ---- cmd_list.cc / cmd_type.cc (C01 renderings): the body lambdas ---------------------------------------------------
add({"name": "list_body", "file": "dfs/cmd_list.cc",
     "anchor": r"\[\]\(const byte\* body_start,\s*const byte \*body_end,\s*const std::vector<std::string>&\) -> bool",
     "sig": "static bool list_body(const byte *body_start, const byte *body_end)",
     "pre": "#define cout_ (&cout_obj)\n", "post": "#undef cout_\n",
     "rules": [(r"std::cout", "cout_", ">=4"), (r"static_cast<char>\(", "(char)(", 1), ("OSTREAM_CHAIN", "cout_", ">=4"),
               (r"(for \(const byte \*p = body_start; p < body_end; \+\+p\))", r"\1 LIST_LOOP_CONTRACT", 1)]})
add({"name": "type_body", "file": "dfs/cmd_type.cc",
     "anchor": r"\[binary\]\(const byte\* body_start,\s*const byte \*body_end,\s*const std::vector<std::string>&\)",
     "sig": "static bool type_body(bool binary, const byte *body_start, const byte *body_end)",
     "pre": "#define cout_ (&cout_obj)\n#define ch (data.d[di_])\n", "post": "#undef cout_\n#undef ch\n",
     "rules": [(r"std::cout\.write\(reinterpret_cast<const char\*>\(([^)]*(?:\([^)]*\))?[^)]*)\),\s*(.*?)\)\s*\.good\(\)", r"os_write(cout_, (const byte *)(\1), (size_t)(\2))", 2),
               (r"std::vector<byte> data\(body_start, body_end\);", "struct bytebuf data = bytebuf_from(body_start, body_end);", 1),
               (r"for \(byte& ch : data\)", "for (size_t di_ = 0; di_ < data.n; ++di_) TYPE_LOOP_CONTRACT", 1),
               (r"data\.data\(\)", "data.d", 1), (r"data\.size\(\)", "data.n", 1)]})

# ---- cmd_extract_unused.cc (C11 dfs half, C14): write_span --------------------------------------------------------
add({"name": "write_span", "file": "dfs/cmd_extract_unused.cc",
     "anchor": r"bool write_span\(DFS::AbstractDrive \*drive,[^)]*?sector_count_type end_sector\)",
     "sig": "static bool write_span(struct DataAccess *drive, sector_count_type start_sector, sector_count_type end_sector)",
     "pre": "#define output (&ofs_obj)\n", "post": "#undef output\n",
     "rules": [ASSERT(1),
               (r"const std::string file_name\(make_name\(dest_dir, start_sector\)\);", "/* file_name = make_name(dest_dir, start_sector): see C12 */", 1),
               (r"std::ofstream output\(file_name, std::ofstream::binary\|std::ofstream::trunc\);", "ofs_open(output);", 1),
               (r"if \(!output\)", "if (!ofs_ok(output))", 3),
               (r'std::cerr << "unable to create output file " << file_name << "\\n";', "g_diag++;", 1),
               (r"auto got = drive->read_block\(([^;]*)\);", r"opt_SectorBuffer got = DataAccess_read_block(drive, \1);", 1),
               (r"if \(!got\)", "if (!got.has)", 1),
               (r'std::cerr << "warning: failed to read sector number " << sec << "\\n";', "g_diag++; g_read_warning = 1;", 1),
               (r"errno = 0;", "/* errno = 0 */", 1),
               (r"output\.write\(reinterpret_cast<char\*>\(got->data\(\)\), got->size\(\)\);", "ofs_write(output, got.val.d, SECTOR_BYTES);", 1),
               (r"output\.close\(\);", "ofs_close(output);", 1),
               (r'std::cerr << "error: failed to write to " << file_name << ": "\s*<< strerror\(errno\) << "\\n";', "g_diag++;", 1),
               (r"(for \(sector_count_type sec = start_sector; sec < end_sector; \+\+sec\))", r"\1 SPAN_LOOP_CONTRACT", 1)],
     "dropped": ["diagnostic texts", "the output file name (see C12)"]})

add({"name": "extract_unused_spans", "file": "dfs/cmd_extract_unused.cc",
     "anchor": r"int begin = -1;\s*unsigned short count = 0;", "region_end": r"private:\s*bool write_span\(DFS::AbstractDrive \*drive,",
     "sig": "static bool extract_unused_spans(struct DataAccess *drive, sector_count_type last_sec, unsigned short *count_out)",
     "rules": [(r"DFS::sector_count_type sec = 0;", "sector_count_type sec = 0;", 1),
               (r"std::optional<std::string> name = occupied_by->at\(sec\);", "struct opt_owner name = occupied_at(sec);", 1),
               (r"if \(name\)", "if (name.has)", 1),
               (r"write_span\(drive, dest_dir, ((?:[^();]|\([^()]*\))*)\)", r"write_span_v(drive, \1)", 1),
               (r"(for \(sector_count_type sec = 0; sec <= last_sec; \+\+sec\))", r"\1 SPANS_LOOP_CONTRACT", 1),
               (r"ostream_flag_saver restore_cout_flags\(std::cout\);", "/* ostream_flag_saver dropped */", 1),
               (r"std::cout <<(?:[^;\"]|\"(?:[^\"\\]|\\.)*\")*;", "*count_out = count;   /* the summary line: the number of files written is kept, the text dropped */", 1),
               (r"\}\s*$", "", 1)],                       # the closing brace of invoke() itself
     "dropped": ["the destination directory argument of write_span (see C12)", "the text of the summary line"]})

# ---- cmd_extract_files.cc (C02: the .inf line; C11: its stream is tested after close) -----------------------------------
add({"name": "create_inf_file", "file": "dfs/cmd_extract_files.cc",
     "anchor": r"bool create_inf_file\(const string& name,\s*unsigned long crc,\s*const DFS::CatalogEntry& entry\)",
     "sig": "static bool create_inf_file(unsigned long crc, const struct CatalogEntry *entry)",
     "pre": "#define inf_file (&os_obj)\n", "post": "#undef inf_file\n",
     "rules": [(r"DFS::sign_extend\(", "sign_extend(", ">=0"),
               (r"entry\.load_address\(\)", "CatalogEntry_load_address(entry)", 1), (r"entry\.exec_address\(\)", "CatalogEntry_exec_address(entry)", 1),
               (r"std::ofstream inf_file\(name, std::ofstream::out\);", "os_init(inf_file); inf_open(inf_file);  /* the ofstream is opened on the given name */", 1),
               (r"!inf_file\.good\(\)", "inf_file->bad", ">=0"),
               (r"std::cerr << [^;]*;", "g_diag++;  /* diagnostic text dropped */", ">=0"),
               (r"using std::setw;", "", 1), (r"using std::setfill;", "", 1),
               (r"entry\.directory\(\)", "CatalogEntry_directory(entry)", 1), (r"entry\.name\(\)", "CSTR(CatalogEntry_name(entry))", 1),
               (r"entry\.is_locked\(\)", "CatalogEntry_is_locked(entry)", 1), (r"entry\.file_length\(\)", "CatalogEntry_file_length(entry)", 1),
               ("OSTREAM_CHAIN", "inf_file", 2),
               (r"inf_file\.close\(\);", "inf_close(inf_file);", 1),
               (r"\binf_file\.good\(\)", "(!inf_file->bad)", ">=0")],
     "dropped": ["diagnostic text", "the host file name"]})

# ---- cmd_extract_files.cc (C11: a host file being created by extract-files) --------------------------------------------
add({"name": "extract_files_visitor", "file": "dfs/cmd_extract_files.cc",
     "anchor": r"\[&crc, &outfile, &output_body_file\]\s*\(const DFS::byte\* begin,\s*const DFS::byte\* end\)",
     "sig": "static bool extract_files_visitor(const byte *begin, const byte *end)",
     "pre": "#define outfile (&ofs_obj)\n", "post": "#undef outfile\n",
     "rules": [(r"crc\.update\(begin, end\);", "crc_update_model(begin, end);", 1),
               (r"outfile\.write\(reinterpret_cast<const char\*>\(([^)]*)\),\s*([^;]*)\);", r"ofs_write_n(outfile, \1, (size_t)(\2));", 1),
               (r"!outfile\b(?!\.)", "!ofs_ok(outfile)", ">=0"), (r"!outfile\.good\(\)", "!ofs_ok(outfile)", ">=0"), (r"\boutfile\.bad\(\)", "ofs_badbit(outfile)", ">=0"), (r"\boutfile\.fail\(\)", "(!ofs_ok(outfile))", ">=0"),
               (r"std::cerr << [^;]*;", "g_diag++;  /* diagnostic text dropped */", ">=0")],
     "dropped": ["diagnostic text"]})
add({"name": "extract_files_write_body", "file": "dfs/cmd_extract_files.cc",
     "anchor": r"std::ofstream outfile\(output_body_file, std::ofstream::out\);", "region_end": r"const string inf_file_name",
     "sig": "static bool extract_files_write_body(void)", "region_epilogue": "return true;\n",
     "pre": "#define outfile (&ofs_obj)\n", "post": "#undef outfile\n",
     "rules": [(r"std::ofstream outfile\(output_body_file, std::ofstream::out\);", "ofs_open(outfile);", 1),
               (r"auto ok = entry\.visit_file_body_piecewise\s*\(mounted->volume\(\)->data_region\(\),\s*\[&crc, &outfile, &output_body_file\].*?\}\);", "_Bool ok = visit_body_model();", 1),
               (r"outfile\.close\(\);", "ofs_close(outfile);", 1),
               (r"!outfile\b(?!\.)", "!ofs_ok(outfile)", ">=0"), (r"!outfile\.good\(\)", "!ofs_ok(outfile)", ">=0"), (r"\boutfile\.bad\(\)", "ofs_badbit(outfile)", ">=0"), (r"\boutfile\.fail\(\)", "(!ofs_ok(outfile))", ">=0"),
               (r"std::cerr << [^;]*;", "g_diag++;  /* diagnostic text dropped */", ">=0")],
     "dropped": ["diagnostic texts", "the visitor lambda (extracted separately: extract_files_visitor)"]})

# ---- track.cc (C06 iii, C07): check_track_is_supported ---------------------------------------------------------------
ERR_SS = (r"ss << [^;]*;\s*error = ss\.str\(\);", "g_diag++; g_tc_witness = si_;  /* diagnostic text dropped; which sector is refused is kept */")
add({"name": "check_track_is_supported", "file": "dfs/track.cc",
     "anchor": r"bool check_track_is_supported\(const std::vector<Sector> track_sectors,\s*unsigned int track,\s*unsigned int side,\s*unsigned int sector_bytes,\s*bool verbose,\s*std::string& error\)",
     "sig": "static bool check_track_is_supported(const struct TrackSector *track_sectors, size_t track_sectors_n, unsigned int track, unsigned int side, unsigned int sector_bytes)",
     "rules": [(r"assert\(std::is_sorted\(track_sectors\.begin\(\), track_sectors\.end\(\)\)\);", "/* assert(is_sorted) : precondition of the contract */", 1),
               (r"std::optional<int> prev_rec_num;", "struct { _Bool has; int val; } prev_rec_num; prev_rec_num.has = 0; prev_rec_num.val = 0;", 1),
               (r"for \(const Sector& sect : track_sectors\)", "for (size_t si_ = 0; si_ < track_sectors_n; ++si_) TRACKCHECK_LOOP_CONTRACT", 1),
               (r"std::ostringstream ss;", "/* ostringstream dropped */", 1),
               (ERR_SS[0], ERR_SS[1], 5),
               (r"if \(prev_rec_num\)", "if (prev_rec_num.has)", 1),
               (r"\*prev_rec_num", "prev_rec_num.val", 2),
               (r"if \(verbose\)\s*\{.*?\}\s*\}", "/* verbose warning dropped */ }", 1),
               (r"sect\.data\.size\(\)", "sect.data_n", ">=1"),
               (r"prev_rec_num = sect\.address\.record;", "{ prev_rec_num.has = 1; prev_rec_num.val = sect.address.record; }", 1)],
     "pre": "#define sect (track_sectors[si_])\n", "post": "#undef sect\n",
     "dropped": ["diagnostic texts", "verbose warning about a lowest record number other than 0"]})

# ---- destination directory handling of extract-unused / extract-files, make_name (C12) ------------------------------
def _destdir(name, file, end):
    return {"name": name, "file": file,
            "anchor": r"(?:std::)?string dest_dir\(args\[1\]\);",
            "region_end": end,
            "region_epilogue": "*out = dest_dir;\n",
            "sig": "static void %s(struct cstr arg1, struct cstr *out)" % name,
            "rules": [(r"(?:std::)?string dest_dir\(args\[1\]\);", "struct cstr dest_dir = arg1;", 1),
                      (r"dest_dir\.back\(\)", "cstr_back(&dest_dir)", ">=1"), (r"dest_dir\.empty\(\)", "(dest_dir.n == 0)", ">=0"),
                      (r"dest_dir\.push_back\(", "cstr_push(&dest_dir, ", ">=1")]}
add(_destdir("destdir_extract_unused", "dfs/cmd_extract_unused.cc", r"const DFS::SurfaceSelector surface\("))
add(_destdir("destdir_extract_files", "dfs/cmd_extract_files.cc", r"std::string error;\s*auto mounted = storage\.mount\("))
add({"name": "make_name", "file": "dfs/cmd_extract_unused.cc",
     "anchor": r"std::string make_name\(const std::string& dest_dir, sector_count_type first_sector\)",
     "sig": "static void make_name(const struct cstr dest_dir, sector_count_type first_sector)",
     "pre": "#define ss (&ss_obj)\n", "post": "#undef ss\n",
     "rules": [(r"assert\(dest_dir\.back\(\) == '/'\);", "VERIF_ASSERT(cstr_back(&dest_dir) == '/');", 1),
               (r"std::ostringstream ss;", "os_init(&ss_obj);", 1),
               (r"<< dest_dir\b", "<< CSTR(dest_dir)", ">=1"),
               ("OSTREAM_CHAIN", "ss", 1),
               (r"return ss\.str\(\);", "return;  /* the assembled string is the sequence of events */", 1)]})

# ---- main.cc (C11 dfs half): the command-invocation tail of main ---------------------------------------------------
# ---- cmd_show_titles.cc (C07: a non-zero status is accompanied by a diagnostic): the per-drive loop of show-titles -----------
add({"name": "show_titles_loop", "file": "dfs/cmd_show_titles.cc",
     "anchor": r"bool ok = true;\s*for \(DFS::SurfaceSelector surface : todo\)", "region_end": r"\};\s*REGISTER_COMMAND\(CommandShowTitles\);",
     "sig": "static bool show_titles_loop(size_t todo_n)",
     "rules": [(r"for \(DFS::SurfaceSelector surface : todo\)", "for (size_t ti_ = 0; ti_ < todo_n; ++ti_) SHOW_TITLES_LOOP_CONTRACT", 1),
               (r"show_title\(storage, surface, error\)", "show_title_model(ti_)", 1),
               (r"std::cerr << error <<(?:[^;\"]|\"(?:[^\"\\]|\\.)*\")*;", "error_report();", ">=0"),
               (r"\bfail\(\);", "error_report();", ">=0"),
               (r"(?:DFS::)?failed_to_mount_surface\(std::cerr, surface, error\);", "error_report();", ">=0"),
               (r"error\.empty\(\)", "(!ST.error_set)", ">=0"), (r"error\.clear\(\);", "ST.error_set = 0;", ">=0"),
               (r"\}\s*$", "", 1)],
     "dropped": ["the text of the diagnostic (the error string show_title / mount_fs produced)"]})

# ---- driveselector.cc (C15): assigning a VolumeSelector replaces drive AND volume letter ---------------------------------------
add({"name": "VolumeSelector_assign", "file": "dfs/driveselector.cc", "anchor": r"VolumeSelector& VolumeSelector::operator=\(const VolumeSelector& v\)",
     "sig": "static void VolumeSelector_assign(struct VolumeSelectorM *self, const struct VolumeSelectorM *v)",
     "rules": [(r"if \(v\.(\w+_)\)", r"if (v->\1.has)", ">=0"), (r"\b(\w+_) = v\.(\w+_);", r"self->\1 = v->\2;", ">=1"), (r"return \*this;", "return;", 1)]})
# ---- storage.cc (C16 "--show-config reports this assignment"): which drive numbers the listing covers -----------------------
add({"name": "SurfaceSelector_postincrement", "file": "dfs/driveselector.h", "anchor": r"SurfaceSelector postincrement\(\)",
     "sig": "static unsigned int SurfaceSelector_postincrement(unsigned int *d_p)",
     "rules": [(r"SurfaceSelector clone\(d_\);", "const unsigned int clone = *d_p;", 1), (r"\+\+d_;", "++*d_p;", 1)]})
add({"name": "acorn_default_last_surface", "file": "dfs/driveselector.cc", "anchor": r"SurfaceSelector SurfaceSelector::acorn_default_last_surface\(\)",
     "sig": "static unsigned int acorn_default_last_surface(void)", "rules": [(r"return SurfaceSelector\((\w+)\);", r"return \1;", 1)]})
add({"name": "show_config_range", "file": "dfs/storage.cc",
     "anchor": r"drive_number loop_limit = DFS::SurfaceSelector::acorn_default_last_surface\(\);", "region_end": r"\}\s*std::unique_ptr<DFS::FileSystem> StorageConfiguration::mount_fs",
     "sig": "static void show_config_range(const struct DrivesM *drives_)",
     "rules": [(r"drive_number loop_limit = DFS::SurfaceSelector::acorn_default_last_surface\(\);", "unsigned int loop_limit = acorn_default_last_surface();", 1),
               (r"drives_\.empty\(\)", "(drives_->n == 0)", ">=0"), (r"drives_\.size\(\)", "drives_->n", ">=0"),
               (r"drives_\.rbegin\(\)->first", "drives_->max_key", ">=0"), (r"loop_limit\.surface\(\)", "loop_limit", ">=0"),
               (r"std::max\(", "umax_(", ">=0"),
               (r"drive_number i\(0\);", "unsigned int i = 0;", 1),
               (r"\bshow\(i\);", "show_model(i);", 1),
               (r"\bdo\b(\s*\{)", r"do SHOW_CONFIG_LOOP_CONTRACT\1", 1),
               (r"i\.postincrement\(\)", "SurfaceSelector_postincrement(&i)", 1)],
     "dropped": ["the per-drive line (the show lambda): recording model"]})
# ---- dfs_filesystem.cc (C14): what get_sector_map puts into the sector map ----------------------------------------------
add({"name": "get_sector_map", "file": "dfs/dfs_filesystem.cc", "anchor": r"std::unique_ptr<SectorMap> FileSystem::get_sector_map\(const SurfaceSelector& surface\) const",
     "sig": "static void get_sector_map(const struct FileSystemS *self, unsigned int surface)",
     "rules": [(r"std::unique_ptr<SectorMap> result =\s*std::make_unique<SectorMap>\(([^;]*)\);", r"sector_map_new(\1);", 1),
               (r"volumes_\.size\(\)", "self->volumes_n", ">=0"),
               (r"for \(const auto& vol : volumes_\)", "for (size_t vi_ = 0; vi_ < self->volumes_n; ++vi_) SECTOR_MAP_LOOP_CONTRACT", 1),
               (r"DFS::VolumeSelector volsel\(surface\);", "struct VolSelS volsel = { surface, 0, 0 };", 1),
               (r"if \(vol\.first\)", "if (h_vols[vi_].has_letter)", 1),
               (r"volsel = DFS::VolumeSelector\(surface, \*vol\.first\);", "{ volsel.surface = surface; volsel.has_sub = 1; volsel.sub = h_vols[vi_].letter; }", 1),
               (r"vol\.second->map_sectors\(volsel, result\.get\(\)\);", "volume_map_sectors_model(vi_, volsel);", 1),
               (r"disc_format\(\) == Format::(\w+)", r"self->format == Format_\1", ">=0"),
               (r"auto disc_catalogue = internal::OpusDiscCatalogue::get_catalogue\(media_, geometry\(\)\);\s*disc_catalogue\.map_sectors\(result\.get\(\)\);", "opus_disc_catalogue_map_model();", 1),
               (r"return result;", "return;", 1)],
     "dropped": ["the SectorMap object (recording model)"]})

# Catalog::find_catalog_entry_for_name (C15/C01: a Watford disc has two catalogue fragments; a file in either is found)
add({"name": "catalog_find_entry", "file": "dfs/dfs_catalog.cc", "anchor": r"std::optional<CatalogEntry> Catalog::find_catalog_entry_for_name\(const ParsedFileName& name\) const",
     "sig": "static struct opt_entry_ catalog_find_entry(size_t fragments_n)",
     "rules": [(r"for \(const auto& frag : fragments_\)", "for (size_t fi_ = 0; fi_ < fragments_n; ++fi_) CATFIND_LOOP_CONTRACT", 1),
               (r"auto result = frag\.find_catalog_entry_for_name\(name\);", "struct opt_entry_ result = fragment_find_model(fi_);", 1),
               (r"if \(result\)", "if (result.has)", 1),
               (r"frag\.position_of_last_catalog_entry\(\)", "h_frag_last[fi_ & 3]", ">=0"),
               (r"return std::nullopt;", "{ struct opt_entry_ none_; none_.has = 0; none_.val = 0; return none_; }", 1)]})

# cmd_cat.cc title_and_cycle (C02: `cat` shows the title and the cycle number)
add({"name": "title_and_cycle", "file": "dfs/cmd_cat.cc", "anchor": r"std::string title_and_cycle\(DFS::UiStyle ui,\s*const std::string& title,\s*std::optional<int> cycle\)",
     "sig": "static void title_and_cycle(int ui, struct cstr title, struct opt_int_ cycle)",
     "pre": "#define os (&os_obj)\n", "post": "#undef os\n",
     "rules": [(r"DFS::UiStyle::(\w+)", r"UiStyle_\1", ">=1"),
               (r"std::ostringstream os;", "os_init(&os_obj);", 1),
               (r"title\.empty\(\)", "(title.n == 0)", ">=0"),
               (r"<<\s*title\b", "<< CSTR(title)", 1),
               (r"\(\*cycle\)|\*cycle", "cycle.val", ">=1"),
               (r"if \(cycle\b", "if (cycle.has", 1),
               ("OSTREAM_CHAIN", "os", ">=2"),
               (r"return os\.str\(\);", "return;  /* the assembled string is the sequence of events */", 1)]})

# ---- commands.cc (C01: name lookup -> mount -> body): body_command, the shared back end of type / list / dump -----------------
add({"name": "body_command", "file": "dfs/commands.cc",
     "anchor": r"bool body_command\(const StorageConfiguration& storage, const DFSContext& ctx,\s*const std::vector<std::string>& args,\s*file_body_logic logic\)",
     "sig": "static bool body_command(const struct StorageM *storage, const struct CtxM *ctx, size_t args_n)",
     "forbid": [r"\bMV_\b", r"\bMF_\b", r"->\w+\(\)"],
     "rules": [(r"args\.size\(\)", "args_n", ">=1"),
               (r"failed_to_mount_volume\(std::cerr, [^;]*\);", "g_diag++;  /* diagnostic text dropped */", 1),
               (r"std::cerr <<(?:[^;\"]|\"(?:[^\"\\]|\\.)*\")*;", "g_diag++;  /* diagnostic text dropped */", ">=1"),
               (r"ParsedFileName name;", "struct PFN name;", 1), (r"std::string error;", "", 1),
               (r"parse_filename\(ctx, args\[(\w+)\], &name, error\)", r"parse_filename_model(ctx, \1, &name)", 1),
               (r"auto mounted = storage\.mount\(([^;]*), error\);", r"const struct MountedM *mounted = storage_mount_model(storage, \1);", 1),
               (r"mounted->volume\(\)", "MV_", ">=0"), (r"mounted->file_system\(\)", "MF_", ">=0"),
               (r"MV_->(\w+)\(\)", r"Volume_\1(Mounted_volume(mounted))", ">=0"), (r"MF_->(\w+)\(\)", r"FileSystem_\1(Mounted_file_system(mounted))", ">=0"),
               (r"const auto& root\(([^;]*)\);", r"const struct CatalogR *root = \1;", 1),
               (r"const std::optional<CatalogEntry> entry = root\.find_catalog_entry_for_name\(name\);", "struct opt_entry_ entry = find_entry_model(root, &name);", 1),
               (r"if \(!entry\)", "if (!entry.has)", 1),
               (r"std::vector<DFS::byte> body;", "", 1),
               (r"DataAccess& vol_access\(([^;]*)\);", r"struct DataAccess *vol_access = \1;", 1),
               (r"read_file_body\(\*entry, vol_access, &body\);", "read_file_body_model(entry.val, vol_access);", 1),
               (r"const std::vector<std::string> tail\(args\.begin\(\) \+ (\w+), args\.end\(\)\);", r"const size_t tail_from = \1;", 1),
               (r"return logic\(body\.data\(\), body\.data\(\) \+ body\.size\(\), tail\);", "return logic_model(tail_from);", 1)],
     "dropped": ["diagnostic texts", "the byte vector (the body is what read_file_body delivered: recording model)"]})

# ---- main.cc (C16 "option loop order in main"): the option table and one step of the option loop -------------------------
add({"name": "dfs_opt_table", "file": "dfs/main.cc", "anchor": r"enum OptSignifier\s*\{", "region_end": r"\n\s*bool check_consistency\(\)",
     "toplevel": True, "sig": "", "rules": []})
CERR = (r"std::cerr <<(?:[^;\"]|\"(?:[^\"\\]|\\.)*\")*;", "g_diag++;  /* diagnostic text dropped */", ">=1")
add({"name": "dfs_main_option", "file": "dfs/main.cc", "anchor": r"switch \(opt\)", "region_end": r"if \(optind == argc\)",
     "sig": "static int dfs_main_option(int opt, struct MainState *st, const char *optarg_, size_t optarg_len)",
     "region_epilogue": "return -1;   /* break: on to the next option */\n",
     "rules": [(r"\}\s*\}\s*$", "}\n", 1),                              # the brace that closes the option loop itself
               (r"case OPT_HELP:\s*\{.*?return ok \? 0 : 1;\s*\}", "case OPT_HELP: return dfs_main_help_model();   /* extracted separately: dfs_main_help */", 1),
               (r"\btry\s*\{", "{", 1),
               (r"catch \(std::exception& e\)\s*\{.*?return 1;\s*\}", "/* the exception handler (diagnostic and return 1) is folded into the two calls that can raise */", 1),
               (r"std::string error;", "", 1),
               (r"std::unique_ptr<DFS::AbstractImageFile> file = DFS::make_image_file\(optarg, error\);",
                "struct ImageFileM *file = make_image_file_model(optarg_); if (g_exc) { g_exc = EXC_NONE; g_diag++; return 1; }", 1),
               (r"file->connect_drives\(&storage, ([^,]*), error\)", r"connect_drives_model(file, \1)", 1),
               (r"files\.push_back\(std::move\(file\)\);", "files_push_back(st, file);", 1),
               CERR,
               (r"strlen\(optarg\)", "optarg_len", ">=0"), (r"\boptarg\[0\]", "optarg_[0]", ">=0"),
               (r"std::tie\(ok, ctx\.current_volume\) = get_drive_number\(optarg\);", "ok = get_drive_number_model(optarg_, &st->current_volume);", 1),
               (r"std::string err;\s*auto ui_opt = parse_ui_style\(optarg, err\);", "struct opt_int_ ui_opt = parse_ui_style_model(optarg_);", 1),
               (r"!ui_opt\b", "!ui_opt.has", 1),
               (r"ctx = DFS::DFSContext\(([^;]*?),\s*\*ui_opt\);", r"DFSContext_assign(st, \1, ui_opt.val);", 1),
               (r"\bctx\.", "st->", ">=2"),
               (r"\bhow_to_allocate_drives\b", "st->how", ">=1"), (r"DFS::DriveAllocation::(\w+)", r"DriveAllocation_\1", ">=0"),
               (r"\bshow_config = true;", "st->show_config = 1;", 1),
               (r"DFS::verbose = true;", "st->verbose = 1;", 1)],
     "dropped": ["diagnostic texts", "the try/catch around --file (an exception there is a diagnostic and exit status 1, as a refusal is)"]})
add({"name": "dfs_main_tail", "file": "dfs/main.cc",
     "anchor": r"if \(show_config\)\s*\{\s*storage\.show_drive_configuration\(std::cerr\);",
     "region_end": r"\}\s*catch \(std::exception& e\)",
     "sig": "static int dfs_main_tail(bool show_config)",
     "pre": "#define cout_ (&cout_obj)\n", "post": "#undef cout_\n",
     "rules": [(r"storage\.show_drive_configuration\(std::cerr\);", "g_cfg_shown++;  /* --show-config goes to standard error */", 1),
               (r"instance->invoke\(storage, ctx, extra_args\)", "command_invoke(cout_)", 1),
               (r"std::cout\.flush\(\);", "os_flush(cout_);", ">=0"),
               (r"\bfflush\(stdout\)", "c_fflush_stdout()", ">=0"),
               (r"!std::cout\b(?!\.)", "cout_->bad", ">=0"), (r"!std::cout\.good\(\)", "cout_->bad", ">=0"),
               (r'std::cerr << "error: [^"]*\\n";', "g_diag++;", ">=0")],
     "dropped": ["diagnostic text"]})

add({"name": "dfs_main_help", "file": "dfs/main.cc",
     "anchor": r"DFS::CommandHelp help;", "region_end": r"\}\s*\}\s*\}\s*if \(optind == argc\)",
     "sig": "static int dfs_main_help(void)",
     "pre": "#define cout_ (&cout_obj)\n", "post": "#undef cout_\n",
     "rules": [(r"DFS::CommandHelp help;", "/* CommandHelp help */", 1),
               (r"help\.invoke\(storage, ctx, extra_args\)", "command_invoke(cout_)", 1),
               (r"std::cout\.flush\(\);", "os_flush(cout_);", ">=0"),
               (r"if \(!std::cout\)", "if (cout_->bad)", ">=0"),
               (r'std::cerr << "error: failed to write to standard output\\n";', "g_diag++;", ">=0")],
     "dropped": ["diagnostic text"]})

# ---- img_gzfile.cc (C10): the inflate loop of write_decompressed_data and check_zlib_error_code ---------------------
THROW_ANY = (r"throw [A-Za-z_:]+\((?:[^()]|\([^()]*\))*\);", "{ VERIF_THROW(Other, 0); return; }")
add({"name": "check_zlib_error_code", "file": "dfs/img_gzfile.cc", "anchor": r"void check_zlib_error_code\(int zerr\)",
     "sig": "static void check_zlib_error_code(int zerr)",
     "rules": [(THROW_ANY[0], THROW_ANY[1], ">=8"), (r"throw out_of_memory;", "{ VERIF_THROW(Other, 0); return; }", 1)]})
add({"name": "gz_inflate_init", "file": "dfs/img_gzfile.cc",
     "anchor": r"int zerr = inflateInit2\(", "region_end": r"cleanup de_init\(",
     "sig": "static void gz_inflate_init(struct z_stream_model *stream_)",
     "rules": [(r"inflateInit2\(&stream,", "gz_inflateInit2(stream_,", 1),
               (r"check_zlib_error_code\(zerr\);", "{ check_zlib_error_code(zerr); if (g_exc) return; }", 1)]})
add({"name": "gz_inflate_loop", "file": "dfs/img_gzfile.cc",
     "anchor": r"const int input_buf_size = 512;",
     "region_end": r"\}\s*FILE\* open_temporary_file\(\)",
     "sig": "static void gz_inflate_loop(struct gzFILE *f, struct gzFILE *fout)",
     "rules": [(r"typedef decltype\(stream\.avail_in\) avail_in_type;", "typedef unsigned int avail_in_type;  /* zlib: uInt */", 1),
               (r"static_assert\([^;]*\);", "/* static_assert dropped */", 2),
               (r"int zerr = Z_OK;|zerr = Z_OK;", "int zerr = Z_OK; struct z_stream_model stream; stream.avail_in = 0; stream.next_in = 0; stream.avail_out = 0; stream.next_out = 0;", 1),
               (r"errno = 0;", "/* errno = 0 */", 2),
               (r"auto got = stream\.avail_in = static_cast<avail_in_type>\(fread\(([^;]*)\)\);", r"avail_in_type got = stream.avail_in = (avail_in_type)(gz_fread(\1));", 1),
               (r"\bferror\(f\)", "gz_ferror(f)", 1),
               (r"throw DFS::FileIOError\(name, errno\);", "{ VERIF_THROW(Other, 0); return; }", 2),
               (r"\binflate\(&stream, Z_NO_FLUSH\)", "gz_inflate(&stream)", 1),
               (r"\bfwrite\(", "gz_fwrite(", 1),
               (r"check_zlib_error_code\(zerr\);", "{ check_zlib_error_code(zerr); if (g_exc) return; }", 1),
               (r"\bfeof\(f\)", "gz_feof(f)", ">=0"),
               (r"while \(((?:[^()]|\([^()]*\))*)\)(?=\s*\{\s*/\* errno = 0 \*/)", r"while (\1) GZ_OUTER_CONTRACT", 1),
               (r"GZ_OUTER_CONTRACT\s*\{", "GZ_OUTER_CONTRACT { GZ_OUTER_GHOST", 1),
               (r"\bdo\b(\s*\{\s*stream\.next_out)", r"do GZ_INNER_CONTRACT\1", 1)],
     "dropped": ["static_asserts on buffer sizes"]})

# ---- img_sdf.cc (C04 "unformatted slots are reported as unformatted" / C16): ViewFile::connect_drives -----------------
add({"name": "ViewFile_connect_drives", "file": "dfs/img_sdf.cc",
     "anchor": r"bool ViewFile::connect_drives\(DFS::StorageConfiguration\* storage,\s*DFS::DriveAllocation how,\s*std::string&\)",
     "sig": "static bool ViewFile_connect_drives(struct ViewFileM *self, int how)",
     "pre": "#define view (h_views[vi_])\n", "post": "#undef view\n",
     "rules": [(r"std::vector<std::optional<DFS::DriveConfig>> drives;", "/* drives: every emplace_back is monitored */", 1),
               (r"for \(auto& view : views_\)", "for (size_t vi_ = 0; vi_ < self->views_n; ++vi_) VIEWS_LOOP_CONTRACT", 1),
               (r"std::optional<Format> fmt;", "struct opt_format fmt; fmt.has = 0; fmt.val = 0;", ">=0"),
               (r"std::optional<Format> fmt =\s*identify_file_system\(view,[^;]*\);", "struct opt_format fmt = identify_model(&view);", ">=0"),
               (r"fmt = identify_file_system\(view,[^;]*\);", "fmt = identify_model(&view);", ">=0"),
               (r"std::string cause;", "/* cause text dropped */", ">=0"),
               (r"view\.is_formatted\(\)", "view_is_formatted(&view)", ">=0"),
               (r"DFS::DriveConfig dc\(fmt, &view\);", "struct DriveConfigM dc; dc.fmt = fmt; dc.vw = &view;", 1),
               (r"drives\.emplace_back\(dc\);", "drives_emplace_back(&dc);", 1),
               (r"return storage->connect_drives\(drives, how\);", "return storage_connect_drives_model(how);", 1)],
     "dropped": ["the cause string of identify_file_system"]})

# ---- stringutil.cc / dfs_catalog.cc (C15: names compare case-insensitively; a file is found by directory and name) ------
add({"name": "ci_comp", "file": "dfs/stringutil.cc", "anchor": r"\[\]\(const unsigned char lhs,\s*const unsigned char rhs\)",
     "sig": "static bool ci_comp(const unsigned char lhs, const unsigned char rhs)", "rules": [(r"\btolower\(", "tolower_chk(", ">=0")]})
add({"name": "case_insensitive_less", "file": "dfs/stringutil.cc", "anchor": r"bool case_insensitive_less\(const string& left,\s*const string& right\)",
     "sig": "static bool case_insensitive_less(const struct cstr *left, const struct cstr *right)",
     "rules": [(r"auto comp =\s*\[\]\(const unsigned char lhs,\s*const unsigned char rhs\)\s*\{[^{}]*\};", "/* lambda comp: extracted separately (ci_comp) */", 1),
               (r"const auto result = std::mismatch\(left\.cbegin\(\), left\.cend\(\),\s*right\.cbegin\(\), right\.cend\(\),\s*comp\);", "const struct mismatch_result result = mismatch_model(left, right);", 1),
               (r"result\.second == right\.cend\(\)", "result.second == right->n", 1), (r"result\.first == left\.cend\(\)", "result.first == left->n", 1),
               (r"\*result\.first", "CSTR_DEREF(left, result.first)", ">=1"), (r"\*result\.second", "CSTR_DEREF(right, result.second)", ">=1"),
               (r"static_cast<unsigned char>\(", "(unsigned char)(", ">=0"), (r"\btolower\(", "tolower_chk(", ">=1")]})
add({"name": "case_insensitive_equal", "file": "dfs/stringutil.cc", "anchor": r"bool case_insensitive_equal\(const string& left,\s*const string& right\)",
     "sig": "static bool case_insensitive_equal(const struct cstr *left, const struct cstr *right)", "rules": []})
add({"name": "CatalogEntry_has_name", "file": "dfs/dfs_catalog.cc", "anchor": r"bool CatalogEntry::has_name\(const ParsedFileName& wanted\) const",
     "sig": "static bool CatalogEntry_has_name(const struct CatalogEntry *self, const struct ParsedFileNameM *wanted)",
     "rules": [(r"#if VERBOSE_FOR_TESTS.*?#endif", "/* test-only diagnostics dropped */", ">=0"),
               (r"\bwanted\.dir\b", "wanted->dir", ">=1"), (r"\bdirectory\(\)", "CatalogEntry_directory(self)", ">=0"), (r"\braw_name_\b", "self->raw_name_", ">=0"),
               (r"\btoupper\(", "verif_toupper(", ">=0"), (r"\btolower\(", "verif_tolower(", ">=0"),
               (r"static_cast<(unsigned char|char|int)>\(", r"(\1)(", ">=0"),
               (r"const std::string trimmed_name\(stringutil::rtrim\(name\(\)\)\);", "const struct cstr trimmed_name = cstr_rtrim(CatalogEntry_name(self));", 1),
               (r"stringutil::case_insensitive_equal\(wanted\.name, trimmed_name\)", "case_insensitive_equal(&wanted->name, &trimmed_name)", 1)]})

# ---- afsp.cc / driveselector.cc (C15: an omitted drive or directory defaults to --drive / --dir, Opus volume letters) --------
add({"name": "VolumeSelector_to_string", "file": "dfs/driveselector.cc", "anchor": r"std::string VolumeSelector::to_string\(\) const",
     "sig": "static struct cstr VolumeSelector_to_string(const struct VolumeSelectorM *self)",
     "rules": [(r"std::string result = surface_\.to_string\(\);", "struct cstr result = surface_to_string_model(self->surface_);", 1),
               (r"if \(subvolume_\)", "if (self->subvolume_.has)", 1), (r"result\.push_back\(\*subvolume_\);", "cstr_push(&result, self->subvolume_.val);", 1)]})
add({"name": "afsp_drive_prefix", "file": "dfs/afsp.cc", "anchor": r"string drive_prefix\(DFS::VolumeSelector vol\)",
     "sig": "static struct cstr afsp_drive_prefix(const struct VolumeSelectorM *vol)",
     "rules": [(r"string result;", "struct cstr result; result.n = 0;", 1), (r"result\.reserve\([^;]*\);", "/* reserve dropped */", "=0or1"),
               (r"result\.push_back\(([^;]*)\);", r"cstr_push(&result, \1);", ">=1"),
               (r"result\.append\(vol\.to_string\(\)\);", "cstr_append(&result, VolumeSelector_to_string(vol));", "=0or1"),
               (r"result\.append\(vol\.surface\(\)\.to_string\(\)\);", "cstr_append(&result, surface_to_string_model(vol->surface_));", "=0or1")]})
add({"name": "afsp_directory_prefix", "file": "dfs/afsp.cc", "anchor": r"string directory_prefix\(char directory\)",
     "sig": "static struct cstr afsp_directory_prefix(char directory)",
     "rules": [(r"string result\(2, '\.'\);", "struct cstr result; result.n = 2; result.d[0] = '.'; result.d[1] = '.';", 1),
               (r"result\[0\] = directory;", "result.d[0] = directory;", 1)]})

add({"name": "afsp_assemble", "file": "dfs/afsp.cc", "anchor": r"string drive, directory, name;", "region_end": r"\n  \}\s*\n\s*/\* Convert a DFS ambiguous",
     "sig": "static bool afsp_assemble(void)",
     "rules": [(r"string drive, directory, name;", "struct astr drive = { T_NONE }, directory = { T_NONE }, name = { T_NONE };", 1),
               (r"groups\.size\(\)", "groups_n", ">=1"), (r"groups\[(\w+)\]\.empty\(\)", r"group_empty(\1)", ">=1"),
               (r"= groups\[(\w+)\];", r"= group_at(\1);", ">=1"),
               (r"drive_prefix\(vol\)", "astr_tag(T_DRIVE_DEFAULT)", ">=0"), (r"directory_prefix\(dir\)", "astr_tag(T_DIR_DEFAULT)", ">=0"),
               (r"error_message->assign\(invalid\);", "g_diag++;  /* error text dropped */", ">=0"),
               (r"out->clear\(\);", "out_clear();", 1), (r"out->reserve\([^;]*\);", "/* reserve dropped */", "=0or1"),
               (r"out->append\((\w+)\);", r"out_append(\1);", ">=1")],
     "dropped": ["error text"]})

# ---- img_fileio.cc / img_gzfile.cc (C12: "never alters an image ... all other commands create no files"): how image files are opened
add({"name": "OsFile_open", "file": "dfs/img_fileio.cc", "anchor": r": file_name_\(name\), f_\(name, ", "region_end": r"\)\s*\{\s*if \(f_\.fail\(\)\)",
     "sig": "static void OsFile_open(void)",
     "rules": [(r"std::ifstream::(\w+)", r"IOS_\1", ">=1"), (r"std::(?:ios|ios_base|fstream|ofstream)::(\w+)", r"IOS_\1", ">=0"),
               (r"^: file_name_\(name\), f_\(name,\s*(.*)$", r"ifstream_open_model(\1);", 1)]})
add({"name": "gz_open_input", "file": "dfs/img_gzfile.cc", "anchor": r"FILE \*f = fopen\(name\.c_str\(\), ", "region_end": r";",
     "sig": "static void gz_open_input(void)",
     "rules": [(r"^FILE \*f = fopen\(name\.c_str\(\),\s*(.*)\)$", r"fopen_model(\1);", 1)]})

# ---- fsp.cc (C15: `type`/`list`/`dump` find a file by :drive.dir.name): the directory/name split of parse_filename --------
# parse_filename, first part: the defaults from the context and the optional `:drive.` prefix (C15: "find a file by
# :drive.dir.name with the same defaults")
add({"name": "fsp_drive_prefix", "file": "dfs/fsp.cc",
     "anchor": r"std::string name\(fsp\);", "region_end": r"// name is now an optional directory part|if \(name\.size\(\) [<>=!]+ \w+\)\s*\{\s*if \(name\[1\]",
     "sig": "static bool fsp_drive_prefix(const struct FspCtx *ctx, struct cstr fsp, struct FspResult *result_, struct cstr *name_out)",
     "region_epilogue": "*name_out = name; return true;   /* on to the directory/name split */\n",
     "rules": [(r"std::string name\(fsp\);", "struct cstr name = fsp;", 1),
               (r"ParsedFileName result;", "/* result: the caller's object */", 1),
               (r"\bresult\.", "result_->", ">=2"), (r"\bctx\.", "ctx->", ">=2"),
               (r"\bfsp\[(\w+)\]", r"CSTR_AT(&fsp, \1)", ">=1"),
               (r"std::optional<DFS::VolumeSelector> got = DFS::VolumeSelector::parse\(fsp\.substr\((\w+)\), &end, error\);", r"struct opt_vol got = volume_parse_model(fsp, \1, &end);", 1),
               (r"if \(!got\)", "if (!got.has)", 1), (r"\*got\b", "got.val", 1),
               (r"std::ostringstream ss;(?:[^;\"]|\"(?:[^\"\\]|\\.)*\")*;\s*error = ss\.str\(\);", "error_set();", ">=0"),
               (r"name = name\.substr\((\w+)\);", r"name = cstr_substr(name, (unsigned)(\1));", 1)],
     "dropped": ["diagnostic text"]})
add({"name": "parse_dir_and_name", "file": "dfs/fsp.cc",
     "anchor": r"if \(name\.size\(\) [<>=!]+ \w+\)\s*\{\s*if \(name\[1\] == '\.'\)", "region_end": r"std::swap\(result, \*p\);",
     "sig": "static void parse_dir_and_name(struct cstr name, char *result_dir, struct cstr *result_name)",
     "rules": [(r"name\.size\(\)", "name.n", ">=1"), (r"name\[(\w+)\]", r"CSTR_AT(&name, \1)", ">=1"),
               (r"result\.dir = ", "*result_dir = ", ">=0"),
               (r"result\.name = std::string\(name, (\w+)\);", r"*result_name = cstr_substr(name, \1);", ">=0"),
               (r"result\.name = name;", "*result_name = name;", ">=0")],
     "dropped": ["the drive prefix (VolumeSelector::parse) handled before this region"]})

# ---- driveselector.cc (C07 command-line clause): SurfaceSelector::coerce / parse: no exception escapes parse ---------------
THROW_STD = (r"throw std::(\w+)\((?:[^()]|\([^()]*\))*\);", r"{ VERIF_THROW(std_\1, 0); return 0; }")
add({"name": "SurfaceSelector_coerce_long", "file": DS, "anchor": r"unsigned int SurfaceSelector::coerce\(long int ld\)",
     "sig": "static unsigned int SurfaceSelector_coerce_long(long int ld)",
     "rules": [(THROW_STD[0], THROW_STD[1], ">=1"), (r"std::numeric_limits<unsigned int>::max\(\)", "UINT_MAX", ">=1"),
               (r"static_cast<unsigned int>\(", "(unsigned int)(", ">=0")]})
add({"name": "SurfaceSelector_parse", "file": DS,
     "anchor": r"std::optional<SurfaceSelector> SurfaceSelector::parse\(const std::string& s, size_t\* end, std::string& error\)",
     "sig": "static struct opt_surface SurfaceSelector_parse(const struct argstr *s, size_t *end)",
     "rules": [(r"\btry\b", "/* guarded block: handlers below */", 1),
               (r"n = std::stol\(s, end, (\w+)\);", r"n = stol_model(s, end, \1); if (g_exc) goto handlers_;", 1),
               (r"d = coerce\(n\);", "d = SurfaceSelector_coerce_long(n); if (g_exc) goto handlers_;", 1),
               (r"catch \(BadSurfaceSelector& \w+\)", "if (0) handlers_: if (exc_caught(EXC_BadSurfaceSelector))", 1),
               (r"catch \(std::(\w+)& \w+\)", r"else if (exc_caught(EXC_std_\1))", ">=1"),
               (r"error = ebs\.what\(\);", "g_diag++;  /* diagnostic text dropped */", "=0or1"),
               (r"std::ostringstream ss;.*?error = ss\.str\(\);", "g_diag++;  /* diagnostic text dropped */", ">=1"),
               (r"return std::nullopt;", "{ struct opt_surface none_; none_.has = 0; none_.val = 0; return none_; }", ">=1"),
               (r"return SurfaceSelector\(d\);", "{ struct opt_surface r_; r_.has = (g_exc == EXC_NONE); r_.val = d; return r_; }  /* an exception no handler caught propagates */", 1)],
     "dropped": ["diagnostic texts"]})

# ---- cmd_dump.cc (C04): dump-sector's argument check and address computation -----------------------------------------
add({"name": "dump_get_arg", "file": "dfs/cmd_dump.cc",
     "anchor": r"std::optional<long int> get_arg\(const std::string& which_arg,\s*const std::string& the_arg,\s*const long int upper_limit\)",
     "sig": "static struct opt_long dump_get_arg(const struct argstr *the_arg, const long int upper_limit)",
     "rules": [(r"\btry\b", "/* guarded block: handler below */", 1),
               (r"n = std::stol\(the_arg, &end, (\w+)\);", r"n = stol_model(the_arg, &end, \1); if (g_exc) { struct opt_long none_; none_.has = 0; none_.val = 0; return none_; } if (g_stol_out_of_range) goto out_of_range_;", 1),
               (r"catch \(std::out_of_range& e\)\s*\{\s*\};", "out_of_range_: ;  /* the out_of_range handler: report as for n > upper_limit */", 1),
               (r"the_arg\.size\(\)", "the_arg->n", ">=1"),
               (r"std::cerr << which_arg << \" \" << the_arg[^;]*;", "g_diag++;  /* diagnostic text dropped */", ">=1"),
               (r"return std::nullopt;", "{ struct opt_long none_; none_.has = 0; none_.val = 0; return none_; }", ">=1"),
               (r"return n;", "{ struct opt_long some_; some_.has = 1; some_.val = n; return some_; }", 1)],
     "dropped": ["diagnostic texts"]})
# dump-sector: the limits its two arguments are checked against (C04: every (track, sector) of the surface and nothing beyond)
add({"name": "dump_sector_limits", "file": "dfs/cmd_dump.cc",
     "anchor": r"auto track = get_arg\(\"track\",", "region_end": r"const sector_count_type sec_addr = ",
     "sig": "static bool dump_sector_limits(const struct Geometry *geom_, struct opt_long *track_out, struct opt_long *sector_out)",
     "region_epilogue": "*track_out = track; *sector_out = sector; return true;\n",
     "rules": [(r"auto (\w+) = get_arg\(\"\w+\", args\[(\d+)\], ([^;]*)\);", r"struct opt_long \1 = get_arg_v(\2, \3);", 2),
               (r"if \(!(track|sector)\)", r"if (!\1.has)", 2),
               (r"\bgeom\.", "geom_->", ">=2")]})
add({"name": "dump_sector_addr", "file": "dfs/cmd_dump.cc",
     "anchor": r"const sector_count_type sec_addr = ", "region_end": r"auto got = drive->read_block\(sec_addr\);",
     "sig": "static sector_count_type dump_sector_addr(struct opt_long track, struct opt_long sector, const struct Geometry *geom_)",
     "region_epilogue": "return sec_addr;\n",
     "rules": [(r"\(\*track\)", "(track.val)", 1), (r"\(\*sector\)", "(sector.val)", 1), (r"geom\.sectors", "geom_->sectors", 1)]})

# ---- cmd_space.cc / dfs_catalog.cc (C14: the gaps of `space`) ----------------------------------------------------------
add({"name": "catalog_sectors_for_format", "file": "dfs/dfs_catalog.cc", "anchor": r"sector_count_type catalog_sectors_for_format\(const Format& f\)",
     "sig": "static sector_count_type catalog_sectors_for_format(int f)", "rules": [(r"Format::(\w+)", r"Format_\1", ">=1")]})
add({"name": "data_sectors_reserved_for_catalog", "file": "dfs/dfs_catalog.cc", "anchor": r"sector_count_type data_sectors_reserved_for_catalog\(const Format& f\)",
     "sig": "static sector_count_type data_sectors_reserved_for_catalog(int f)", "rules": [(r"Format::(\w+)", r"Format_\1", ">=1")]})
add({"name": "space_maybe_gap", "file": "dfs/cmd_space.cc", "anchor": r"\[&gaps\]\(DFS::sector_count_type last,\s*DFS::sector_count_type next\)",
     "sig": "static void space_maybe_gap(sector_count_type last, sector_count_type next)",
     "rules": [(r'throw DFS::BadFileSystem\("[^"]*"\);', "{ VERIF_THROW(BadFileSystem, 0); return; }", ">=1"),
               (r"gaps\.push_back\(([^;]*)\);", r"gaps_push_back(\1);", ">=1")]})
add({"name": "space_add_initial_gap", "file": "dfs/cmd_space.cc",
     "anchor": r"\(std::optional<std::pair<int, int>> first_file\)",
     "sig": "static void space_add_initial_gap(const struct SpaceRoot *root, struct opt_pair first_file, _Bool *added_initial_gap_)",
     "pre": "#define added_initial_gap (*added_initial_gap_)\n", "post": "#undef added_initial_gap\n",
     "rules": [(r"\bassert\(", "VERIF_ASSERT(", ">=0"), (r"std::exchange\((\w+), ([^()]*)\)", r"verif_exchange_bool(&(\1), \2)", ">=0"),
               (r"auto following = root\.total_sectors\(\);", "sector_count_type following = root->total_sectors;", 1),
               (r"if \(first_file\)", "if (first_file.has)", 1),
               (r"const auto& ce\(catalogs\[first_file->first\]\[first_file->second\]\);", "const struct CatalogEntry *ce = catalogs_at(first_file.first, first_file.second);", 1),
               (r"ce\.start_sector\(\)", "CatalogEntry_start_sector(ce)", 1),
               (r"\bauto cat_sectors\b", "sector_count_type cat_sectors", 1),
               (r"root\.disc_format\(\)", "root->disc_format", ">=0"), (r"root\.catalog_sectors\(\)", "SpaceRoot_catalog_sectors(root)", ">=0"),
               (r"\bmaybe_gap\(", "space_maybe_gap_v(", 1)]})

add({"name": "space_start_sec_of_next", "file": "dfs/cmd_space.cc",
     "anchor": r"\(unsigned int catalog, unsigned int entry\) -> DFS::sector_count_type",
     "sig": "static sector_count_type space_start_sec_of_next(const struct SpaceRoot *root, unsigned int catalog, unsigned int entry)",
     "rules": [(r"\bassert\(", "VERIF_ASSERT(", ">=0"),
               (r"catalogs\[([^\]]*)\]\.back\(\)\.start_sector\(\)", r"CatalogEntry_start_sector(cats_back(\1))", ">=1"),
               (r"catalogs\[([^\]]*)\]\[([^\]]*)\]\.start_sector\(\)", r"CatalogEntry_start_sector(cats_at(\1, \2))", ">=1"),
               (r"catalogs\[([^\]]*)\]\.size\(\)", r"cat_size(\1)", ">=0"), (r"catalogs\[([^\]]*)\]\.empty\(\)", r"(cat_size(\1) == 0)", ">=0"),
               (r"catalogs\.size\(\)", "cats_n", ">=1"), (r"root\.total_sectors\(\)", "root->total_sectors", ">=1"),
               (r"\bauto (\w+) =", r"unsigned int \1 =", ">=0")]})
add({"name": "space_entry_gap", "file": "dfs/cmd_space.cc",
     "anchor": r"(?:auto last_sec = catalogs\[c\]\[entry\]\.last_sector\(\);|const DFS::CatalogEntry& ce\(catalogs\[c\]\[entry\]\);)",
     "region_end": r"\}\s*\}\s*\}\s*if \(!added_initial_gap\)",
     "sig": "static void space_entry_gap(const struct CatalogEntry *ce, sector_count_type next_start)",
     "rules": [(r"auto last_sec = catalogs\[c\]\[entry\]\.last_sector\(\);", "sector_count_type last_sec = CatalogEntry_last_sector(ce);", "=0or1"),
               (r"const DFS::CatalogEntry& ce\(catalogs\[c\]\[entry\]\);", "/* ce: parameter (catalogs[c][entry]) */", "=0or1"),
               (r"const DFS::sector_count_type (\w+) =", r"const sector_count_type \1 =", ">=0"),
               (r"ce\.file_length\(\)", "CatalogEntry_file_length(ce)", ">=0"), (r"ce\.last_sector\(\)", "CatalogEntry_last_sector(ce)", ">=0"),
               (r"ce\.start_sector\(\)", "CatalogEntry_start_sector(ce)", ">=0"),
               (r"start_sec_of_next\(c, entry\)", "next_start", 1), (r"\bmaybe_gap\(", "space_maybe_gap_v(", 1)]})
add({"name": "Catalog_map_sectors", "file": "dfs/dfs_catalog.cc",
     "anchor": r"void Catalog::map_sectors\(const VolumeSelector& vol,\s*unsigned long catalog_origin_lba,\s*unsigned long data_origin_lba,\s*DFS::SectorMap\* out\) const",
     "sig": "static void Catalog_map_sectors(const struct CatalogM *self, unsigned long catalog_origin_lba, unsigned long data_origin_lba)",
     "rules": [(r"DFS::sector_count_type sec = 0;", "sector_count_type sec = 0;", 1), (r"\bcatalog_sectors\(\)", "self->catalog_sectors", 1),
               (r"(for \(sector_count_type sec = 0;\s*sec < self->catalog_sectors;\s*\+\+sec\))", r"\1 MAP_CAT_LOOP_CONTRACT", 1),
               (r"out->add_catalog_sector\(DFS::sector_count\(([^;]*)\),\s*vol\);", r"map_add_catalog_sector(sector_count(\1));", 1),
               (r"for \(const auto& entry : entries\(\)\)", "for (size_t ei = 0; ei < self->entries_n; ++ei) MAP_FILE_LOOP_CONTRACT", 1),
               (r"ParsedFileName file_name;", "/* file_name: label text dropped */", 1), (r"file_name\.(vol|dir|name) = [^;]*;", "", 3),
               (r"const auto (\w+) =", r"const unsigned long \1 =", ">=0"),
               (r"entry\.file_length\(\)", "CatalogEntry_file_length(&h_entries[ei])", ">=0"), (r"entry\.last_sector\(\)", "CatalogEntry_last_sector(&h_entries[ei])", ">=0"),
               (r"entry\.start_sector\(\)", "CatalogEntry_start_sector(&h_entries[ei])", ">=1"),
               (r"out->add_file_sectors\(DFS::sector_count\(([^;]*?)\),\s*DFS::sector_count\(([^;]*?)\),\s*file_name\);", r"map_add_file_sectors(ei, sector_count(\1), sector_count(\2));", 1)],
     "dropped": ["the label (volume, directory, name) given to each sector"]})

# ---- opus_cat.h / opus_cat.cc (C13, C17, C07): what the OpusDiscCatalogue constructor takes from sector 16 ----------------
add({"name": "VolumeLocation_ctor", "file": "dfs/opus_cat.h",
     "anchor": r"VolumeLocation\(int catalog_sector, unsigned long start, unsigned long end, char vol\)\s*:\s*", "region_end": r"\n\s*bool operator<\(const VolumeLocation& other\) const",
     "sig": "static void VolumeLocation_ctor(struct VolumeLocation *self, int catalog_sector, unsigned long start, unsigned long end, char vol)",
     "rules": [(r"^[^:]*:\s*", "", 1),
               (r"catalog_location_\(catalog_sector\),\s*start_sector_\(start\), len_\(end - start\), volume_\(vol\)\s*\{",
                "self->catalog_location_ = (catalog_sector); self->start_sector_ = (start); self->len_ = (end - start); self->volume_ = (vol);\n{", 1),
               ASSERT(">=0"),
               (r"const auto max = std::numeric_limits<DFS::sector_count_type>::max\(\);", "const sector_count_type max = UINT_MAX;", 1)]})
add({"name": "safe_unsigned_multiply_u", "file": "dfs/dfs.h",
     "anchor": r"template <typename T> T safe_unsigned_multiply\(T a, T b\)",
     "sig": "static unsigned int safe_unsigned_multiply_u(unsigned int a, unsigned int b)",
     "rules": [(r"static_assert\(std::numeric_limits<T>::is_integer\s*&& !std::numeric_limits<T>::is_signed\);", "/* static_assert dropped: T = unsigned int */", 1),
               (r"\bT\(", "(unsigned int)(", 2),
               (r"std::numeric_limits<T>::max\(\)", "UINT_MAX", 1),
               (r'throw std::range_error\("[^"]*"\);', "{ VERIF_THROW(Other, 0); return 0; }", 1)],
     "dropped": ["static_assert on the template parameter"]})
OC_PRE = "#define total_disc_sectors_ (self->total_disc_sectors_)\n#define sectors_per_track_ (self->sectors_per_track_)\n"
OC_POST = "#undef total_disc_sectors_\n#undef sectors_per_track_\n"
add({"name": "opus_ctor_head", "file": "dfs/opus_cat.cc",
     "anchor": r": total_disc_sectors_\(\(sector16\[1\] << 8\) \| sector16\[2\]\),", "region_end": r"static const char labels\[\] = ",
     "sig": "static void opus_ctor_head(struct OpusCatM *self, const SectorBuffer *sector16, const struct Geometry *geom)",
     "pre": OC_PRE, "post": OC_POST,
     "rules": [(r"^: total_disc_sectors_\(((?:[^()]|\([^()]*\))*)\),\s*sectors_per_track_\(([^()]*)\)\s*\{", r"total_disc_sectors_ = (\1); sectors_per_track_ = (\2);\n{", 1),
               (r"\bsector16\[", "sector16->d[", ">=3"),
               (r"geom->total_sectors\(\)", "Geometry_total_sectors(geom)", ">=1"),
               (r"std::ostringstream os;.*?throw DFS::BadFileSystem\(os\.str\(\)\);", "{ VERIF_THROW(BadFileSystem, 0); return; }", ">=0"),
               (r'throw DFS::BadFileSystem\("[^"]*"\);', "{ VERIF_THROW(BadFileSystem, 0); return; }", ">=0")],
     "region_epilogue": "}\n",
     "dropped": ["diagnostic text"]})
add({"name": "opus_volume_table", "file": "dfs/opus_cat.cc",
     "anchor": r"static const char labels\[\] = \"ABCDEFGH\";", "region_end": r"std::sort\(locations_\.begin\(\), locations_\.end\(\)\);|unsigned long next_sector = total_disc_sectors_;",
     "sig": "static void opus_volume_table(struct OpusCatM *self, const SectorBuffer *sector16, const struct Geometry *geom)",
     "pre": OC_PRE, "post": OC_POST,
     "rules": [(r"\bsector16\[", "sector16->d[", 1), ASSERT(">=0"),
               (r"static const char labels\[\] =", "const char labels[] =   /* `static` dropped: dfcc puts a function's static locals into the write set of its loops and havocs them with it; the array is const */", 1),
               (r"static_cast<unsigned int>\(", "(unsigned int)(", ">=0"),
               (r"std::ostringstream os;.*?throw DFS::BadFileSystem\(os\.str\(\)\);", "{ VERIF_THROW(BadFileSystem, 0); return; }", ">=0"),
               (r"auto start = DFS::safe_unsigned_multiply\(([^;]*)\);", r"const unsigned int start = safe_unsigned_multiply_u(\1); if (g_exc) return;", 1),
               (r"locations_\.emplace_back\(([^;]*)\);", r"locs_emplace_back(self, \1);", 1),
               (r"(for \(int i = 0; \(label=labels\[i\]\) != '\\0'; \+\+i\))", r"\1 OPUS_TABLE_LOOP_CONTRACT", 1)],
     "dropped": ["diagnostic text"]})

# OpusDiscCatalogue::map_sectors (C14: sector-map / extract-unused): the disc catalogue is sector 16, sector 17 is reserved
add({"name": "opus_disc_map_sectors", "file": "dfs/opus_cat.cc", "anchor": r"void OpusDiscCatalogue::map_sectors\(DFS::SectorMap\* out\) const",
     "sig": "static void opus_disc_map_sectors(const struct OpusCatM *self)", "pre": OC_PRE, "post": OC_POST,
     "rules": [(r"out->add_other\(([^,;]*), \"[^\"]*\"\);", r"add_other_model(\1);", ">=1")],
     "dropped": ["the label texts"]})
# ---- opus_cat.cc (C17): the extent loop of the OpusDiscCatalogue constructor (after std::sort by start sector) -----------
add({"name": "opus_volume_extents", "file": "dfs/opus_cat.cc",
     "anchor": r"unsigned long next_sector = total_disc_sectors_;", "region_end": r"\n    \}\s*\n\s*const std::vector<OpusDiscCatalogue::VolumeLocation>",
     "sig": "static void opus_volume_extents(struct OpusCatM *self)",
     "pre": "#define it (&h_locs[self->locations_n - 1 - ri_])\n#define total_disc_sectors_ (self->total_disc_sectors_)\n", "post": "#undef it\n#undef total_disc_sectors_\n",
     "rules": [(r"for \(auto it = locations_\.rbegin\(\);\s*it != locations_\.rend\(\);\s*\+\+it\)", "for (size_t ri_ = 0; ri_ < self->locations_n; ++ri_) OPUS_EXTENT_LOOP_CONTRACT", 1),
               (r"it->start_sector\(\)", "VolumeLocation_start_sector(it)", ">=1"),
               (r"it->set_next_sector\(([^;]*)\);", r"VolumeLocation_set_next_sector(it, \1);", 1),
               (r"std::ostringstream os;.*?throw DFS::BadFileSystem\(os\.str\(\)\);", "{ VERIF_THROW(BadFileSystem, 0); return; }", ">=0")],
     "dropped": ["diagnostic text"]})

# ---- dfs_catalog.cc (C02: title, cycle number, boot option; C14: the catalogue's total sector count) ------------------------
add({"name": "convert_title", "file": "dfs/dfs_catalog.cc", "anchor": r"std::string convert_title\(const DFS::SectorBuffer& s0,\s*const DFS::SectorBuffer& s1\)",
     "sig": "static struct cstr convert_title(const SectorBuffer *s0, const SectorBuffer *s1)",
     "rules": [(r"std::string title;", "struct cstr title; title.n = 0;", 1), (r"\bs([01])\[", r"s\1->d[", ">=2"),
               (r"title\.push_back\(([^;]*)\);", r"cstr_push(&title, \1);", ">=1"),
               (r"return DFS::stringutil::rtrim\(title\);", "return cstr_rtrim(title);", 1)]})
# CatalogFragment::valid, the part before the entry loop: the header checks that decide whether a catalogue can be one at all
# (C13: an Opus DDOS volume table is self-consistent only if every listed volume's catalogue passes this)
add({"name": "CatalogFragment_valid_head", "file": "dfs/dfs_catalog.cc",
     "anchor": r"unsigned short last = position_of_last_catalog_entry\(\);", "region_end": r"std::optional<DFS::sector_count_type> last_file_start;",
     "sig": "static bool CatalogFragment_valid_head(const struct CatalogFragmentM *self, _Bool *go_on)",
     "pre": "#define disc_format_ (self->disc_format_)\n#define total_sectors_ (self->total_sectors_)\n", "post": "#undef disc_format_\n#undef total_sectors_\n",
     "region_epilogue": "*go_on = 1; return true;   /* falls through to the entry loop */\n",
     "rules": [(r"position_of_last_catalog_entry\(\)", "self->position_of_last_catalog_entry_", 1),
               (r"\bos <<(?:[^;\"]|\"(?:[^\"\\\\]|\\\\.)*\")*;", "/* diagnostic text */;", ">=1"),
               (r"error = os\.str\(\);", "error_set();", ">=1"), (r'error = "[^"]*";', "error_set();", ">=0"),
               (r"DFS::Format::(\w+)", r"Format_\1", ">=1")],
     "dropped": ["diagnostic text (that an error text is set on every refusal is kept: error_set())"]})
add({"name": "CatalogFragment_valid_loop", "file": "dfs/dfs_catalog.cc",
     "anchor": r"std::optional<DFS::sector_count_type> last_file_start;", "region_end": r"\}\s*Catalog::Catalog\(DFS::Format format,",
     "sig": "static bool CatalogFragment_valid_loop(const struct CatalogFragmentM *self, unsigned short last)",
     "rules": [(r"std::optional<DFS::sector_count_type> last_file_start;", "struct opt_sc_ last_file_start; last_file_start.has = 0; last_file_start.val = 0;", 1),
               (r"std::string safe_name, prev_name;", "/* names kept for the diagnostic only: dropped */", 1),
               (r"auto entry = get_entry_at_offset\(pos\);", "const struct EntryM *entry = get_entry_model(pos);", 1),
               (r"entry\.file_length\(\)", "entry->len", ">=1"), (r"entry\.last_sector\(\)", "entry->last", ">=1"), (r"entry\.start_sector\(\)", "entry->start", ">=1"),
               (r"safe_name = get_safe_name\(entry\);", "", 1), (r"prev_name = safe_name;", "", 1),
               (r"\bos <<(?:[^;\"]|\"(?:[^\"\\]|\\.)*\")*;", "/* diagnostic text */;", ">=1"),
               (r"error = os\.str\(\);", "error_set();", ">=1"),
               (r"if \(last_file_start\)", "if (last_file_start.has)", 1), (r"\*last_file_start", "last_file_start.val", ">=1"),
               (r"last_file_start = ([^;]*);", r"{ last_file_start.has = 1; last_file_start.val = \1; }", 1),
               (r"\btotal_sectors\(\)", "self->total_sectors_", ">=1"),
               (r"static_cast<unsigned short>\(", "(unsigned short)(", 1),
               (r"(for \(unsigned short pos = 8;\s*pos <= last;\s*pos = \(unsigned short\)\(pos \+ 8\)\))", r"\1 VALID_LOOP_CONTRACT", 1)],
     "dropped": ["diagnostic text and the file names kept for it"]})
add({"name": "CatalogFragment_ctor", "file": "dfs/dfs_catalog.cc",
     "anchor": r"const DFS::byte title_initial\(names\[0\]\);", "region_end": r"for \(int pos = 8; pos <= position_of_last_catalog_entry_; pos \+= 8\)",
     "sig": "static void CatalogFragment_ctor(struct CatalogFragmentM *self, const SectorBuffer *names, const SectorBuffer *metadata)",
     "pre": "#define sequence_number_ (self->sequence_number_)\n#define position_of_last_catalog_entry_ (self->position_of_last_catalog_entry_)\n#define boot_ (self->boot_)\n#define total_sectors_ (self->total_sectors_)\n#define disc_format_ (self->disc_format_)\n",
     "post": "#undef sequence_number_\n#undef position_of_last_catalog_entry_\n#undef boot_\n#undef total_sectors_\n#undef disc_format_\n",
     "rules": [(r"const DFS::byte title_initial\(names\[0\]\);", "const byte title_initial = names->d[0];", 1),
               (r"\b(names|metadata)\[", r"\1->d[", ">=1"), (r"BootSetting::(\w+)", r"BootSetting_\1", ">=4"), (r"Format::(\w+)", r"Format_\1", ">=1")]})

# ---- dfs_filesystem.cc (C14: where sector-map / extract-unused stop) ------------------------------------------------------
add({"name": "FileSystem_disc_sector_count", "file": "dfs/dfs_filesystem.cc", "anchor": r"sector_count_type FileSystem::disc_sector_count\(\) const",
     "sig": "static sector_count_type FileSystem_disc_sector_count(const struct FileSystemM *self)",
     "rules": [(r"disc_format\(\) == DFS::Format::(\w+)", r"self->disc_format == Format_\1", 1),
               (r"geometry_\.total_sectors\(\)", "Geometry_total_sectors(&self->geometry_)", ">=0"),
               (r"for \(const auto& vol : volumes_\)\s*return ([^;]*);", r"if (self->volumes_n > 0) return \1;  /* the first volume */", 1),
               (r"vol\.second->root\(\)\.total_sectors\(\)", "self->first_volume_root_total_sectors", ">=0"),
               (r"vol\.second->file_storage_space\(\)", "self->first_volume_file_storage_space", ">=0"),
               (r'throw BadFileSystem\("[^"]*"\);', "{ VERIF_THROW(BadFileSystem, 0); return 0; }", 1)]})

# ---- dfs_volume.h / dfs_volume.cc (C17: the window a volume may read): member initialisers of Volume::Access and Volume ----
add({"name": "VolumeAccess_ctor", "file": "dfs/dfs_volume.h",
     "anchor": r"Access\(unsigned long first_sector, unsigned long sectors,\s*DataAccess& underlying\)\s*:\s*", "region_end": r"\s*\{\s*\}",
     "sig": "static void VolumeAccess_ctor(struct VolumeAccess *self, unsigned long first_sector, unsigned long sectors, struct DataAccess *underlying)",
     "rules": [(r"^[^:]*:\s*", "", 1), (r"(\w+_)\(([^()]*)\),?\s*", r"self->\1 = (\2); ", ">=3")]})
add({"name": "Volume_ctor", "file": "dfs/dfs_volume.cc",
     "anchor": r": catalog_location_\(catalog_location\),", "region_end": r"root_\(std::make_unique<Catalog>",
     "sig": "static void Volume_ctor(struct VolumeM *self, sector_count_type catalog_location, unsigned long first_sector, unsigned long total_sectors, struct DataAccess *media_)",
     "rules": [(r"^:\s*", "", 1),
               (r"volume_tracks_\(([^;]*?),\s*media\),", r"VolumeAccess_ctor(&self->volume_tracks_, \1, media_);", 1),
               (r"total_sectors_\(DFS::sector_count\(([^()]*)\)\),", r"self->total_sectors_ = sector_count(\1);", 1),
               (r"catalog_location_\(([^()]*)\),", r"self->catalog_location_ = (\1);", 1)],
     "dropped": ["root_(std::make_unique<Catalog>(...))"]})

add({"name": "VolumeAccess_origin", "file": "dfs/dfs_volume.h", "anchor": r"unsigned long origin\(\) const",
     "sig": "static unsigned long VolumeAccess_origin(const struct VolumeAccess *self)", "rules": [(r"\borigin_\b", "self->origin_", 1)]})
add({"name": "Volume_volume_data_origin", "file": "dfs/dfs_volume.h", "anchor": r"unsigned long volume_data_origin\(\) const",
     "sig": "static unsigned long Volume_volume_data_origin(const struct VolumeM *self)", "rules": [(r"volume_tracks_\.origin\(\)", "VolumeAccess_origin(&self->volume_tracks_)", 1)]})
# Volume::map_sectors (C14: sector-map / extract-unused label the catalogue at the catalogue's place and the files in the data area)
add({"name": "Volume_map_sectors", "file": "dfs/dfs_volume.cc", "anchor": r"void Volume::map_sectors\(const DFS::VolumeSelector& vol,\s*DFS::SectorMap\* out\) const",
     "sig": "static void Volume_map_sectors(const struct VolumeM *self)",
     "rules": [(r"root_->map_sectors\(vol,\s*([^;]*),\s*out\);", r"catalog_map_sectors_v(self, \1);", 1),
               (r"\bcatalog_location_\b", "self->catalog_location_", ">=0"), (r"\bvolume_data_origin\(\)", "Volume_volume_data_origin(self)", ">=0")]})
add({"name": "init_volumes_opus_vol", "file": "dfs/dfs_volume.cc",
     "anchor": r"auto vol = std::make_unique<DFS::Volume>\(fmt,\s*vol_loc", "region_end": r"result\.insert\(std::make_pair\(vol_loc\.volume\(\)",
     "sig": "static void init_volumes_opus_vol(struct VolumeM *vol, int fmt, const struct VolumeLocation *vol_loc, struct DataAccess *media_)",
     "rules": [(r"auto vol = std::make_unique<DFS::Volume>\(fmt,(.*?),\s*media\);", r"Volume_ctor(vol, \1, media_);", 1),
               (r"vol_loc\.catalog_location\(\)", "(sector_count_type)vol_loc->catalog_location_", "=0or1"),
               (r"vol_loc\.start_sector\(\)", "VolumeLocation_start_sector(vol_loc)", ">=0"),
               (r"vol_loc\.len\(\)", "VolumeLocation_len(vol_loc)", ">=0"),
               (r"vol_loc\.(\w+)\(\)", r"vol_loc->\1_", ">=0")],
     "dropped": ["std::make_unique (the object is the caller's)", "the Format argument (only forwarded to the Catalog)"]})
add({"name": "init_volumes_plain_vol", "file": "dfs/dfs_volume.cc",
     "anchor": r"auto vol = std::make_unique<DFS::Volume>\(fmt,\s*(?!\s|vol_loc)", "region_end": r"result\.insert\(std::make_pair\(std::nullopt",
     "sig": "static void init_volumes_plain_vol(struct VolumeM *vol, int fmt, const struct Geometry *geom_, struct DataAccess *media_)",
     "rules": [(r"auto vol = std::make_unique<DFS::Volume>\(fmt,(.*?),\s*media\);", r"Volume_ctor(vol, \1, media_);", 1),
               (r"\bgeom\.total_sectors\(\)", "Geometry_total_sectors(geom_)", ">=0")],
     "dropped": ["std::make_unique (the object is the caller's)", "the Format argument (only forwarded to the Catalog)"]})

# ---- cmd_cat.cc (C02: "current directory first, then by directory and name, case-insensitively") ---------------------
add({"name": "cat_mapdir", "file": "dfs/cmd_cat.cc", "anchor": r"\[&ctx\] \(char dir\) -> char",
     "sig": "static char cat_mapdir(char ctx_current_directory, char dir)",
     "rules": [(r"ctx\.current_directory", "ctx_current_directory", ">=1"), (r"static_cast<char>\(", "(char)(", ">=0"),
               (r"static_cast<unsigned char>\(", "(unsigned char)(", ">=0"), (r"\btolower\(", "verif_tolower(", ">=1")]})
add({"name": "cat_compare_entries", "file": "dfs/cmd_cat.cc", "anchor": r"\[&ctx\]\(const CatalogEntry& l, const CatalogEntry& r\) -> bool",
     "sig": "static bool cat_compare_entries(char ctx_current_directory, const struct CatEnt *l, const struct CatEnt *r)",
     "rules": [(r"auto mapdir =\s*\[&ctx\] \(char dir\) -> char \{.*?\};", "/* lambda mapdir: extracted separately (cat_mapdir) */", 1),
               (r"\bmapdir\(", "cat_mapdir(ctx_current_directory, ", ">=2"),
               (r"\b([lr])\.directory\(\)", r"\1->dir", ">=2"),
               (r"DFS::stringutil::case_insensitive_less\(([lr])\.name\(\), ([lr])\.name\(\)\)", r"ci_less_model(&\1->name, &\2->name)", 1)]})

# ---- cmd_cat.cc: column tracking of the catalogue listing (C19: computations next to / inside asserts) -----------------
add({"name": "colstream_tab", "file": "dfs/cmd_cat.cc", "anchor": r"void tab\(\)",
     "sig": "static void colstream_tab(struct colstream *self)",
     "pre": "#define col_ (self->col_)\n#define TAB_WIDTH 8\n", "post": "#undef col_\n#undef TAB_WIDTH\n",
     "rules": [(r"\bauto\b", "size_t", ">=0"), (r"\bassert\(", "VERIF_ASSERT(", ">=0")]})
add({"name": "colstream_update_col", "file": "dfs/cmd_cat.cc", "anchor": r"void update_col\(char ch\)",
     "sig": "static void colstream_update_col(struct colstream *self, char ch)",
     "pre": "#define col_ (self->col_)\n", "post": "#undef col_\n",
     "rules": [(r"\btab\(\);", "colstream_tab(self);", ">=0"), (r"\bassert\(", "VERIF_ASSERT(", ">=0")]})

# DecompressedFile::read (C10 i/ii: the FileAccess the rest of the program sees for a .gz image): the `fail` lambda and the
# statements after it, as two functions
add({"name": "gz_read_fail", "file": "dfs/img_gzfile.cc",
     "anchor": r"auto fail = \[this\]\(\) -> std::vector<DFS::byte>",
     "sig": "static struct gzvec gz_read_fail(struct DecompressedFile *self)",
     "rules": [(r"\berrno\b", "g_errno", ">=1"),
               (r"throw FileIOError\(name_, g_errno\);", "{ VERIF_THROW(Other, 0); return gzvec_empty(); }", ">=0"),
               (r"return std::vector<DFS::byte>\(\);", "return gzvec_empty();", ">=0")]})
add({"name": "DecompressedFile_read", "file": "dfs/img_gzfile.cc",
     "anchor": r"errno = 0;\s*if \(0 != fseek\(f_, pos, SEEK_SET\)\)",
     "region_end": r"\n  \}\s*\n\s*\}  // namespace",
     "sig": "static struct gzvec DecompressedFile_read(struct DecompressedFile *self, unsigned long pos, unsigned long len)",
     "pre": "#define f_ (self->f_)\n", "post": "#undef f_\n",
     "rules": [(r"\berrno\b", "g_errno", ">=1"),
               (r"\bfseek\(", "gzt_fseek(", 1),
               (r"return fail\(\);", "return gz_read_fail(self);", ">=1"),
               (r"std::vector<DFS::byte> buf;", "struct gzvec buf = gzvec_empty();", 1),
               (r"buf\.resize\(([^;]*)\);", r"gzvec_resize(&buf, \1);", ">=1"),
               (r"\bfread\(buf\.data\(\),\s*([^;]*?),\s*buf\.size\(\),\s*f_\)", r"gzt_fread(&buf, \1, buf.n, f_)", 1)]})

# ---- img_hfe.cc / img_hxcmfm.cc (C05/C06 image-level clause): sector lookup of the flux adapters, PicTrack -------------
COPY256 = (r"std::copy\((\w+)(?:->|\.)data\.begin\(\), \1(?:->|\.)data\.end\(\), buf\.begin\(\)\);", r"flux_sector_copy(FLUXSEC(\1), &buf);")
RET_BUF = (r"return buf;", "{ opt_SectorBuffer some_; some_.has = 1; some_.val = buf; return some_; }")
add({"name": "hfe_opcodes", "file": "dfs/img_hfe.cc", "anchor": r"#define OPCODE_MASK\s+0xF0", "region_end": r"\n\s*\n\s*\nstruct picfileformatheader",
     "toplevel": True, "sig": "", "rules": []})
add({"name": "is_hfe3_opcode", "file": "dfs/img_hfe.cc", "anchor": r"bool is_hfe3_opcode\(byte val\)",
     "sig": "static bool is_hfe3_opcode(byte val)", "rules": []})
# ---- img_hfe.cc: the track list (LUT) of an HFE file: where it is read and how its entries are decoded (C05) ----------
add({"name": "hfe_le_word", "file": "dfs/img_hfe.cc", "anchor": r"unsigned short le_word\(const byte \*d\)",
     "sig": "static unsigned short hfe_le_word(const byte *d)", "rules": [(r"static_cast<unsigned short>\(", "(unsigned short)(", 1)]})
add({"name": "PicTrack_ctor", "file": "dfs/img_hfe.cc", "anchor": r"PicTrack\(const unsigned char\* p\)\s*:\s*", "region_end": r"\s*\{\s*\}",
     "sig": "static void PicTrack_ctor(struct PicTrack *self, const unsigned char *p)",
     "rules": [(r"^[^:]*:\s*", "", 1), (r"\ble_word\(", "hfe_le_word(", 2), (r"(\w+_)\(((?:[^()]|\([^()]*\))*)\),?\s*", r"self->\1 = (\2); ", 2)]})
# one spec for both shapes: with the header's track_list_offset handed in (fix of 2026-10-03) and without (pinned code: the
# emitted function then ignores its parameter and reads at byte 512)
add({"name": "read_track_offset_lut", "file": "dfs/img_hfe.cc",
     "anchor": r"std::vector<PicTrack>\s*read_track_offset_lut\(DFS::FileAccess\* f,(?:\s*unsigned (?:int|short|long) track_list_offset,)?\s*unsigned int tracks\)",
     "sig": "static void read_track_offset_lut(struct FileAccess *f, unsigned int track_list_offset, unsigned int tracks)",
     "rules": [(r"std::vector<PicTrack> result;", "lut_clear();", 1),
               (r"std::vector<unsigned char> buf = f->read\(([^;]*)\);", r"struct dynvec buf = FileAccess_read_lut(f, \1);", 1),
               (r"\bbuf\.size\(\)", "buf.n", ">=1"), (r"\bbuf\.data\(\)", "buf.d", 1),
               (r"std::ostringstream ss;.*?throw InvalidHfeFile\(ss\.str\(\)\);", "{ VERIF_THROW(Other, 0); return; }", 1),
               (r"result\.push_back\(PicTrack\(pos\)\);", "lut_push_back(pos);", 1),
               (r"(for \(unsigned\s+i = 0; i < tracks; \+\+i\))", r"\1 LUT_LOOP_CONTRACT", 1),
               (r"return result;", "return;", 1)],
     "dropped": ["diagnostic text"]})
add({"name": "hfe_le_word_it", "file": "dfs/img_hfe.cc", "anchor": r"unsigned short le_word\(std::vector<byte>::const_iterator d\)",
     "sig": "static unsigned short hfe_le_word_it(const byte *d)", "rules": [(r"static_cast<unsigned short>\(", "(unsigned short)(", 1)]})
add({"name": "picfileformatheader", "file": "dfs/img_hfe.cc", "anchor": r"struct picfileformatheader\s*\{", "region_end": r"\n\s*\nunsigned short le_word\(std::vector",
     "toplevel": True, "sig": "", "rules": []})
add({"name": "hfe_nextbyte", "file": "dfs/img_hfe.cc", "anchor": r"auto nextbyte = \[&d\]\(\) -> unsigned char\s*",
     "sig": "static unsigned char hfe_nextbyte(const byte **dp)", "rules": [(r"\*d\+\+", "*(*dp)++", 1)]})
add({"name": "hfe_nextshort", "file": "dfs/img_hfe.cc", "anchor": r"auto nextshort = \[&d\]\(\) -> unsigned short\s*",
     "sig": "static unsigned short hfe_nextshort(const byte **dp)",
     "rules": [(r"auto val = le_word\(d\);", "unsigned short val = hfe_le_word_it(*dp);   /* the iterator overload of le_word */", 1), (r"\bd \+= 2;", "*dp += 2;", 1)]})
add({"name": "hfe_decode_header", "file": "dfs/img_hfe.cc", "anchor": r"picfileformatheader decode_header\(const std::vector<byte>& header\)",
     "sig": "static struct picfileformatheader hfe_decode_header(const byte *header)",
     "rules": [(r"std::vector<byte>::const_iterator d = header\.begin\(\);", "const byte *d = header;", 1),
               (r"auto nextbyte = \[&d\]\(\) -> unsigned char\s*\{[^{}]*\};", "/* lambda nextbyte: extracted as hfe_nextbyte */", 1),
               (r"auto nextshort = \[&d\]\(\) -> unsigned short\s*\{[^{}]*\};", "/* lambda nextshort: extracted as hfe_nextshort */", 1),
               (r"\bpicfileformatheader h;", "struct picfileformatheader h;", 1),
               (r"std::copy\(d, d\+sizeof\(h\.HEADERSIGNATURE\), h\.HEADERSIGNATURE\);", "bytes_copy_n(h.HEADERSIGNATURE, d, sizeof(h.HEADERSIGNATURE));", 1),
               (r"std::advance\(d, sizeof\(h\.HEADERSIGNATURE\)\);", "d += sizeof(h.HEADERSIGNATURE);", 1),
               ASSERT(">=0"),
               (r"\bnextbyte\(\)", "hfe_nextbyte(&d)", ">=10"), (r"\bnextshort\(\)", "hfe_nextshort(&d)", 3)]})
add({"name": "hfe_lut_call", "file": "dfs/img_hfe.cc", "anchor": r"std::vector<PicTrack> track_lut = read_track_offset_lut\(",
     "region_end": r"\n\s*for \(unsigned int side = 0; side < header_\.number_of_side",
     "sig": "static void hfe_lut_call(struct HfeFileL *self)",
     "pre": "#define header_ (self->header_)\n", "post": "#undef header_\n",
     "rules": [(r"std::vector<PicTrack> track_lut = read_track_offset_lut\(file_\.get\(\),\s*([^;]*)\);", r"LUT_CALL(self->file_, \1);", 1)]})
add({"name": "hfe_encoding_of_track", "file": "dfs/img_hfe.cc", "anchor": r"unsigned char HfeFile::encoding_of_track\(int side, int track\) const",
     "sig": "static unsigned char hfe_encoding_of_track(const struct HfeFileL *self, int side, int track)",
     "pre": "#define header_ (self->header_)\n", "post": "#undef header_\n", "rules": []})
add({"name": "HfeCopyState", "file": "dfs/img_hfe.cc", "anchor": r"struct HfeCopyState\s*\{", "region_end": r"\n\s*\nvoid copy_hfe",
     "toplevel": True, "sig": "", "optional": True, "fallback": "struct HfeCopyState { int got_bits; byte out; byte this_op; };",
     "rules": [(r"\b(int|byte) (\w+) = 0;", r"\1 \2;   /* = 0: see the initialiser in hfe_side_blocks */", 3)]})
# copy_hfe: one spec for both shapes of the function -- with the decoding state carried in a HfeCopyState object (references
# to its members, fix of 2026-10-03) and with the state in local variables (pinned code).  In the second shape the emitted
# function ignores its `state` parameter and the contract fails, which is the defect.
add({"name": "copy_hfe", "file": "dfs/img_hfe.cc",
     "anchor": r"void copy_hfe\(bool hfe3, const byte\* begin, const byte\* end,\s*std::back_insert_iterator<std::vector<byte>> dest(?:,\s*HfeCopyState\s*\*\s*state)?\)",
     "sig": "static void copy_hfe(bool hfe3, const byte *begin, const byte *end, struct HfeCopyState *state)",
     "post": "#undef got_bits\n#undef out\n#undef this_op\n",
     "rules": [(r"std::cerr << [^;]*;", "g_diag++;  /* diagnostic text dropped */", ">=1"),
               (r"if \(DFS::verbose\)\s*\{[^{}]*\}", "/* verbose dropped */", ">=1"),
               (r"static_cast<byte>\(", "(byte)(", ">=1"),
               (r"std::ostringstream ss;.*?throw InvalidHfeFile\(ss\.str\(\)\);", "{ VERIF_THROW(Other, 0); return; }", 1),
               (r"\*dest\+\+ = out;", "dest_push_back(out);", 1),
               (r"(?:int|byte)\s*&\s*(got_bits|out|this_op) = state->\1;", r"\n#define \1 (state->\1)   /* a C++ reference to the member */\n", ">=0"),
               (r"premature_stream_end\(this_op\);", "{ g_diag++; }  /* premature_stream_end prints a warning */", "=0or1"),
               (r"(while \(begin != end\))", r"\1 COPY_HFE_LOOP_CONTRACT", 1),
               (r"(for \(int bitnum = 0; bitnum < 8; \+\+bitnum\))", r"COPY_HFE_INNER_GHOST \1 COPY_HFE_INNER_CONTRACT", 1)],
     "dropped": ["diagnostic texts"]})
add({"name": "hfe_encodings", "file": "dfs/img_hfe.cc", "anchor": r"#define ISOIBM_MFM_ENCODING\s+0x00", "region_end": r"\n\s*\n#define OPCODE_MASK",
     "toplevel": True, "sig": "", "rules": []})
add({"name": "hfe_geometry_tail", "file": "dfs/img_hfe.cc",
     "anchor": r"(?:if \(!sectors_per_track\)[^;]*;\s*)?assert\(header_\.number_of_track > 0\);", "region_end": r"return result;\s*\}\s*bool HfeFile::connect_drives",
     "sig": "static void hfe_geometry_tail(struct HfeFileM *self, struct opt_uint_ sectors_per_track)",
     "pre": "#define header_ (self->header_)\n", "post": "#undef header_\n",
     "rules": [(r"\bassert\(", "VERIF_ASSERT(", ">=0"), (r"sectors_per_track\.has_value\(\)", "sectors_per_track.has", ">=0"),
               (r"if \(!sectors_per_track\)", "if (!sectors_per_track.has)", ">=0"),
               (r"DFS::Encoding enc;", "int enc = 0;", 1), (r"DFS::Encoding::(\w+)", r"Encoding_\1", ">=2"),
               (r"std::ostringstream ss;.*?throw UnsupportedHfeFile\(ss\.str\(\)\);", "{ VERIF_THROW(Other, 0); return; }", 1),
               (r'throw UnsupportedHfeFile\("[^"]*"\);', "{ VERIF_THROW(Other, 0); return; }", ">=0"),
               (r"\*sectors_per_track", "OPT_DEREF(sectors_per_track)", 1),
               (r"geom_ = DFS::Geometry\(([^;]*)\);", r"geom_set(self, \1);", 1)],
     "dropped": ["diagnostic text"]})
add({"name": "hfe_block_sizes", "file": "dfs/img_hfe.cc", "anchor": r"constexpr std::vector<byte>::size_type side_block_size = ",
     "region_end": r"const auto max_offset", "toplevel": True, "sig": "",
     "rules": [(r"constexpr std::vector<byte>::size_type side_block_size = (\w+);", r"enum { side_block_size = \1 };", 1),
               (r"constexpr unsigned int raw_data_block_size = ([^;]*);", r"enum { raw_data_block_size = \1 };", 1)]})
add({"name": "hfe_side_blocks", "file": "dfs/img_hfe.cc",
     "anchor": r"auto begin_offset = side_block_size \* side;", "region_end": r"#if ULTRA_VERBOSE\s*if \(DFS::verbose\)\s*\{\s*std::cerr << std::dec << std::setfill\(' '\)\s*<< \"Track \"",
     "sig": "static void hfe_side_blocks(unsigned int side, size_t track_bytes_read, int hfe_version_)",
     "rules": [(r"#if ULTRA_VERBOSE.*?#endif", "", ">=0"),
               (r"if \(DFS::verbose\)\s*\{\s*\}", "/* verbose dropped */", ">=0"),
               (r"\bauto begin_offset\b", "size_t begin_offset", 1),
               (r"const auto end_offset = std::min\(([^;]*?),\s*([^;]*?)\);", r"const size_t end_offset = size_min(\1, \2);", 1),
               (r"\bassert\(end_offset <= raw_data\.size\(\)\);", "VERIF_ASSERT(end_offset <= track_bytes_read);", "=0or1"),
               (r"copy_hfe\(([^,]*),\s*raw_data\.data\(\) \+ (\w+),\s*raw_data\.data\(\) \+ (\w+),\s*std::back_inserter\(track_stream\),\s*(&\w+)\);", r"copy_hfe_v(\1, \2, \3, \4);", "=0or1"),
               (r"copy_hfe\(([^,]*),\s*raw_data\.data\(\) \+ (\w+),\s*raw_data\.data\(\) \+ (\w+),\s*std::back_inserter\(track_stream\)\);", r"copy_hfe_v(\1, \2, \3, (struct HfeCopyState *)0);  /* no state object is handed over */", "=0or1"),
               (r"HfeCopyState (\w+);", "struct HfeCopyState \\1 = { 0, 0, 0 };   /* default member initialisers */\n#undef SIDE_STATE_TARGET\n#define SIDE_STATE_TARGET , \\1\n#undef SIDE_STATE_INV\n#define SIDE_STATE_INV SIDE_STATE_INV_FOR(\\1)\n", "=0or1"),
               (r"premature_stream_end\(([^;]*)\);", r"premature_stream_end_model(\1);", "=0or1"),
               (r"(while \(begin_offset < track_bytes_read\))", r"\1 SIDE_BLOCKS_LOOP_CONTRACT", 1)],
     "forbid": [r"\bcopy_hfe\("],
     "dropped": ["ULTRA_VERBOSE / verbose diagnostics"]})
add({"name": "PicTrack_track_len", "file": "dfs/img_hfe.cc", "anchor": r"unsigned long track_len\(\) const",
     "sig": "static unsigned long PicTrack_track_len(const struct PicTrack *self)",
     "pre": "#define track_len_ (self->track_len_)\n", "post": "#undef track_len_\n", "rules": []})
# compute_geometry of the HxC MFM reader (C05/C06: the geometry a side is attached with): cylinders = distinct cylinder numbers,
# sectors per track = distinct record numbers
add({"name": "hxc_compute_geometry", "file": "dfs/img_hxcmfm.cc", "anchor": r"DFS::Geometry compute_geometry\(unsigned int sides,\s*const std::vector<Sector>& sectors\)",
     "sig": "static void hxc_compute_geometry(unsigned int sides, size_t sectors_n)",
     "rules": [(r"std::set<unsigned char> cylinders, records;", "struct uset cylinders = { SET_CYL, 0 }, records = { SET_REC, 0 };", 1),
               (r"for \(const Track::Sector s : sectors\)", "for (size_t si_ = 0; si_ < sectors_n; ++si_) GEOM_LOOP_CONTRACT", 1),
               (r"(\w+)\.insert\((?:\w+\.end\(\), )?s\.address\.(\w+)\);", r"uset_insert(&\1, si_, FIELD_\2);", ">=1"),
               (r"\bsectors\.size\(\)", "sectors_n", ">=0"), (r"\b(cylinders|records)\.size\(\)", r"uset_size(&\1)", ">=0"),
               (r"return DFS::Geometry\(((?:[^();]|\([^()]*\))*),\s*DFS::Encoding::(\w+)\);", r"geometry_model(\1, Encoding_\2); return;", 1)]})
# the HxcMfmFile constructor: which valid headers are supported, and one drive per side (C05: one or two sides)
add({"name": "hxc_check_supported", "file": "dfs/img_hxcmfm.cc",
     "anchor": r"if \(header->sides [<>=!]+ \w+\)\s*\{\s*std::ostringstream ss;\s*ss << \"image file encodes more than 2 sides", "region_end": r"const std::map<TrackDataKey, TrackData> track_metadata = get_track_metadata\(\);",
     "sig": "static void hxc_check_supported(const struct HxcHeader *header, struct HxcHeader *header_out)",
     "rules": [(r"std::ostringstream ss;.*?throw UnsupportedHxcMfmFile\(ss\.str\(\)\);", "{ VERIF_THROW(Other, 0); return; }", ">=1"),
               (r"\bheader_ = \*header;", "*header_out = *header;", 1)],
     "dropped": ["diagnostic texts"]})
add({"name": "hxc_side_loop", "file": "dfs/img_hxcmfm.cc",
     "anchor": r"for \(unsigned int side = 0; side < header_\.sides; \+\+side\)\s*\{\s*std::vector<Sector> sectors = read_all_sectors\(side, track_metadata\);", "region_end": r"\n\}\s*std::string HxcMfmFile::description\(\) const",
     "sig": "static void hxc_side_loop(const struct HxcMfmFile *self)",
     "pre": "#define header_ (self->header_)\n", "post": "#undef header_\n",
     "rules": [(r"(for \(unsigned int side = 0; side < header_\.sides; \+\+side\))", r"\1 HXC_SIDE_LOOP_CONTRACT", 1),
               (r"std::vector<Sector> sectors = read_all_sectors\(side, track_metadata\);\s*DFS::Geometry g = compute_geometry\(1, sectors\);\s*acc_\.emplace_back\(this, g, (\w+), sectors\);",
                r"hxc_side_model(side, \1);   /* read_all_sectors(side) -> compute_geometry -> adapter for that side */", 1)],
     "dropped": ["read_all_sectors / compute_geometry (outside the verified set): the loop's own bookkeeping is kept"]})
add({"name": "HxcAdapter_read_block", "file": "dfs/img_hxcmfm.cc",
     "anchor": r"std::optional<DFS::SectorBuffer> read_block\(unsigned long lba\) override",
     "sig": "static opt_SectorBuffer HxcAdapter_read_block(struct FluxAdapter *self, unsigned long lba)",
     "pre": "#define geom_ (self->geom_)\n#define side_ (self->side_)\n#define FLUXSEC(s) (&self->sectors_[si_])\n", "post": "#undef geom_\n#undef side_\n#undef FLUXSEC\n",
     "rules": [(NULLOPT_SB[0], NULLOPT_SB[1], 2), (r"geom_\.total_sectors\(\)", "Geometry_total_sectors(&geom_)", 1),
               (r"Track::SectorAddress addr;", "struct SectorAddress addr;", 1), (r"static_cast<unsigned char>\(", "(unsigned char)(", 3),
               (r"for \(const Sector& sect : sectors_\)", "for (size_t si_ = 0; si_ < self->sectors_n; ++si_) ADAPTER_LOOP_CONTRACT", 1),
               (r"sect\.address == addr", "SectorAddress_eq(&self->sectors_[si_].address, &addr)", ">=0"),
               (r"sect\.address < addr", "SectorAddress_lt(&self->sectors_[si_].address, &addr)", ">=0"),
               (r"addr < sect\.address", "SectorAddress_lt(&addr, &self->sectors_[si_].address)", ">=0"),
               (r"sect\.address != addr", "(!SectorAddress_eq(&self->sectors_[si_].address, &addr))", ">=0"),
               (r"DFS::SectorBuffer buf;", "SectorBuffer buf;", 1), (COPY256[0], COPY256[1], 1), (RET_BUF[0], RET_BUF[1], 1)]})
add({"name": "HfeAdapter_find_sector", "file": "dfs/img_hfe.cc",
     "anchor": r"std::vector<Sector>::const_iterator find_sector\(const SectorAddress& want\) const",
     "sig": "static size_t HfeAdapter_find_sector(const struct FluxAdapter *self, const struct SectorAddress *want)",
     "rules": [(r"std::vector<Sector>::const_iterator it = sectors_\.cbegin\(\);", "size_t it = 0;", ">=0"),
               (r"it != sectors_\.cend\(\)", "it != self->sectors_n", ">=0"),
               (r"it->address == want", "SectorAddress_eq(&self->sectors_[it].address, want)", ">=0"),
               (r"(while \(it != self->sectors_n\))", r"\1 FIND_LOOP_CONTRACT", ">=0"),
               # a binary search over the (address-sorted) list: std::lower_bound with the address order as its comparison
               (r"std::lower_bound\(sectors_\.cbegin\(\), sectors_\.cend\(\), want,\s*\[\]\(const Sector& s, const SectorAddress& a\)\s*\{\s*return s\.address < a;\s*\}\)",
                "flux_lower_bound_model(self, want)", "=0or1")]})
add({"name": "HfeAdapter_read_block", "file": "dfs/img_hfe.cc",
     "anchor": r"std::optional<DFS::SectorBuffer> read_block\(unsigned long lba\) override",
     "sig": "static opt_SectorBuffer HfeAdapter_read_block(struct FluxAdapter *self, unsigned long lba)",
     "pre": "#define geom_ (self->geom_)\n#define side_ (self->side_)\n#define FLUXSEC(s) (&self->sectors_[s])\n", "post": "#undef geom_\n#undef side_\n#undef FLUXSEC\n",
     "rules": [(NULLOPT_SB[0], NULLOPT_SB[1], ">=1"), (r"sectors_\.size\(\)", "self->sectors_n", ">=0"),
               (r"SectorAddress addr;", "struct SectorAddress addr;", 1),
               (r"const auto sectors_per_side\b", "const unsigned long sectors_per_side", ">=0"),
               (r"static_cast<unsigned long>\(", "(unsigned long)(", ">=0"),
               (r"static_cast<unsigned char>\(", "(unsigned char)(", ">=0"),
               (r"std::vector<Sector>::const_iterator it = find_sector\(addr\);", "size_t it = HfeAdapter_find_sector(self, &addr);", 1),
               (r"it != sectors_\.cend\(\)", "it != self->sectors_n", 1),
               (r"DFS::SectorBuffer buf;", "SectorBuffer buf;", 1), (COPY256[0], COPY256[1], 1), (RET_BUF[0], RET_BUF[1], 1)]})

# ---- track.cc: SectorAddress comparison operators --------------------------------------------------------------------
SA_PRE = "#define cylinder (self->cylinder)\n#define head (self->head)\n#define record (self->record)\n"
SA_POST = "#undef cylinder\n#undef head\n#undef record\n"
add({"name": "SectorAddress_lt", "file": "dfs/track.cc", "anchor": r"bool SectorAddress::operator<\(const SectorAddress& a\) const",
     "sig": "static bool SectorAddress_lt(const struct SectorAddress *self, const struct SectorAddress *a_)",
     "rules": [(r"a\.cylinder", "A_CYL", ">=0"), (r"a\.head", "A_HEAD", ">=0"), (r"a\.record", "A_REC", ">=0"),
               (r"\bcylinder\b", "self->cylinder", ">=0"), (r"\bhead\b", "self->head", ">=0"), (r"\brecord\b", "self->record", ">=0"),
               (r"A_CYL", "a_->cylinder", ">=0"), (r"A_HEAD", "a_->head", ">=0"), (r"A_REC", "a_->record", ">=0")]})
add({"name": "SectorAddress_eq", "file": "dfs/track.cc", "anchor": r"bool SectorAddress::operator==\(const SectorAddress& a\) const",
     "sig": "static bool SectorAddress_eq(const struct SectorAddress *self, const struct SectorAddress *a_)",
     "rules": [(r"\*this < a", "SectorAddress_lt(self, a_)", ">=0"), (r"a < \*this", "SectorAddress_lt(a_, self)", ">=0")]})
