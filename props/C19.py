# C19 -- behaviour does not depend on whether assertions are compiled in
import sys, os
sys.path.insert(0, os.path.dirname(os.path.abspath(__file__)))
import basic_common as B

def jobs(tier):
    js = []
    # the SAME contracts are enforced on both configurations; the contracts determine stdout events and
    # return values, so both configurations satisfying them gives equal observable behaviour wherever the
    # assertions hold.  In the assertions-on configuration each assert() is also an obligation.
    for cfg in (B.CFG_NDEBUG, B.CFG_ASSERT):
        for d in range(6):
            t = "quick" if d == 2 else "thorough"       # ARM: extension maps (assert(extension_map[uch] != NULL))
            js += B.line_level(Job, d, cfg, t)
            js.append(B.framing(Job, d, cfg, t))
            if cfg is B.CFG_NDEBUG:
                js.append(B.table(Job, d, cfg, "thorough" if d != 0 else "quick"))
        js.append(B.set_dialect(Job, cfg))
        js.append(B.wrapped_main(Job, cfg))      # the default dialect is set in both configurations
        js.append(B.real_main(Job, cfg))
    try:
        import dfs_common as D
        js += D.c19_jobs(Job, tier)
    except ImportError:
        pass
    return js

META = {
    "trusted_base": B.BASIC_TRUSTED,
    "assumptions": [],
    "outside": ["build_mapping with its own assert()s enabled: the L1 table job exceeds 14 GB in the assertions-on configuration (undecided there; its asserts have no side effects: clang-tidy supporting fact)", "functions outside the verified set (their asserts are only covered by the clang-tidy bugprone-assert-side-effect supporting fact)"],
    "explanation": "every harness is run with and without -DNDEBUG against the same contracts",
}
