# C04 -- sector-dump containers map (drive, track, sector) to the documented offset
import sys, os
sys.path.insert(0, os.path.dirname(os.path.abspath(__file__)))
import dfs_common as D

def jobs(tier):
    js = D.fileio_jobs(Job)
    js += D.c04_extra(Job, tier) if hasattr(D, "c04_extra") else []
    return js

META = {
    "trusted_base": D.DFS_TRUSTED,
    "assumptions": [],
    "outside": ["probe_geometry / make_candidate_list candidate selection (std::vector, std::function, min_element with lambdas): which geometry is chosen is not proved, only that every selectable geometry maps correctly"],
    "explanation": "FileView::read_block against the documented position formula; FilePresentedBlockwise byte offset 256*lba",
}
