# C04 -- sector-dump containers map (drive, track, sector) to the documented offset
import sys, os
sys.path.insert(0, os.path.dirname(os.path.abspath(__file__)))
import dfs_common as D

def jobs(tier):
    js = D.fileio_jobs(Job)
    js += D.c04_extra(Job, tier) if hasattr(D, "c04_extra") else []
    return js

META = {
    "trusted_base": D.DFS_TRUSTED,
    "assumptions": [],
    "outside": ["filter_formats / std::min_element plumbing of probe_geometry and the candidate loops of make_candidate_list (the three decisions of probe_geometry are under contract in C13, the name hints in C10)"],
    "explanation": "FileView::read_block against the documented position formula; FilePresentedBlockwise byte offset 256*lba, a sector only for a full 256-byte read; view construction of non-interleaved / interleaved / MMB containers; one drive configuration per view in order (unformatted views included, never probed); dump-sector accepts exactly the decimal numbers 0..limit and addresses sector t*S+s",
}
