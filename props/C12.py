# C12 -- dfs writes only where it was told to and never alters an image
import sys, os
sys.path.insert(0, os.path.dirname(os.path.abspath(__file__)))
import dfs_common as D

def jobs(tier):
    return D.extract_jobs(Job) + (D.c12_extra(Job, tier) if hasattr(D, "c12_extra") else []) + D.openmode_jobs(Job)

META = {
    "trusted_base": D.DFS_TRUSTED + ["std::string operations of the name construction are modelled on strings of at most 15 characters (models/dfs_model.h cstr_*)"],
    "assumptions": [],
    "outside": ["\"image byte-identical afterwards\" / \"other commands create no files\": decided only as far as (a) the two places an image file is opened use read-only modes (under contract) and (b) the list of places where dfs opens or creates any file is the expected one (a mechanical inventory of dfs/*.cc, *.h made on every run: a different list makes the check undecided, exit 2); what the C++ library does with those modes is assumed"],
    "explanation": "for all 8+8 catalogue name bytes and any current directory: the host file created by extract-files is dest_dir + base with base non-empty, without '/', not '.' or '..'; otherwise the entry is refused with a diagnostic",
}
