# C13 -- file-system variant and geometry are identified from the on-disc markers only
import sys, os
sys.path.insert(0, os.path.dirname(os.path.abspath(__file__)))
import dfs_common as D

def jobs(tier):
    return D.ident_jobs(Job) + (D.c13_extra(Job, tier) if hasattr(D, "c13_extra") else [])

META = {
    "trusted_base": D.DFS_TRUSTED + ["std::all_of over 8 bytes with an equality lambda is rewritten to bytes_all_equal() (rule)"],
    "assumptions": ["Opus volume table: nothing is stated about slots that follow an absent one (the repository does not say whether DDOS allows such tables)"],
    "outside": ["probe_geometry / make_candidate_list (lambdas over std::vector<ImageFileFormat>, min_element)", "the decision structure of smells_like_opus_ddos (try/catch, per-volume Volume and Catalog objects; the OpusDiscCatalogue constructor it relies on IS under contract)", "has_valid_dfs_catalog (CatalogFragment::valid itself, header checks and entry loop, IS under contract; get_entry_at_offset is a model)"],
    "explanation": "HDFS flag bit; Watford <=> sector 2 readable, 8 x 0xAA, no catalogued file with 10-bit start sector 2 (the only sector it reads is sector 2); probe_format: HDFS, else Watford, else Opus DDOS, else Acorn DFS (smells_like_acorn_dfs: no HDFS bit, not Watford, no Opus table, valid catalogue), each with the sector count that variant defines from sector 1 as read; the Opus and catalogue-validity probes are unconstrained models there",
}
