# C14 -- free, space, sector-map, extract-unused agree with the catalogue and each other
import sys, os
sys.path.insert(0, os.path.dirname(os.path.abspath(__file__)))
import dfs_common as D

def jobs(tier):
    return D.free_jobs(Job) + [D.last_sector_job(Job)] + (D.c14_extra(Job, tier) if hasattr(D, "c14_extra") else []) + D.free_jobs(Job, D.CFG_ASSERT, "thorough")

META = {
    "trusted_base": D.DFS_TRUSTED + ["the used/free computation is a statement region of CommandFree::invoke (engine/cxx2c.py region extraction); its output lambda, locale and stream-flag statements are dropped"],
    "assumptions": ["catalogue total <= 2047 sectors (11 bits incl. HDFS), at most 62 entries"],
    "outside": ["the nested entry loops of space that fix the order of the runs (std::vector<std::vector<CatalogEntry>>); SectorMap itself (std::map)", "Opus volumes: `used` of an empty volume is the catalogue size of the format (2), as before"],
    "explanation": "free: files used+free = 31/62, sectors used+free = total, used = max(catalogue sectors, one past the highest sector of any non-empty file); extract-unused: one write_span per maximal run of unowned sectors, each sector written whole in order; map_sectors labels exactly [start, start+ceil(len/256)) per file; space: run after a file starts at start+ceil(len/256), first run after the catalogue's data-area sectors, next file = last entry of the next non-empty catalogue; disc_sector_count = the catalogue's total; total sectors 11 bits on Watford DFS",
}
