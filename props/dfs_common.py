"""Job builders for the dfs/ properties (extracted C++ -> C, DESIGN.md 2.2)."""
import os, sys
sys.path.insert(0, os.path.dirname(os.path.abspath(__file__)))
from dfs_specs import SPECS

CFG_NDEBUG = ("ndebug", ["NDEBUG"])
CFG_ASSERT = ("assert", [])

CATALOG_GROUP = ["sector_count", "CatalogEntry_metadata_byte", "CatalogEntry_metadata_word", "CatalogEntry_load_address",
                 "CatalogEntry_exec_address", "CatalogEntry_file_length", "CatalogEntry_start_sector",
                 "CatalogEntry_directory", "CatalogEntry_is_locked", "CatalogEntry_last_sector",
                 "CatalogEntry_visit_file_body_piecewise", "sign_extend", "VolumeAccess_read_block"]


def ext(names):
    return [SPECS[n] for n in names]


def cat_job(Job, name, entry, enforce, cfg=CFG_NDEBUG, replace=(), loops=False, tier="quick", cover=False, cbmc=()):
    return Job("D_%s_%s" % (name, cfg[0]), "harness/dfs_catalog.c", entry, enforce=enforce, replace=list(replace),
               loops=loops, defines=list(cfg[1]), extract=ext(CATALOG_GROUP), tier=tier, cover=cover, cbmc=list(cbmc))


ACCESSORS = ["CatalogEntry_metadata_byte", "CatalogEntry_metadata_word", "CatalogEntry_load_address",
             "CatalogEntry_exec_address", "CatalogEntry_file_length", "CatalogEntry_start_sector"]


def field_jobs(Job, cfg=CFG_NDEBUG, tier="quick"):
    js = [cat_job(Job, "metadata_byte", "h_metadata_byte", ["CatalogEntry_metadata_byte"], cfg, tier=tier),
          cat_job(Job, "metadata_word", "h_metadata_word", ["CatalogEntry_metadata_word"], cfg, tier=tier)]
    for f in ("load_address", "exec_address", "file_length", "start_sector"):
        js.append(cat_job(Job, f, "h_" + f, ["CatalogEntry_" + f], cfg,
                          replace=["CatalogEntry_metadata_byte", "CatalogEntry_metadata_word"], tier=tier))
    js.append(cat_job(Job, "directory", "h_directory", ["CatalogEntry_directory"], cfg, tier=tier))
    js.append(cat_job(Job, "is_locked", "h_is_locked", ["CatalogEntry_is_locked"], cfg, tier=tier))
    return js


def last_sector_job(Job, cfg=CFG_NDEBUG, tier="quick"):
    return cat_job(Job, "last_sector", "h_last_sector", ["CatalogEntry_last_sector"], cfg,
                   replace=["CatalogEntry_start_sector", "CatalogEntry_file_length", "sector_count"], tier=tier)


def sector_count_job(Job, cfg=CFG_NDEBUG, tier="quick"):
    return cat_job(Job, "sector_count", "h_sector_count", ["sector_count"], cfg, tier=tier)


def visit_job(Job, cfg=CFG_NDEBUG, tier="quick"):
    return cat_job(Job, "visit_file_body", "h_visit", ["CatalogEntry_visit_file_body_piecewise"], cfg,
                   replace=["CatalogEntry_start_sector", "CatalogEntry_file_length", "CatalogEntry_last_sector"],
                   loops=True, tier=tier, cover=True)


def sign_extend_job(Job, cfg=CFG_NDEBUG, tier="quick"):
    return cat_job(Job, "sign_extend", "h_sign_extend", ["sign_extend"], cfg, tier=tier, cover=True)


def volume_read_job(Job, cfg=CFG_NDEBUG, tier="quick"):
    return cat_job(Job, "volume_read_block", "h_volume_read_block", ["VolumeAccess_read_block"], cfg, tier=tier, cover=True)


FILEIO_GROUP = ["safe_unsigned_multiply_ul", "FileView_read_block", "FilePresentedBlockwise_read_block"]


def fio_job(Job, name, entry, enforce, cfg=CFG_NDEBUG, replace=(), tier="quick", cover=True, cbmc=(), timeout=900):
    return Job("D_%s_%s" % (name, cfg[0]), "harness/dfs_fileio.c", entry, enforce=enforce, replace=list(replace),
               defines=list(cfg[1]), extract=ext(FILEIO_GROUP), tier=tier, cover=cover, cbmc=list(cbmc), timeout=timeout)


# (take, leave) pairs the view constructors can produce: interleaved .dsd/.ddd take = leave = S;
# non-interleaved take = C*S (one whole side), leave = 0; MMB slots take = 800 (80x10), leave = 0
GEOMETRIES = [(10, 10), (16, 16), (18, 18)] + [(c * s, 0) for c in (35, 40, 80) for s in (10, 16, 18)]


def fileio_jobs(Job, cfg=CFG_NDEBUG, tier="quick"):
    js = [fio_job(Job, "safe_mul", "h_safe_mul", ["safe_unsigned_multiply_ul"], cfg, tier=tier),
          fio_job(Job, "blockwise_read_block", "h_blockwise", ["FilePresentedBlockwise_read_block"], cfg, tier=tier,
                  cbmc=["--unwindset", "bytevec_copy.0:257", "--unwinding-assertions"])]
    js[0].solver = "cvc5"
    for i, (take, leave) in enumerate(GEOMETRIES):
        j = Job("D_fileview_read_block_%d_%d_%s" % (take, leave, cfg[0]), "harness/dfs_fileio.c", "h_fileview",
                enforce=["FileView_read_block"], replace=["safe_unsigned_multiply_ul"],
                defines=list(cfg[1]) + ["VERIF_TAKE=%du" % take, "VERIF_LEAVE=%du" % leave],
                extract=ext(FILEIO_GROUP), tier=(tier if i in (0, 1, 7) else "thorough"), cover=(i == 0))
        js.append(j)
    return js


IDENT_GROUP = ["smells_like_hdfs", "get_dfs_sector_count", "get_hdfs_sector_count", "smells_like_watford", "smells_like_acorn_dfs", "probe_format"]


def ident_jobs(Job, cfg=CFG_NDEBUG, tier="quick"):
    def J(name, entry, enforce, **kw):
        return Job("D_%s_%s" % (name, cfg[0]), "harness/dfs_identify.c", entry, enforce=enforce, defines=list(cfg[1]),
                   extract=ext(IDENT_GROUP), tier=tier, **kw)
    return [J("smells_like_hdfs", "h_hdfs", ["smells_like_hdfs"]),
            J("get_dfs_sector_count", "h_dfs_count", ["get_dfs_sector_count"]),
            J("get_hdfs_sector_count", "h_hdfs_count", ["get_hdfs_sector_count"]),
            J("smells_like_watford", "h_watford", ["smells_like_watford"], loops=True, cover=True),
            J("smells_like_acorn_dfs", "h_acorn", ["smells_like_acorn_dfs"], replace=["smells_like_watford"]),
            J("probe_format", "h_probe_format", ["probe_format"],
              replace=["smells_like_hdfs", "smells_like_watford", "smells_like_acorn_dfs", "get_dfs_sector_count", "get_hdfs_sector_count"], cover=True)]


STORAGE_GROUP = ["SurfaceSelector_opposite_surface", "SurfaceSelector_corresponding_side_of_next_device",
                 "SurfaceSelector_next", "SurfaceSelector_prev", "check_sequence_fits"]


def storage_jobs(Job, cfg=CFG_NDEBUG, tier="quick"):
    def J(name, entry, enforce, **kw):
        return Job("D_%s_%s" % (name, cfg[0]), "harness/dfs_storage.c", entry, enforce=enforce, defines=list(cfg[1]),
                   extract=ext(STORAGE_GROUP + ["connect_drives"]), tier=tier, **kw)
    return [J("opposite_surface", "h_opposite", ["SurfaceSelector_opposite_surface"]),
            J("next_device", "h_next_device", ["SurfaceSelector_corresponding_side_of_next_device"]),
            J("surface_next", "h_next", ["SurfaceSelector_next"]),
            J("surface_prev", "h_prev", ["SurfaceSelector_prev"]),
            J("check_sequence_fits", "h_fits", ["check_sequence_fits"], loops=True, cover=True,
              replace=["SurfaceSelector_opposite_surface", "SurfaceSelector_corresponding_side_of_next_device", "SurfaceSelector_prev"])]


FREE_GROUP = ["sector_count", "CatalogEntry_metadata_byte", "CatalogEntry_metadata_word", "CatalogEntry_file_length",
              "CatalogEntry_start_sector", "free_compute"]


def free_jobs(Job, cfg=CFG_NDEBUG, tier="quick"):
    return [Job("D_free_compute_%s" % cfg[0], "harness/dfs_free.c", "h_free", enforce=["free_compute"],
                replace=["CatalogEntry_file_length", "CatalogEntry_start_sector"], loops=True,
                defines=list(cfg[1]), extract=ext(FREE_GROUP), tier=tier, cover=True, solver="cadical")]


AFSP_GROUP = ["afsp_up", "afsp_down", "wildcard_char_to_ere"]


def afsp_jobs(Job, cfg=CFG_NDEBUG, tier="quick"):
    def J(name, entry, enforce, **kw):
        return Job("D_%s_%s" % (name, cfg[0]), "harness/dfs_afsp.c", entry, enforce=enforce, defines=list(cfg[1]),
                   extract=ext(AFSP_GROUP), tier=tier, **kw)
    return [J("afsp_up", "h_up", ["afsp_up"]), J("afsp_down", "h_down", ["afsp_down"]),
            J("wildcard_char_to_ere", "h_wild", ["wildcard_char_to_ere"], replace=["afsp_up", "afsp_down"], cover=True)]


EXTRACT_GROUP = ["byte_to_ascii7", "CatalogEntry_directory", "CatalogEntry_name", "extract_files_basename"]


def extract_jobs(Job, cfg=CFG_NDEBUG, tier="quick"):
    uw = ["--unwindset", "CatalogEntry_name.0:8,CatalogEntry_name_wrapped_for_contract_checking.0:8,cstr_rtrim.0:16,cstr_dir_dot_name.0:8,cstr_has_char.0:16,cstr_is.0:4",
          "--unwinding-assertions"]
    def J(name, entry, enforce, **kw):
        return Job("D_%s_%s" % (name, cfg[0]), "harness/dfs_extract.c", entry, enforce=enforce, defines=list(cfg[1]),
                   extract=ext(EXTRACT_GROUP), tier=tier, cbmc=uw, **kw)
    return [J("catalog_entry_name", "h_name", ["CatalogEntry_name"], cover=True),
            J("extract_files_basename", "h_basename", ["extract_files_basename"], cover=True)]


HXC_GROUP = ["hxc_le_word", "hxc_le_quad", "hxc_read_and_verify_header", "hxc_get_track_metadata", "hxc_check_supported", "hxc_side_loop", "hxc_compute_geometry"]


def hxc_jobs(Job, cfg=CFG_NDEBUG, tier="quick"):
    def J(name, entry, enforce, **kw):
        return Job("D_%s_%s" % (name, cfg[0]), "harness/dfs_hxcmfm.c", entry, enforce=enforce, defines=list(cfg[1]),
                   extract=ext(HXC_GROUP), tier=tier, **kw)
    return [J("hxc_le_word", "h_le_word", ["hxc_le_word"]), J("hxc_le_quad", "h_le_quad", ["hxc_le_quad"]),
            J("hxc_header", "h_header", ["hxc_read_and_verify_header"], cover=True,
              cbmc=["--unwindset", "bytes_copy7.0:8,memcmp.0:8", "--unwinding-assertions"]),
            J("hxc_track_metadata", "h_track_metadata", ["hxc_get_track_metadata"], loops=True, cover=True),
            J("hxc_check_supported", "h_check_supported", ["hxc_check_supported"]), J("hxc_side_loop", "h_side_loop", ["hxc_side_loop"], loops=True),
            J("hxc_compute_geometry", "h_compute_geometry", ["hxc_compute_geometry"], loops=True)]


TRACK_GROUP = ["crc_cycle", "CRC16Base_update", "CRC16Base_update_bit", "reverse_bit_order", "BitStream_raw_pos",
               "BitStream_rawbit", "BitStream_getbit", "BitStream_size", "mfm_read_byte",
               "track_constants", "BitStream_scan_for", "copy_mfm_bytes", "CCITT_CRC16_init", "CRC16Base_get", "check_crc_with_a1s",
               "decode_sector_address_and_size", "fm_read_byte", "copy_fm_bytes", "fm_get_crc", "fm_find_record_address_mark"]


def track_J(Job, cfg, name, entry, enforce, tier="quick", **kw):
    kw.setdefault("solver", "portfolio")
    return Job("D_%s_%s" % (name, cfg[0]), "harness/dfs_track.c", entry, enforce=enforce, defines=list(cfg[1]),
               extract=ext(TRACK_GROUP), tier=tier, **kw)


def crc_jobs(Job, cfg=CFG_NDEBUG, tier="quick"):
    js = [track_J(Job, cfg, "crc_cycle", "h_crc_cycle", ["crc_cycle"], tier),
          track_J(Job, cfg, "crc_update_bit", "h_crc_update_bit", ["CRC16Base_update_bit"], tier, replace=["crc_cycle"])]
    # update(): loop contract against the prefix-CRC table; blocks of up to 24 bytes in the quick tier, up to the
    # longest block the decoders pass (264 bytes) in the thorough tier (the table, not the loop, is what is bounded)
    for n, t in ((24, tier), (264, "thorough")):
        c2 = (cfg[0] + "_max%d" % n, list(cfg[1]) + ["CRC_MAXLEN=%d" % n])
        js.append(track_J(Job, c2, "crc_update", "h_crc_update", ["CRC16Base_update"], t, replace=["crc_cycle"], loops=True,
                          timeout=2400,
                          cbmc=["--unwindset", "h_fill_crc.0:%d" % (n + 2), "--unwinding-assertions"]))
    return js


def bitstream_jobs(Job, cfg=CFG_NDEBUG, tier="quick"):
    js = [track_J(Job, cfg, "reverse_bit_order", "h_reverse", ["reverse_bit_order"], tier)]
    for stride in (1, 2):
        c2 = (cfg[0] + "_stride%d" % stride, list(cfg[1]) + ["VERIF_STRIDE=%d" % stride])
        js += [track_J(Job, c2, "bitstream_raw_pos", "h_raw_pos", ["BitStream_raw_pos"], tier),
               track_J(Job, c2, "bitstream_rawbit", "h_rawbit", ["BitStream_rawbit"], tier),
               track_J(Job, c2, "bitstream_size", "h_size", ["BitStream_size"], tier),
               track_J(Job, c2, "bitstream_getbit", "h_getbit", ["BitStream_getbit"], tier, replace=["BitStream_raw_pos", "BitStream_rawbit"]),
               track_J(Job, (c2[0], c2[1] + ["VERIF_TRACK_UNBOUNDED"]), "mfm_read_byte", "h_mfm_read_byte", ["mfm_read_byte"], tier, replace=["BitStream_getbit", "BitStream_size"], cover=True, loops=True, solver="portfolio", timeout=1200)]
    return js


DFS_TRUSTED = [
    "engine/cxx2c.py: the verified text is the function body extracted from /repo on every run; rules fired and SHA-256 of the source range are in coverage.jobs[].extracted",
    "models/dfs_model.h: DataAccess::read_block as a deterministic partial function with a call log; std::function visitors as monitored calls; "
    "exceptions as ghost state (message text dropped); ldiv per C11 7.22.6.2",
    "contracts/dfs_types.h: C mirrors of the C++ class fields touched by the extracted code",
    "CBMC 6.11 dfcc contract instrumentation and MiniSat; machine integers are bit-vectors",
]


def c11_jobs(Job, tier):
    return []


# ---- C19 supporting static fact: no assert() outside the functions verified in both configurations has an argument that can
# change state.  Syntactic scan of every assert( in basic/ and dfs/ (tests excluded): no assignment operator, no ++/--, and
# only calls of the accessors listed here (all const / pure by inspection of the pinned tree).  Anything else makes C19
# undecided (exit 2) for the run -- unless it is caught as a violation by a both-configuration job, which takes precedence.
ASSERT_PURE_CALLS = {"Track::reverse_bit_order", "catalogs.size", "crc.get", "crc3.get", "dest_dir.back", "disc_format", "entries.size", "entry.file_length",
                     "fs_.get", "full_wildcard.size", "got.size", "h.first.size", "int>::max", "is_drive_connected", "it->second->drive", "loc.start_sector",
                     "name.empty", "raw_data.size", "rx.valid", "sector_count_type>::max", "sectors_per_track.has_value", "size", "sizeof", "std::is_sorted",
                     "strlen", "track_sectors.begin", "track_sectors.end"}


def assert_purity_precheck(repo):
    import glob, re
    files = [f for pat in ("basic/*.c", "basic/*.h", "dfs/*.cc", "dfs/*.h") for f in glob.glob(os.path.join(repo, pat)) if not os.path.basename(f).startswith("test")]
    bad = []
    for f in sorted(files):
        t = open(f, errors="replace").read()
        for m in re.finditer(r"(?<![\w_])assert\s*\(", t):
            i, d = m.end(), 1
            while d and i < len(t):
                d += (t[i] == "(") - (t[i] == ")")
                i += 1
            arg = t[m.end():i - 1]
            why = []
            if re.search(r"(?<![=!<>])=(?!=)", arg):
                why.append("assignment")
            if re.search(r"\+\+|--", arg):
                why.append("++/--")
            for c in re.findall(r"([A-Za-z_][\w:.>-]*)\s*\(", arg):
                if c not in ASSERT_PURE_CALLS:
                    why.append("call of " + c)
            if why:
                bad.append("%s:%d (%s)" % (os.path.relpath(f, repo), t.count("\n", 0, m.start()) + 1, ", ".join(why)))
        for m in re.finditer(r"^[ \t]*#[ \t]*(?:if|ifdef|ifndef|elif)\b[^\n]*\bNDEBUG\b", t, re.M):
            bad.append("%s:%d (code compiled only with or only without NDEBUG)" % (os.path.relpath(f, repo), t.count("\n", 0, m.start()) + 1))
    if bad:
        return "assert() with an argument that may change state (not on the list of pure accessors): %s" % "; ".join(bad[:8])
    return None


def c19_jobs(Job, tier):
    js = []
    for cfg in (CFG_NDEBUG, CFG_ASSERT):
        js.append(last_sector_job(Job, cfg))
        js.append(sector_count_job(Job, cfg))
        js.append(visit_job(Job, cfg))
        js += colstream_jobs(Job, cfg) + hfegeom_jobs(Job, cfg) + [j for j in space_jobs(Job, cfg) if "add_initial_gap" in j.name]
        js += [j for j in hfelut_jobs(Job, cfg) if "decode_header" in j.name]
        js += trackcheck_jobs(Job, cfg)
        if cfg is CFG_ASSERT:
            # every other extracted function that contains an assert(): the same contracts, assertions compiled in
            js += [j for j in fileio_jobs(Job, cfg) if "presented_blockwise" in j.name or "blockwise" in j.name]
            js += free_jobs(Job, cfg) + opus_jobs(Job, cfg) + write_span_jobs(Job, cfg)
            js += [j for j in hxc_jobs(Job, cfg) if "header" in j.name]
            js += [j for j in crc_jobs(Job, cfg) if j.tier == "quick"]
            js += [j for j in destdir_jobs(Job, cfg) if "make_name" in j.name]
            js += [j for j in mfm_decoder_jobs(Job, cfg) if "mfm_read_byte" in j.name] + [j for j in bitstream_jobs(Job, cfg) if "mfm_read_byte" in j.name]
    js[0].precheck = assert_purity_precheck
    return js


# ---- C04 extras: MMB constructor, view parameters of the sector-dump containers ------------------------------
def mmb_jobs(Job, cfg=CFG_NDEBUG, tier="quick"):
    return [Job("D_mmb_ctor_%s" % cfg[0], "harness/dfs_mmb.c", "h_mmb", enforce=["MmbFile_ctor"], loops=True,
                defines=list(cfg[1]), extract=ext(["sector_count", "MmbFile_ctor"]), tier=tier, cover=True)]


SDF_GROUP = ["sector_count", "Geometry_total_sectors", "noninterleaved_views", "interleaved_views"]


def sdf_jobs(Job, cfg=CFG_NDEBUG, tier="quick"):
    def J(name, entry, enforce, **kw):
        return Job("D_%s_%s" % (name, cfg[0]), "harness/dfs_sdf.c", entry, enforce=enforce, defines=list(cfg[1]),
                   extract=ext(SDF_GROUP), tier=tier, solver="portfolio", **kw)
    return [J("geometry_total_sectors", "h_total_sectors", ["Geometry_total_sectors"], replace=["sector_count"]),
            J("noninterleaved_views", "h_noninterleaved", ["noninterleaved_views"], replace=["Geometry_total_sectors", "sector_count"], loops=True, cover=True),
            J("interleaved_views", "h_interleaved", ["interleaved_views"], replace=["Geometry_total_sectors"], cover=True)]


def c04_extra(Job, tier):
    # the geometry a container is attached with comes from probe_geometry: the sector count it starts from and its three decisions
    return mmb_jobs(Job) + sdf_jobs(Job) + dump_jobs(Job) + viewfile_jobs(Job) + hints_jobs(Job) + [j for j in ident_jobs(Job) if "sector_count" in j.name] + geometry_jobs(Job)


# ---- C16 extra: connect_drives ---------------------------------------------------------------------------------
def c16_extra(Job, tier):
    cfg = CFG_NDEBUG
    return [Job("D_connect_drives_%s" % cfg[0], "harness/dfs_storage.c", "h_connect", enforce=["connect_drives"],
                replace=["check_sequence_fits", "SurfaceSelector_next"], loops=True, defines=list(cfg[1]),
                extract=ext(STORAGE_GROUP + ["connect_drives"]), tier="quick", cover=True, solver="portfolio", timeout=900)] + viewfile_jobs(Job) + mmb_jobs(Job) + mainopt_jobs(Job) + selector_jobs(Job) + showconfig_jobs(Job)


# ---- C17 extra: Opus volume extents ----------------------------------------------------------------------------
OPUS_GROUP = ["VolumeLocation_set_next_sector", "VolumeLocation_len", "VolumeLocation_start_sector", "opus_volume_extents",
              "sector_count", "Geometry_total_sectors", "safe_unsigned_multiply_u", "VolumeLocation_ctor", "opus_ctor_head", "opus_volume_table", "opus_disc_map_sectors"]


def opus_jobs(Job, cfg=CFG_NDEBUG, tier="quick"):
    def J(name, entry, enforce, **kw):
        return Job("D_%s_%s" % (name, cfg[0]), "harness/dfs_opus.c", entry, enforce=enforce, defines=list(cfg[1]),
                   extract=ext(OPUS_GROUP), tier=tier, **kw)
    return [J("volume_set_next_sector", "h_set_next", ["VolumeLocation_set_next_sector"]),
            J("volume_len", "h_len", ["VolumeLocation_len"]), J("volume_start_sector", "h_start", ["VolumeLocation_start_sector"]),
            J("opus_volume_extents", "h_extents", ["opus_volume_extents"], replace=["VolumeLocation_set_next_sector", "VolumeLocation_start_sector"], loops=True, solver="portfolio"),
            J("volume_location_ctor", "h_vl_ctor", ["VolumeLocation_ctor"]),
            J("opus_ctor_head", "h_ctor_head", ["opus_ctor_head"], replace=["Geometry_total_sectors"]),
            J("opus_volume_table", "h_table", ["opus_volume_table"], loops=True, solver="portfolio"),
            J("opus_disc_map_sectors", "h_disc_map", ["opus_disc_map_sectors"])]


def c17_extra(Job, tier):
    return opus_jobs(Job) + fileio_jobs(Job)[1:4] + volctor_jobs(Job) + mmb_jobs(Job)     # an MMB slot's view ends where the slot ends


# ---- C01 extra: renderings (ostream event model) --------------------------------------------------------------
def render_jobs(Job, cfg=CFG_NDEBUG, tier="quick"):
    return [Job("D_hexdump_bytes_%s" % cfg[0], "harness/dfs_render.c", "h_hexdump", enforce=["hexdump_bytes"], loops=True,
                defines=list(cfg[1]), extract=ext(["hexdump_bytes"]), tier=tier, cover=True, solver="portfolio", timeout=900)]


def listtype_jobs(Job, cfg=CFG_NDEBUG, tier="quick"):
    # the loops are closed by loop contracts (any number of iterations); BODY_MAX only sizes the model's byte arrays:
    # 4 KiB in the quick tier, the full 18-bit file length in the thorough tier
    def J(name, entry, enforce, cap, t):
        return Job("D_%s_%s_cap%d" % (name, cfg[0], cap), "harness/dfs_listtype.c", entry, enforce=enforce, loops=True,
                   defines=list(cfg[1]) + ["BODY_MAX=%dul" % cap], extract=ext(["list_body", "type_body"]), tier=t, cover=True,
                   solver="portfolio", timeout=1800)
    return [J("list_body", "h_list", ["list_body"], 4096, tier), J("type_body", "h_type", ["type_body"], 4096, tier),
            J("list_body", "h_list", ["list_body"], 1 << 18, "thorough"), J("type_body", "h_type", ["type_body"], 1 << 18, "thorough")]


def c01_extra(Job, tier):
    return render_jobs(Job) + listtype_jobs(Job) + [j for j in names_jobs(Job) if "has_name" in j.name] + bodycmd_jobs(Job) + fsp_jobs(Job) + catfind_jobs(Job)


# ---- C02 extra: the info line ------------------------------------------------------------------------------------
INFO_GROUP = ["sector_count", "byte_to_ascii7", "CatalogEntry_metadata_byte", "CatalogEntry_metadata_word", "CatalogEntry_load_address",
              "CatalogEntry_exec_address", "CatalogEntry_file_length", "CatalogEntry_start_sector", "CatalogEntry_directory",
              "CatalogEntry_is_locked", "CatalogEntry_name", "sign_extend", "info_line"]


def c02_extra(Job, tier):
    cfg = CFG_NDEBUG
    return [Job("D_info_line_%s" % cfg[0], "harness/dfs_info.c", "h_info_line", enforce=["info_line"], defines=list(cfg[1]),
                extract=ext(INFO_GROUP), tier="quick", solver="portfolio",
                cbmc=["--unwindset", "CatalogEntry_name.0:8", "--unwinding-assertions"])] + catsort_jobs(Job) + fragment_jobs(Job) + inf_jobs(Job) + titlecycle_jobs(Job)


# ---- write_span of extract-unused (C11 dfs half, C14) ---------------------------------------------------------------
def write_span_jobs(Job, cfg=CFG_NDEBUG, tier="quick"):
    return [Job("D_write_span_%s" % cfg[0], "harness/dfs_unused.c", "h_write_span", enforce=["write_span"], loops=True,
                defines=list(cfg[1]), extract=ext(["write_span"]), tier=tier, cover=True, solver="portfolio")]


def c11_jobs(Job, tier):            # noqa: F811  (replaces the placeholder above)
    return write_span_jobs(Job) + listtype_jobs(Job)[1:2]


def c14_extra(Job, tier):
    return write_span_jobs(Job) + space_jobs(Job) + spans_jobs(Job) + [j for j in fragment_jobs(Job) if "ctor" in j.name] + [j for j in volctor_jobs(Job) if "origin" in j.name or "map_sectors" in j.name] + sectormap_jobs(Job) + [j for j in opus_jobs(Job) if "disc_map" in j.name]


# ---- check_track_is_supported (C06 iii, C07) -------------------------------------------------------------------------
def trackcheck_jobs(Job, cfg=CFG_NDEBUG, tier="quick"):
    return [Job("D_check_track_is_supported_%s" % cfg[0], "harness/dfs_trackcheck.c", "h_trackcheck", enforce=["check_track_is_supported"],
                loops=True, defines=list(cfg[1]), extract=ext(["check_track_is_supported"]), tier=tier, cover=True, solver="portfolio")]


def c06_extra(Job, tier):
    return trackcheck_jobs(Job)


def c07_extra(Job, tier):
    return trackcheck_jobs(Job) + mmb_jobs(Job) + write_span_jobs(Job) + selector_jobs(Job) + [j for j in names_jobs(Job) if "less" in j.name] + [j for j in space_jobs(Job) if "start_sec" in j.name] + hfegeom_jobs(Job) + showtitles_jobs(Job) + osread_jobs(Job) + [j for j in catsort_jobs(Job) if "compare" in j.name] + [j for j in adapter_jobs(Job) if "read_block" in j.name] + [j for j in fragment_jobs(Job) if "valid_" in j.name] + [j for j in gz_jobs(Job) if "inflate_loop" in j.name] + [j for j in opus_jobs(Job) if "opus_ctor_head" in j.name or "opus_volume_table" in j.name or "location_ctor" in j.name] + [j for j in hfelut_jobs(Job) if "read_track" in j.name or "decode_header" in j.name]


# ---- destination directory / make_name (C12) ---------------------------------------------------------------------------
def destdir_jobs(Job, cfg=CFG_NDEBUG, tier="quick"):
    g = ["destdir_extract_unused", "destdir_extract_files", "make_name"]
    def J(name, entry, enforce):
        return Job("D_%s_%s" % (name, cfg[0]), "harness/dfs_destdir.c", entry, enforce=enforce, defines=list(cfg[1]),
                   extract=ext(g), tier=tier, solver="portfolio")
    return [J("destdir_extract_unused", "h_destdir_unused", ["destdir_extract_unused"]),
            J("destdir_extract_files", "h_destdir_files", ["destdir_extract_files"]),
            J("make_name", "h_make_name", ["make_name"])]


def c12_extra_open(Job, tier):
    return openmode_jobs(Job)


def c12_extra(Job, tier):
    return destdir_jobs(Job)


# ---- dfs main tail (C11 dfs half) ---------------------------------------------------------------------------------------
def main_tail_jobs(Job, cfg=CFG_NDEBUG, tier="quick"):
    return [Job("D_dfs_main_tail_%s" % cfg[0], "harness/dfs_main.c", "h_main_tail", enforce=["dfs_main_tail"], defines=list(cfg[1]),
                extract=ext(["dfs_main_tail", "dfs_main_help"]), tier=tier, cover=True),
            Job("D_dfs_main_help_%s" % cfg[0], "harness/dfs_main.c", "h_main_help", enforce=["dfs_main_help"], defines=list(cfg[1]),
                extract=ext(["dfs_main_tail", "dfs_main_help"]), tier=tier)]


def c11_jobs(Job, tier):            # noqa: F811
    # spans_jobs: extract-unused as a whole fails when any of its spans could not be written
    return write_span_jobs(Job) + listtype_jobs(Job)[1:2] + main_tail_jobs(Job) + extractwrite_jobs(Job) + inf_jobs(Job) + spans_jobs(Job)


# ---- gzip reader (C10 ii) ----------------------------------------------------------------------------------------------
def gz_jobs(Job, cfg=CFG_NDEBUG, tier="quick"):
    g = ["check_zlib_error_code", "gz_inflate_init", "gz_inflate_loop"]
    return [Job("D_gz_inflate_init_%s" % cfg[0], "harness/dfs_gz.c", "h_gz_init", enforce=["gz_inflate_init"], replace=["check_zlib_error_code"],
                defines=list(cfg[1]), extract=ext(g), tier=tier),
            Job("D_check_zlib_error_code_%s" % cfg[0], "harness/dfs_gz.c", "h_check_zlib", enforce=["check_zlib_error_code"],
                defines=list(cfg[1]), extract=ext(g), tier=tier),
            Job("D_gz_inflate_loop_%s" % cfg[0], "harness/dfs_gz.c", "h_gz_loop", enforce=["gz_inflate_loop"], replace=["check_zlib_error_code"],
                loops=True, defines=list(cfg[1]), extract=ext(g), tier=tier, cover=True, solver="portfolio")] + gzread_jobs(Job, cfg, tier) + hints_jobs(Job, cfg, tier) + osread_jobs(Job, cfg, tier)


# ---- flux adapters and PicTrack (C05 / C06 image-level clause) ----------------------------------------------------------
ADAPTER_GROUP = ["SectorAddress_lt", "SectorAddress_eq", "sector_count", "Geometry_total_sectors", "PicTrack_track_len", "HxcAdapter_read_block", "HfeAdapter_find_sector", "HfeAdapter_read_block"]


def adapter_jobs(Job, cfg=CFG_NDEBUG, tier="quick"):
    def J(name, entry, enforce, **kw):
        return Job("D_%s_%s" % (name, cfg[0]), "harness/dfs_adapters.c", entry, enforce=enforce, defines=list(cfg[1]),
                   extract=ext(ADAPTER_GROUP), tier=tier, solver="portfolio", **kw)
    uw = ["--unwindset", "h_all_256.0:66", "--unwinding-assertions"]
    return [J("pictrack_track_len", "h_track_len", ["PicTrack_track_len"]),
            J("sector_address_lt", "h_sa_lt", ["SectorAddress_lt"]),
            J("sector_address_eq", "h_sa_eq", ["SectorAddress_eq"], replace=["SectorAddress_lt"]),
            J("hxc_adapter_read_block", "h_hxc_read", ["HxcAdapter_read_block"], replace=["Geometry_total_sectors", "SectorAddress_eq"], loops=True, cover=True, cbmc=uw),
            Job("D_hfe_adapter_find_sector_%s" % cfg[0], "harness/dfs_adapters.c", "h_hfe_find", enforce=["HfeAdapter_find_sector"],
                replace=["SectorAddress_eq"], loops=True, defines=list(cfg[1]) + ["VERIF_FIND_ENFORCE"], extract=ext(ADAPTER_GROUP),
                tier=tier, solver="portfolio"),
            J("hfe_adapter_read_block", "h_hfe_read", ["HfeAdapter_read_block"], replace=["HfeAdapter_find_sector"], cover=True, cbmc=uw)]


def c05_extra(Job, tier):
    return adapter_jobs(Job) + copyhfe_jobs(Job) + hfelut_jobs(Job)


def c06_extra(Job, tier):            # noqa: F811
    return trackcheck_jobs(Job) + adapter_jobs(Job)[1:]


def gzread_jobs(Job, cfg=CFG_NDEBUG, tier="quick"):
    g = ["gz_read_fail", "DecompressedFile_read"]
    return [Job("D_gz_read_fail_%s" % cfg[0], "harness/dfs_gzread.c", "h_gz_read_fail", enforce=["gz_read_fail"],
                defines=list(cfg[1]), extract=ext(g), tier=tier),
            Job("D_decompressed_file_read_%s" % cfg[0], "harness/dfs_gzread.c", "h_gz_read", enforce=["DecompressedFile_read"],
                replace=["gz_read_fail"], defines=list(cfg[1]), extract=ext(g), tier=tier, cover=True)]


def colstream_jobs(Job, cfg=CFG_NDEBUG, tier="quick"):
    g = ["colstream_tab", "colstream_update_col"]
    return [Job("D_colstream_tab_%s" % cfg[0], "harness/dfs_colstream.c", "h_tab", enforce=["colstream_tab"],
                defines=list(cfg[1]), extract=ext(g), tier=tier),
            Job("D_colstream_update_col_%s" % cfg[0], "harness/dfs_colstream.c", "h_update_col", enforce=["colstream_update_col"],
                replace=["colstream_tab"], defines=list(cfg[1]), extract=ext(g), tier=tier)]


# ---- the MFM decoder (C06 first sentence) --------------------------------------------------------------------------
def mfm_decoder_jobs(Job, cfg=CFG_NDEBUG, tier="quick"):
    js = [track_J(Job, cfg, "crc_get", "h_crc_get", ["CRC16Base_get"], tier),
          track_J(Job, cfg, "crc_init", "h_crc_init", ["CCITT_CRC16_init"], tier),
          track_J(Job, cfg, "decode_sector_address", "h_decode_addr", ["decode_sector_address_and_size"], tier)]
    for stride in (1, 2):
        c2 = (cfg[0] + "_stride%d" % stride, list(cfg[1]) + ["VERIF_STRIDE=%d" % stride, "VERIF_TRACK_UNBOUNDED"] + os.environ.get("VERIF_XDEF", "").split())
        js += [track_J(Job, c2, "bitstream_scan_for", "h_scan_for", ["BitStream_scan_for"], tier, replace=["BitStream_raw_pos", "BitStream_rawbit"], loops=True),
               track_J(Job, (c2[0], c2[1] + ["CRC_MAXLEN=1035"]), "copy_mfm_bytes", "h_copy_mfm", ["copy_mfm_bytes"], tier, replace=["mfm_read_byte"], loops=True, cover=True, solver="portfolio", timeout=1200)]
    for stride in (1, 2):
        c3 = (cfg[0] + "_stride%d" % stride, list(cfg[1]) + ["VERIF_STRIDE=%d" % stride, "VERIF_TRACK_UNBOUNDED", "VERIF_MFM_STATE_MACHINE", "VERIF_CRC_ABSTRACT", "CRC_MAXLEN=1035"])
        js.append(Job("D_decode_mfm_track_%s" % c3[0], "harness/dfs_track.c", "h_decode_mfm", enforce=["decode_mfm_track"],
                      replace=["BitStream_size", "BitStream_scan_for", "copy_mfm_bytes", "check_crc_with_a1s", "decode_sector_address_and_size"],
                      loops=True, defines=c3[1], extract=ext(TRACK_GROUP + ["decode_mfm_track"]), tier=tier, cover=True, solver="portfolio", timeout=1200))
    for stride in (1, 2):
        c4 = (cfg[0] + "_stride%d" % stride, list(cfg[1]) + ["VERIF_STRIDE=%d" % stride, "VERIF_TRACK_UNBOUNDED"])
        js += [track_J(Job, c4, "fm_read_byte", "h_fm_read_byte", ["fm_read_byte"], tier, replace=["BitStream_getbit", "BitStream_size"], loops=True, cover=True, solver="portfolio", timeout=1200),
               track_J(Job, (c4[0], c4[1] + ["CRC_MAXLEN=1035"]), "copy_fm_bytes", "h_copy_fm", ["copy_fm_bytes"], tier, replace=["fm_read_byte"], loops=True, cover=True, solver="portfolio", timeout=1200),
               track_J(Job, c4, "fm_find_record_address_mark", "h_fm_find", ["fm_find_record_address_mark"], tier, replace=["BitStream_scan_for"], loops=True, cover=True)]
    for stride in (1, 2):
        c5 = (cfg[0] + "_stride%d" % stride, list(cfg[1]) + ["VERIF_STRIDE=%d" % stride, "VERIF_TRACK_UNBOUNDED", "VERIF_FM_STATE_MACHINE", "VERIF_CRC_ABSTRACT", "CRC_MAXLEN=1035"])
        js.append(Job("D_decode_fm_track_%s" % c5[0], "harness/dfs_track.c", "h_decode_fm", enforce=["decode_fm_track"],
                      replace=["BitStream_size", "BitStream_scan_for", "copy_fm_bytes", "fm_get_crc", "fm_find_record_address_mark", "decode_sector_address_and_size"],
                      loops=True, defines=c5[1], extract=ext(TRACK_GROUP + ["decode_fm_track"]), tier=tier, cover=True, solver="portfolio", timeout=1200))
    for n, t in ((27, tier), (264, "thorough")):
        c2 = (cfg[0] + "_max%d" % n, list(cfg[1]) + ["CRC_MAXLEN=%d" % n])
        js.append(track_J(Job, c2, "fm_get_crc", "h_fm_get_crc", ["fm_get_crc"], t, replace=["CRC16Base_update", "CRC16Base_get", "CCITT_CRC16_init"],
                          cover=True, timeout=2400, cbmc=["--unwindset", "h_fill_crc_from3.0:%d" % (n + 2), "--unwinding-assertions"]))
        js.append(track_J(Job, c2, "check_crc_with_a1s", "h_check_crc", ["check_crc_with_a1s"], t, replace=["CRC16Base_update", "CRC16Base_get", "CCITT_CRC16_init"],
                          cover=True, timeout=2400, cbmc=["--unwindset", "h_fill_crc.0:%d" % (n + 2), "--unwinding-assertions"]))
    return js


def dump_jobs(Job, cfg=CFG_NDEBUG, tier="quick"):
    g = ["dump_get_arg", "dump_sector_limits", "dump_sector_addr"]
    import native_replay
    return [Job("D_dump_get_arg_%s" % cfg[0], "harness/dfs_dump.c", "h_get_arg", enforce=["dump_get_arg"],
                defines=list(cfg[1]), extract=ext(g), tier=tier, cover=True, replay=native_replay.replay_dump_get_arg),
            Job("D_dump_sector_addr_%s" % cfg[0], "harness/dfs_dump.c", "h_sector_addr", enforce=["dump_sector_addr"],
                defines=list(cfg[1]), extract=ext(g), tier=tier, solver="portfolio"),
            Job("D_dump_sector_limits_%s" % cfg[0], "harness/dfs_dump.c", "h_dump_limits", enforce=["dump_sector_limits"],
                defines=list(cfg[1]), extract=ext(g), tier=tier)]


def selector_jobs(Job, cfg=CFG_NDEBUG, tier="quick"):
    g = ["SurfaceSelector_coerce_long", "SurfaceSelector_parse"]
    import native_replay
    return [Job("D_selector_coerce_%s" % cfg[0], "harness/dfs_selector.c", "h_coerce", enforce=["SurfaceSelector_coerce_long"],
                defines=list(cfg[1]), extract=ext(g), tier=tier, replay=native_replay.replay_selector),
            Job("D_selector_parse_%s" % cfg[0], "harness/dfs_selector.c", "h_parse", enforce=["SurfaceSelector_parse"],
                replace=["SurfaceSelector_coerce_long"], defines=list(cfg[1]), extract=ext(g), tier=tier, cover=True)]


def viewfile_jobs(Job, cfg=CFG_NDEBUG, tier="quick"):
    return [Job("D_viewfile_connect_drives_%s" % cfg[0], "harness/dfs_viewfile.c", "h_viewfile_connect", enforce=["ViewFile_connect_drives"],
                loops=True, defines=list(cfg[1]), extract=ext(["ViewFile_connect_drives"]), tier=tier, cover=True)]


def fsp_jobs(Job, cfg=CFG_NDEBUG, tier="quick"):
    g = ["parse_dir_and_name", "fsp_drive_prefix"]
    uw = ["--unwindset", "cstr_substr.0:17", "--unwinding-assertions"]
    return [Job("D_parse_dir_and_name_%s" % cfg[0], "harness/dfs_fsp.c", "h_parse_dir_and_name", enforce=["parse_dir_and_name"],
                defines=list(cfg[1]), extract=ext(g), tier=tier, cbmc=uw),
            Job("D_fsp_drive_prefix_%s" % cfg[0], "harness/dfs_fsp.c", "h_drive_prefix", enforce=["fsp_drive_prefix"],
                defines=list(cfg[1]), extract=ext(g), tier=tier, cbmc=uw)]


def c15_extra(Job, tier):
    return fsp_jobs(Job) + names_jobs(Job) + prefix_jobs(Job) + mainopt_jobs(Job)[:1] + catfind_jobs(Job)


def catsort_jobs(Job, cfg=CFG_NDEBUG, tier="quick"):
    g = ["cat_mapdir", "cat_compare_entries"]
    return [Job("D_cat_mapdir_%s" % cfg[0], "harness/dfs_catsort.c", "h_cat_mapdir", enforce=["cat_mapdir"], defines=list(cfg[1]), extract=ext(g), tier=tier),
            Job("D_cat_compare_entries_%s" % cfg[0], "harness/dfs_catsort.c", "h_cat_compare", enforce=["cat_compare_entries"], replace=["cat_mapdir"],
                defines=list(cfg[1]), extract=ext(g), tier=tier)]


SPACE_GROUP = ["sector_count", "CatalogEntry_metadata_byte", "CatalogEntry_metadata_word", "CatalogEntry_start_sector", "CatalogEntry_file_length", "CatalogEntry_last_sector",
               "space_entry_gap", "space_start_sec_of_next", "Catalog_map_sectors", "Geometry_total_sectors", "FileSystem_disc_sector_count",
               "catalog_sectors_for_format", "data_sectors_reserved_for_catalog", "space_maybe_gap", "space_add_initial_gap"]


def space_jobs(Job, cfg=CFG_NDEBUG, tier="quick"):
    def J(name, entry, enforce, **kw):
        return Job("D_%s_%s" % (name, cfg[0]), "harness/dfs_space.c", entry, enforce=enforce, defines=list(cfg[1]), extract=ext(SPACE_GROUP), tier=tier, **kw)
    return [J("catalog_sectors_for_format", "h_cat_sectors", ["catalog_sectors_for_format"]),
            J("data_sectors_reserved_for_catalog", "h_reserved", ["data_sectors_reserved_for_catalog"], replace=["catalog_sectors_for_format"]),
            J("space_maybe_gap", "h_maybe_gap", ["space_maybe_gap"]),
            J("space_start_sec_of_next", "h_start_sec_of_next", ["space_start_sec_of_next"], replace=["CatalogEntry_start_sector"],
              cbmc=["--unwindset", "space_start_sec_of_next_wrapped_for_contract_checking.0:4,space_start_sec_of_next.0:4", "--unwinding-assertions"]),
            J("disc_sector_count", "h_disc_sector_count", ["FileSystem_disc_sector_count"], replace=["Geometry_total_sectors"], solver="portfolio"),
            J("space_entry_gap", "h_entry_gap", ["space_entry_gap"], replace=["space_maybe_gap", "CatalogEntry_last_sector", "CatalogEntry_start_sector", "CatalogEntry_file_length"]),
            J("catalog_map_sectors", "h_map_sectors", ["Catalog_map_sectors"], replace=["CatalogEntry_last_sector", "CatalogEntry_start_sector", "CatalogEntry_file_length", "sector_count"], loops=True),
            J("space_add_initial_gap", "h_add_initial_gap", ["space_add_initial_gap"],
              replace=["space_maybe_gap", "data_sectors_reserved_for_catalog", "catalog_sectors_for_format", "CatalogEntry_start_sector"])]


GEOM_GROUP = ["sector_count", "Geometry_total_sectors", "single_sided_filesystem", "geom_large_enough", "geom_other_side_has_catalog_too", "geom_compare_formats"]


def geometry_jobs(Job, cfg=CFG_NDEBUG, tier="quick"):
    def J(name, entry, enforce, **kw):
        return Job("D_%s_%s" % (name, cfg[0]), "harness/dfs_geometry.c", entry, enforce=enforce, defines=list(cfg[1]), extract=ext(GEOM_GROUP), tier=tier, solver="portfolio", **kw)
    return [J("single_sided_filesystem", "h_single_sided", ["single_sided_filesystem"]),
            J("geom_large_enough", "h_large_enough", ["geom_large_enough"], replace=["single_sided_filesystem", "Geometry_total_sectors", "sector_count"]),
            J("geom_other_side_has_catalog_too", "h_other_side", ["geom_other_side_has_catalog_too"], replace=["sector_count"]),
            J("geom_compare_formats", "h_compare_formats", ["geom_compare_formats"], replace=["Geometry_total_sectors"])]


def c13_extra(Job, tier):
    return geometry_jobs(Job) + hints_jobs(Job) + [j for j in fragment_jobs(Job) if "valid_" in j.name] + opussmell_jobs(Job) + [j for j in opus_jobs(Job) if "extents" in j.name or "opus_ctor_head" in j.name or "opus_volume_table" in j.name]


def hints_jobs(Job, cfg=CFG_NDEBUG, tier="quick"):
    return [Job("D_candidate_hints_%s" % cfg[0], "harness/dfs_hints.c", "h_candidate_hints", enforce=["candidate_hints"],
                defines=list(cfg[1]), extract=ext(["candidate_hints"]), tier=tier,
                cbmc=["--unwindset", "lit_ext.0:6", "--unwinding-assertions"])] + suffix_jobs(Job, cfg, tier)       # the suffix functions the hints are made with


def spans_jobs(Job, cfg=CFG_NDEBUG, tier="quick"):
    return [Job("D_extract_unused_spans_%s" % cfg[0], "harness/dfs_spans.c", "h_spans", enforce=["extract_unused_spans"], replace=["sector_count"], loops=True,
                defines=list(cfg[1]), extract=ext(["sector_count", "extract_unused_spans"]), tier=tier, cover=True, solver="portfolio")]


def copyhfe_jobs(Job, cfg=CFG_NDEBUG, tier="quick"):
    g = ["hfe_opcodes", "is_hfe3_opcode", "HfeCopyState", "copy_hfe"]
    # loop 0 of h_fill_tables builds the ghost tables (256 entries: the harness, not the code); both loops of copy_hfe (the
    # block loop, any number of bytes, and its 8-step bit loop) are closed by loop contracts
    uw = ["--unwindset", "h_fill_tables.0:258", "--unwinding-assertions"]
    import native_replay as NR
    return [Job("D_is_hfe3_opcode_%s" % cfg[0], "harness/dfs_copyhfe.c", "h_is_opcode", enforce=["is_hfe3_opcode"], defines=list(cfg[1]), extract=ext(g), tier=tier),
            Job("D_hfe_side_blocks_%s" % cfg[0], "harness/dfs_sideblocks.c", "h_side_blocks", enforce=["hfe_side_blocks"], loops=True,
                defines=list(cfg[1]), extract=ext(["hfe_block_sizes", "HfeCopyState", "hfe_side_blocks"]), tier=tier, cover=True, solver="portfolio", replay=NR.replay_hfe3_opcodes),
            Job("D_copy_hfe_v1_%s" % cfg[0], "harness/dfs_copyhfe.c", "h_copy_hfe", enforce=["copy_hfe"], replace=["is_hfe3_opcode"], loops=True,
                defines=list(cfg[1]), extract=ext(g), tier=tier, cover=True, solver="portfolio", timeout=1800, cbmc=uw),
            Job("D_copy_hfe_v3_opcodes_%s" % cfg[0], "harness/dfs_copyhfe.c", "h_copy_hfe3", enforce=["copy_hfe"], replace=["is_hfe3_opcode"], loops=True,
                defines=list(cfg[1]), extract=ext(g), tier=tier, cover=True, solver="portfolio", timeout=1800, cbmc=uw, replay=NR.replay_hfe3_opcodes)]


NAMES_GROUP = ["byte_to_ascii7", "CatalogEntry_directory", "CatalogEntry_name", "ci_comp", "case_insensitive_less", "case_insensitive_equal", "CatalogEntry_has_name"]


def names_jobs(Job, cfg=CFG_NDEBUG, tier="quick"):
    uw = ["--unwindset", "mismatch_model.0:17,spec_ci_less.0:16,spec_ci_equal.0:16,CatalogEntry_name.0:8,cstr_rtrim.0:17", "--unwinding-assertions"]
    def J(name, entry, enforce, **kw):
        return Job("D_%s_%s" % (name, cfg[0]), "harness/dfs_names.c", entry, enforce=enforce, defines=list(cfg[1]), extract=ext(NAMES_GROUP), tier=tier, cbmc=uw, solver="portfolio", **kw)
    return [J("ci_comp", "h_ci_comp", ["ci_comp"]),
            J("case_insensitive_less", "h_ci_less", ["case_insensitive_less"], replace=["ci_comp"]),
            J("case_insensitive_equal", "h_ci_equal", ["case_insensitive_equal"], replace=["case_insensitive_less"]),
            J("has_name", "h_has_name", ["CatalogEntry_has_name"], replace=["case_insensitive_equal", "CatalogEntry_directory"])]    # CatalogEntry::name inlined (its contract speaks about one ghost position only)


FRAG_GROUP = ["sector_count", "byte_to_ascii7", "convert_title", "CatalogFragment_ctor", "catalog_sectors_for_format", "data_sectors_reserved_for_catalog", "CatalogFragment_valid_head", "CatalogFragment_valid_loop"]


def fragment_jobs(Job, cfg=CFG_NDEBUG, tier="quick"):
    def J(name, entry, enforce, **kw):
        return Job("D_%s_%s" % (name, cfg[0]), "harness/dfs_fragment.c", entry, enforce=enforce, defines=list(cfg[1]), extract=ext(FRAG_GROUP), tier=tier, **kw)
    return [J("convert_title", "h_title", ["convert_title"], cbmc=["--unwindset", "convert_title_wrapped_for_contract_checking.0:9,convert_title_wrapped_for_contract_checking.1:5,convert_title.0:9,convert_title.1:5,cstr_rtrim.0:17", "--unwinding-assertions"]),
            J("catalog_fragment_ctor", "h_fragment", ["CatalogFragment_ctor"], replace=["sector_count"]),
            J("catalog_fragment_valid_head", "h_valid_head", ["CatalogFragment_valid_head"], replace=["catalog_sectors_for_format", "data_sectors_reserved_for_catalog"]),
            J("catalog_fragment_valid_loop", "h_valid_loop", ["CatalogFragment_valid_loop"], loops=True, solver="portfolio",
              cbmc=["--unwindset", "h_fill_valid_tables.0:33", "--unwinding-assertions"])]


def extractwrite_jobs(Job, cfg=CFG_NDEBUG, tier="quick"):
    g = ["extract_files_visitor", "extract_files_write_body"]
    return [Job("D_extract_files_visitor_%s" % cfg[0], "harness/dfs_extractwrite.c", "h_visitor", enforce=["extract_files_visitor"], defines=list(cfg[1]), extract=ext(g), tier=tier),
            Job("D_extract_files_write_body_%s" % cfg[0], "harness/dfs_extractwrite.c", "h_write_body", enforce=["extract_files_write_body"], defines=list(cfg[1]), extract=ext(g), tier=tier, cover=True)]


def inf_jobs(Job, cfg=CFG_NDEBUG, tier="quick"):
    return [Job("D_create_inf_file_%s" % cfg[0], "harness/dfs_inf.c", "h_inf", enforce=["create_inf_file"], defines=list(cfg[1]),
                extract=ext([n for n in INFO_GROUP if n != "info_line"] + ["create_inf_file"]), tier=tier, solver="portfolio", cover=True,
                cbmc=["--unwindset", "CatalogEntry_name.0:8,spec_streq_.0:9", "--unwinding-assertions"])]


def hfegeom_jobs(Job, cfg=CFG_NDEBUG, tier="quick"):
    return [Job("D_hfe_geometry_tail_%s" % cfg[0], "harness/dfs_hfegeom.c", "h_hfe_geometry", enforce=["hfe_geometry_tail"],
                defines=list(cfg[1]), extract=ext(["hfe_encodings", "hfe_geometry_tail"]), tier=tier)]


def hfelut_jobs(Job, cfg=CFG_NDEBUG, tier="quick"):
    g = ["hfe_le_word", "hfe_le_word_it", "PicTrack_ctor", "read_track_offset_lut", "picfileformatheader", "hfe_nextbyte", "hfe_nextshort", "hfe_decode_header", "hfe_lut_call", "hfe_encoding_of_track"]
    import native_replay as NR
    def J(name, entry, enforce, replace=(), **kw):
        return Job("D_%s_%s" % (name, cfg[0]), "harness/dfs_hfelut.c", entry, enforce=enforce, replace=list(replace), defines=list(cfg[1]), extract=ext(g), tier=tier,
                   cbmc=["--unwindset", "bytes_copy_n.0:9", "--unwinding-assertions"], **kw)
    return [J("hfe_le_word", "h_le_word", ["hfe_le_word"]), J("hfe_le_word_it", "h_le_word_it", ["hfe_le_word_it"]),
            J("pictrack_ctor", "h_pictrack", ["PicTrack_ctor"]),          # le_word inlined (two calls into one object)
            J("read_track_offset_lut", "h_read_lut", ["read_track_offset_lut"], loops=True, cover=True, replay=NR.replay_hfe_lut_offset),
            J("hfe_decode_header", "h_decode_header", ["hfe_decode_header"]),
            J("hfe_lut_call", "h_lut_call", ["hfe_lut_call"], replay=NR.replay_hfe_lut_offset),
            J("hfe_encoding_of_track", "h_encoding_of_track", ["hfe_encoding_of_track"])]


def mainopt_jobs(Job, cfg=CFG_NDEBUG, tier="quick"):
    g = ["dfs_opt_table", "dfs_main_option"]
    return [Job("D_dfs_main_option_%s" % cfg[0], "harness/dfs_mainopt.c", "h_main_option", enforce=["dfs_main_option"], defines=list(cfg[1]), extract=ext(g), tier=tier),
            # a constant table of ten entries: unwinding its scan is complete, not a bounded stand-in
            Job("D_dfs_opt_table_%s" % cfg[0], "harness/dfs_mainopt.c", "h_opt_table", enforce=[], defines=list(cfg[1]), extract=ext(g), tier=tier,
                cbmc=["--unwindset", "table_find_.0:17,str_eq_.0:17", "--unwinding-assertions"])]


def opussmell_jobs(Job, cfg=CFG_NDEBUG, tier="quick"):
    return [Job("D_smells_like_opus_ddos_%s" % cfg[0], "harness/dfs_opussmell.c", "h_opus_smell", enforce=["smells_like_opus_ddos"], replace=["sector_count"], loops=True,
                defines=list(cfg[1]), extract=ext(["sector_count", "smells_like_opus_ddos"]), tier=tier, cover=True)]


def bodycmd_jobs(Job, cfg=CFG_NDEBUG, tier="quick"):
    return [Job("D_body_command_%s" % cfg[0], "harness/dfs_bodycmd.c", "h_body_command", enforce=["body_command"], defines=list(cfg[1]),
                extract=ext(["body_command"]), tier=tier)]


def showtitles_jobs(Job, cfg=CFG_NDEBUG, tier="quick"):
    return [Job("D_show_titles_loop_%s" % cfg[0], "harness/dfs_showtitles.c", "h_show_titles", enforce=["show_titles_loop"], loops=True, defines=list(cfg[1]),
                extract=ext(["show_titles_loop"]), tier=tier)]


def suffix_jobs(Job, cfg=CFG_NDEBUG, tier="quick"):
    g = ["su_ends_with", "su_remove_suffix"]
    uw = ["--unwindset", "rev_equal_model.0:16,cstr_find_model.0:17,cstr_find_model.1:16,cstr_erase_model.0:16", "--unwinding-assertions"]
    return [Job("D_su_ends_with_%s" % cfg[0], "harness/dfs_suffix.c", "h_ends_with", enforce=["su_ends_with"], defines=list(cfg[1]), extract=ext(g), tier=tier, cbmc=uw),
            Job("D_su_remove_suffix_%s" % cfg[0], "harness/dfs_suffix.c", "h_remove_suffix", enforce=["su_remove_suffix"], defines=list(cfg[1]), extract=ext(g), tier=tier, cbmc=uw)]


def showconfig_jobs(Job, cfg=CFG_NDEBUG, tier="quick"):
    g = ["SurfaceSelector_postincrement", "acorn_default_last_surface", "show_config_range"]
    def J(name, entry, enforce, replace=(), **kw):
        return Job("D_%s_%s" % (name, cfg[0]), "harness/dfs_showconfig.c", entry, enforce=enforce, replace=list(replace), defines=list(cfg[1]), extract=ext(g), tier=tier, **kw)
    return [J("surface_postincrement", "h_postincrement", ["SurfaceSelector_postincrement"]), J("acorn_default_last_surface", "h_acorn_last", ["acorn_default_last_surface"]),
            J("show_config_range", "h_show_config_range", ["show_config_range"], ["acorn_default_last_surface"], loops=True)]     # postincrement inlined (it is in the loop condition)


def sectormap_jobs(Job, cfg=CFG_NDEBUG, tier="quick"):
    return [Job("D_get_sector_map_%s" % cfg[0], "harness/dfs_sectormap.c", "h_get_sector_map", enforce=["get_sector_map"], loops=True, defines=list(cfg[1]),
                extract=ext(["get_sector_map"]), tier=tier)]


def catfind_jobs(Job, cfg=CFG_NDEBUG, tier="quick"):
    return [Job("D_catalog_find_entry_%s" % cfg[0], "harness/dfs_catfind.c", "h_catalog_find", enforce=["catalog_find_entry"], loops=True, defines=list(cfg[1]),
                extract=ext(["catalog_find_entry"]), tier=tier)]


def osread_jobs(Job, cfg=CFG_NDEBUG, tier="quick"):
    return [Job("D_osfile_read_%s" % cfg[0], "harness/dfs_osread.c", "h_osfile_read", enforce=["OsFile_read"], defines=list(cfg[1]), extract=ext(["OsFile_read"]), tier=tier)]


def titlecycle_jobs(Job, cfg=CFG_NDEBUG, tier="quick"):
    return [Job("D_title_and_cycle_%s" % cfg[0], "harness/dfs_titlecycle.c", "h_title_and_cycle", enforce=["title_and_cycle"], defines=list(cfg[1]), extract=ext(["title_and_cycle"]), tier=tier)]


def prefix_jobs(Job, cfg=CFG_NDEBUG, tier="quick"):
    g = ["VolumeSelector_to_string", "afsp_drive_prefix", "afsp_directory_prefix", "afsp_assemble", "VolumeSelector_assign"]
    uw = ["--unwindset", "cstr_append.0:16", "--unwinding-assertions"]
    def J(name, entry, enforce, **kw):
        return Job("D_%s_%s" % (name, cfg[0]), "harness/dfs_prefix.c", entry, enforce=enforce, defines=list(cfg[1]), extract=ext(g), tier=tier, cbmc=uw, **kw)
    return [J("volume_selector_to_string", "h_vol_to_string", ["VolumeSelector_to_string"]),
            J("afsp_drive_prefix", "h_drive_prefix", ["afsp_drive_prefix"]),
            J("afsp_directory_prefix", "h_directory_prefix", ["afsp_directory_prefix"]),
            J("afsp_assemble", "h_assemble", ["afsp_assemble"]), J("volume_selector_assign", "h_vol_assign", ["VolumeSelector_assign"])]


def volctor_jobs(Job, cfg=CFG_NDEBUG, tier="quick"):
    g = ["sector_count", "Geometry_total_sectors", "VolumeLocation_len", "VolumeLocation_start_sector", "VolumeAccess_ctor", "Volume_ctor",
         "init_volumes_opus_vol", "init_volumes_plain_vol", "VolumeAccess_origin", "Volume_volume_data_origin", "Volume_map_sectors"]
    def J(name, entry, enforce, replace=()):
        return Job("D_%s_%s" % (name, cfg[0]), "harness/dfs_volctor.c", entry, enforce=enforce, replace=list(replace), defines=list(cfg[1]), extract=ext(g), tier=tier)
    return [J("volume_access_ctor", "h_access_ctor", ["VolumeAccess_ctor"]),
            J("volume_ctor", "h_volume_ctor", ["Volume_ctor"], ["VolumeAccess_ctor", "sector_count"]),
            J("init_volumes_opus_vol", "h_opus_vol", ["init_volumes_opus_vol"], ["Volume_ctor", "VolumeLocation_len", "VolumeLocation_start_sector"]),
            J("init_volumes_plain_vol", "h_plain_vol", ["init_volumes_plain_vol"], ["Volume_ctor", "Geometry_total_sectors"]),
            J("volume_access_origin", "h_va_origin", ["VolumeAccess_origin"]), J("volume_data_origin", "h_vol_data_origin", ["Volume_volume_data_origin"]),
            J("volume_map_sectors", "h_vol_map_sectors", ["Volume_map_sectors"])]


def inventory_precheck(repo):
    found = file_opening_inventory(repo)
    exp = FILE_OPENING_SITES
    bad = [f for f in found if not any(f[0] == e[0] and f[1].startswith(e[1]) for e in exp)]
    missing = [e for e in exp if not any(f[0] == e[0] and f[1].startswith(e[1]) for f in found)]
    if bad or missing:
        return "the places where dfs opens or creates files changed (new: %s; gone: %s): the contracts no longer cover all of them" % (bad, missing)
    return None


def openmode_jobs(Job, cfg=CFG_NDEBUG, tier="quick"):
    g = ["OsFile_open", "gz_open_input"]
    return [Job("D_osfile_open_%s" % cfg[0], "harness/dfs_openmodes.c", "h_osfile_open", enforce=["OsFile_open"], defines=list(cfg[1]), extract=ext(g), tier=tier,
                precheck=inventory_precheck),
            Job("D_gz_open_input_%s" % cfg[0], "harness/dfs_openmodes.c", "h_gz_open", enforce=["gz_open_input"], defines=list(cfg[1]), extract=ext(g), tier=tier)]


# every place dfs opens or creates a file (dfs/*.cc, dfs/*.h without tests): the contracts above and those of C11/C12 cover
# exactly these; a different inventory means the covered set no longer is the whole set -> undecided (exit 2), not a violation
FILE_OPENING_SITES = [
    ("dfs/cmd_extract_files.cc", "std::ofstream inf_file(name, std::ofstream::out);"),
    ("dfs/cmd_extract_files.cc", "std::ofstream outfile(output_body_file, std::ofstream::out);"),
    ("dfs/cmd_extract_unused.cc", "std::ofstream output(file_name, std::ofstream::binary|std::ofstream::trunc);"),
    ("dfs/img_fileio.cc", ": file_name_(name), f_(name,"),
    ("dfs/img_gzfile.cc", "FILE *f = fopen(name.c_str(),"),
    ("dfs/img_gzfile.cc", "return tmpfile();"),
]


def file_opening_inventory(repo):
    import glob, re
    found = []
    rx = re.compile(r"\b(?:std::)?[io]?fstream\s+\w+\s*\(|\bf_\(name,|\bfopen\s*\(|\btmpfile\s*\(|\bmkstemp\s*\(|\bcreat\s*\(|(?<![\w.>])open\s*\(|\bfreopen\s*\(")
    for path in sorted(glob.glob(os.path.join(repo, "dfs", "*.cc")) + glob.glob(os.path.join(repo, "dfs", "*.h"))):
        base = os.path.basename(path)
        if base.startswith("test_") or "/tests/" in path:
            continue
        for line in open(path, encoding="utf-8", errors="replace"):
            code = line.split("//")[0]
            if rx.search(code):
                found.append((os.path.relpath(path, repo), " ".join(code.split())))
    return found
