"""Job builders for the dfs/ properties (extracted C++ -> C, DESIGN.md 2.2)."""
import os, sys
sys.path.insert(0, os.path.dirname(os.path.abspath(__file__)))
from dfs_specs import SPECS

CFG_NDEBUG = ("ndebug", ["NDEBUG"])
CFG_ASSERT = ("assert", [])

CATALOG_GROUP = ["sector_count", "CatalogEntry_metadata_byte", "CatalogEntry_metadata_word", "CatalogEntry_load_address",
                 "CatalogEntry_exec_address", "CatalogEntry_file_length", "CatalogEntry_start_sector",
                 "CatalogEntry_directory", "CatalogEntry_is_locked", "CatalogEntry_last_sector",
                 "CatalogEntry_visit_file_body_piecewise", "sign_extend", "VolumeAccess_read_block"]


def ext(names):
    return [SPECS[n] for n in names]


def cat_job(Job, name, entry, enforce, cfg=CFG_NDEBUG, replace=(), loops=False, tier="quick", cover=False, cbmc=()):
    return Job("D_%s_%s" % (name, cfg[0]), "harness/dfs_catalog.c", entry, enforce=enforce, replace=list(replace),
               loops=loops, defines=list(cfg[1]), extract=ext(CATALOG_GROUP), tier=tier, cover=cover, cbmc=list(cbmc))


ACCESSORS = ["CatalogEntry_metadata_byte", "CatalogEntry_metadata_word", "CatalogEntry_load_address",
             "CatalogEntry_exec_address", "CatalogEntry_file_length", "CatalogEntry_start_sector"]


def field_jobs(Job, cfg=CFG_NDEBUG, tier="quick"):
    js = [cat_job(Job, "metadata_byte", "h_metadata_byte", ["CatalogEntry_metadata_byte"], cfg, tier=tier),
          cat_job(Job, "metadata_word", "h_metadata_word", ["CatalogEntry_metadata_word"], cfg, tier=tier)]
    for f in ("load_address", "exec_address", "file_length", "start_sector"):
        js.append(cat_job(Job, f, "h_" + f, ["CatalogEntry_" + f], cfg,
                          replace=["CatalogEntry_metadata_byte", "CatalogEntry_metadata_word"], tier=tier))
    js.append(cat_job(Job, "directory", "h_directory", ["CatalogEntry_directory"], cfg, tier=tier))
    js.append(cat_job(Job, "is_locked", "h_is_locked", ["CatalogEntry_is_locked"], cfg, tier=tier))
    return js


def last_sector_job(Job, cfg=CFG_NDEBUG, tier="quick"):
    return cat_job(Job, "last_sector", "h_last_sector", ["CatalogEntry_last_sector"], cfg,
                   replace=["CatalogEntry_start_sector", "CatalogEntry_file_length", "sector_count"], tier=tier)


def sector_count_job(Job, cfg=CFG_NDEBUG, tier="quick"):
    return cat_job(Job, "sector_count", "h_sector_count", ["sector_count"], cfg, tier=tier)


def visit_job(Job, cfg=CFG_NDEBUG, tier="quick"):
    return cat_job(Job, "visit_file_body", "h_visit", ["CatalogEntry_visit_file_body_piecewise"], cfg,
                   replace=["CatalogEntry_start_sector", "CatalogEntry_file_length", "CatalogEntry_last_sector"],
                   loops=True, tier=tier, cover=True)


def sign_extend_job(Job, cfg=CFG_NDEBUG, tier="quick"):
    return cat_job(Job, "sign_extend", "h_sign_extend", ["sign_extend"], cfg, tier=tier, cover=True)


def volume_read_job(Job, cfg=CFG_NDEBUG, tier="quick"):
    return cat_job(Job, "volume_read_block", "h_volume_read_block", ["VolumeAccess_read_block"], cfg, tier=tier, cover=True)


DFS_TRUSTED = [
    "engine/cxx2c.py: the verified text is the function body extracted from /repo on every run; rules fired and SHA-256 of the source range are in coverage.jobs[].extracted",
    "models/dfs_model.h: DataAccess::read_block as a deterministic partial function with a call log; std::function visitors as monitored calls; "
    "exceptions as ghost state (message text dropped); ldiv per C11 7.22.6.2",
    "contracts/dfs_types.h: C mirrors of the C++ class fields touched by the extracted code",
    "CBMC 6.11 dfcc contract instrumentation and MiniSat; machine integers are bit-vectors",
]


def c11_jobs(Job, tier):
    return []


def c19_jobs(Job, tier):
    js = []
    for cfg in (CFG_NDEBUG, CFG_ASSERT):
        js.append(last_sector_job(Job, cfg))
        js.append(sector_count_job(Job, cfg))
        js.append(visit_job(Job, cfg))
    return js
