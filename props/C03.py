# C03 -- bbcbasic_to_text lists every well-formed program as doc/bbcbasic.5 defines
import sys, os
sys.path.insert(0, os.path.dirname(os.path.abspath(__file__)))
import basic_common as B

def jobs(tier):
    js = []
    quick_d = (0, 1, 2, 5)          # 6502 (BE), Z80 (LE), ARM (extensions), PDP11 (0xC8 rule)
    for d in range(6):
        t = "quick" if d in quick_d else "thorough"
        js += B.line_level(Job, d, B.CFG_NDEBUG, t)
        js.append(B.framing(Job, d, B.CFG_NDEBUG, t))
        js.append(B.table(Job, d, B.CFG_NDEBUG, "quick" if d in (0, 2) else "thorough"))
        js.append(B.decode_file(Job, d, B.CFG_NDEBUG, t))
        # assertions-on configuration: thorough
        js += B.line_level(Job, d, B.CFG_ASSERT, "thorough")
        js.append(B.framing(Job, d, B.CFG_ASSERT, "thorough"))
    js.append(B.set_dialect(Job, B.CFG_NDEBUG))          # the ten dialect names select the dialects the man page says
    return js

META = {
    "trusted_base": B.BASIC_TRUSTED,
    "assumptions": ["input files of at most 16 MiB", "indentation monitor takes the weaker reading where the statement is silent (DESIGN.md C03)"],
    "outside": ["equality of what the OS delivers through a file and through standard input (C03 last clause): both reach decode_file(dec, name, FILE*)"],
    "explanation": "L1 table lemma (real build_mapping vs spec table), L2 line lemmas (print_target_line_number, count, handle_token, decode_line vs the line monitor), L3 framing lemma (program decoders vs the framing automaton, decode_line replaced by its contract), decode_file picks the decoder by dialect; set_dialect maps the ten documented names (and no other) to their dialects",
}
