# C03 -- bbcbasic_to_text lists every well-formed program as doc/bbcbasic.5 defines
DIALECT_NAMES = {0: "6502", 1: "Z80", 2: "ARM", 3: "Windows", 4: "Mac", 5: "PDP11"}
INC = ["$REPO/basic"]

def line_jobs(d, tier, cfgs=(("ndebug", ["NDEBUG"]),)):
    js = []
    for cname, cdefs in cfgs:
        sfx = "_%s_%s" % (DIALECT_NAMES[d], cname)
        defs = ["DIALECT=%d" % d] + cdefs
        js.append(Job("L2_print_target" + sfx, "harness/basic_lines.c", "h_print_target",
                      enforce=["print_target_line_number"], defines=defs, includes=INC, tier=tier,
                      sentinel=None, cover=True))
        js.append(Job("L2_count" + sfx, "harness/basic_lines.c", "h_count",
                      enforce=["count"], loops=True, defines=defs, includes=INC, tier=tier,
                      cbmc=["--unwindset", "h_fill_counts.0:257", "--unwinding-assertions"]))
        js.append(Job("L2_handle_token" + sfx, "harness/basic_lines.c", "h_handle_token",
                      enforce=["handle_token"], replace=["print_target_line_number"], defines=defs,
                      includes=INC, tier=tier, cbmc=["--unwindset", "mon_str_is.0:6", "--unwinding-assertions"]))
        js.append(Job("L2_decode_line" + sfx, "harness/basic_lines.c", "h_decode_line",
                      enforce=["decode_line"], replace=["handle_token", "count"], loops=True,
                      defines=defs, includes=INC, tier=tier,
                      cbmc=["--unwindset", "h_fill_counts.0:257", "--unwinding-assertions"]))
        be = d in (0, 2, 4, 5)
        js.append(Job("L3_framing" + sfx, "harness/basic_lines.c", "h_decode_be" if be else "h_decode_le",
                      enforce=["decode_big_endian_program" if be else "decode_little_endian_program"],
                      replace=["decode_line"], loops=True, defines=defs + ["VERIF_NO_LINE_LEVEL"], includes=INC, tier=tier, cover=True,
                      local_frame_ok=[("decode_little_endian_program", "ch")]))
        js.append(Job("L1_table" + sfx, "harness/basic_tokens.c", "h_build_mapping",
                      enforce=["build_mapping"], defines=defs, includes=INC, tier=tier, cover=True,
                      cbmc=["--unwindset", "build_mapping.0:130,build_mapping.1:130,build_mapping.2:258,build_invalid_map.0:258,spec_streq.0:17",
                            "--unwinding-assertions"], timeout=1500))
    return js

def jobs(tier):
    js = []
    for d in (0, 1):
        js += line_jobs(d, "quick")
    return js

META = {"trusted_base": [], "assumptions": [], "outside": []}
