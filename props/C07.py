# C07 -- dfs fails cleanly on arbitrary image files and command lines (function-level safety proofs only)
import sys, os
sys.path.insert(0, os.path.dirname(os.path.abspath(__file__)))
import dfs_common as D

def jobs(tier):
    js = D.hxc_jobs(Job)
    # everything already extracted, with all safety checks and no well-formedness precondition on file bytes
    js += [D.visit_job(Job), D.volume_read_job(Job), D.last_sector_job(Job)] + D.fileio_jobs(Job) + D.ident_jobs(Job) + D.storage_jobs(Job)
    js += D.c07_extra(Job, tier) if hasattr(D, "c07_extra") else []
    return js

META = {
    "trusted_base": D.DFS_TRUSTED + ["FileAccess::read over a ghost file of unconstrained length and contents; vectors are heap objects of exactly size() bytes"],
    "assumptions": ["image files of at most 2^40 bytes"],
    "outside": ["the whole-program statement (exit status in {0,1,2}, diagnostics, no signal) is over main, the libstdc++ runtime and zlib, none of which can be put under contract here", "get_entry_at_offset / get_safe_name of the catalogue"],
    "explanation": "per extracted parser function: CBMC's generated safety obligations (bounds, pointer, overflow, division) for arbitrary file bytes; decreases clauses (termination) on every loop under contract; allocation requests bounded by 1 MiB; exceptions only by value",
}
