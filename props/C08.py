# C08 -- bbcbasic_to_text fails cleanly on arbitrary input files and options
import sys, os
sys.path.insert(0, os.path.dirname(os.path.abspath(__file__)))
import basic_common as B

def jobs(tier):
    js = []
    cfg = B.CFG_NDEBUG
    # every function of basic/*.c with all CBMC safety checks and NO well-formedness precondition on the
    # input bytes (the line buffer and the ghost file are unconstrained in every harness)
    for d in range(6):
        t = "quick" if d in (3, 4, 5) else "thorough"   # Windows (fast variables), Mac, PDP11 (0xC8 peek-ahead); others run under C03/C09
        js += B.line_level(Job, d, cfg, t)
        js.append(B.framing(Job, d, cfg, t))
        js.append(B.new_decoder(Job, d, cfg, "quick"))
        js.append(B.decode_file(Job, d, cfg, t))
    js.append(B.set_dialect(Job, cfg))
    js.append(B.set_listo(Job, cfg))
    js.append(B.print_dialects(Job, cfg))
    js.append(B.wrapped_main(Job, cfg))
    js.append(B.real_main(Job, cfg))
    for c in (B.CFG_ASSERT,):
        js.append(B.set_dialect(Job, c, "thorough"))
        js.append(B.set_listo(Job, c, "thorough"))
        js.append(B.wrapped_main(Job, c, "thorough"))
        js.append(B.real_main(Job, c, "thorough"))
    return js

META = {
    "trusted_base": B.BASIC_TRUSTED,
    "assumptions": ["input files of at most 16 MiB", "at most 64 command-line words", "argc >= 1"],
    "outside": ["the C library itself (getopt_long, stdio) is modelled, not verified", "internal_dump_all_dialects / dump_map (undocumented regression option -D): contract assumed, not enforced"],
    "explanation": "memory safety / UB freedom of every function (CBMC bounds, pointer, overflow, shift, div-by-zero checks) for arbitrary bytes; exit status in {0,1}; non-zero status implies a diagnostic; the dialect passed to new_decoder is initialised and in range",
}
