# C11 -- exit status 0 implies the output was completely written (bbcbasic_to_text half; dfs half: see dfs jobs)
import sys, os
sys.path.insert(0, os.path.dirname(os.path.abspath(__file__)))
import basic_common as B

def jobs(tier):
    js = []
    cfg = B.CFG_NDEBUG
    for d in range(6):
        t = "quick" if d in (0, 1) else "thorough"
        js.append(B.print_target(Job, d, cfg, t))
        js.append(B.handle_token(Job, d, cfg, t))
        js.append(B.decode_line(Job, d, cfg, t))
        js.append(B.framing(Job, d, cfg, t))
        js.append(B.decode_file(Job, d, cfg, t))
    js.append(B.print_dialects(Job, cfg))
    js.append(B.wrapped_main(Job, cfg))
    js.append(B.real_main(Job, cfg))
    try:
        import dfs_common as D
        js += D.c11_jobs(Job, tier)
    except ImportError:
        pass
    return js

META = {
    "trusted_base": B.BASIC_TRUSTED + ["strict write-failure model: a failed stdout call is reported by that call only (glibc drops the buffer on a failed flush, confirmed natively)"],
    "assumptions": [],
    "outside": ["internal_dump_all_dialects (-D): contract assumed", "per-byte-offset interaction with real stream buffering is abstracted by the nondeterministic failure point", "dfs commands other than type / extract-files / extract-unused return true regardless of std::cout: decided by the main tail (flush + test)"],
    "explanation": "every function's contract: returns success => no stdout write failed since entry (g_wfail unchanged); main: exit 0 => no write, including the final flush, failed; dfs: main tail flushes and tests std::cout; write_span, the extract-files body file and create_inf_file succeed only if their ofstream is still good after close()",
}
