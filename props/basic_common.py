"""Job builders shared by the bbcbasic_to_text properties (C03, C08, C09, C11, C19)."""
DIALECT_NAMES = {0: "6502", 1: "Z80", 2: "ARM", 3: "Windows", 4: "Mac", 5: "PDP11"}
BIG_ENDIAN = (0, 2, 4, 5)
INC = ["$REPO/basic"]
CFG_NDEBUG = ("ndebug", ["NDEBUG"])       # the pinned build (RelWithDebInfo => -DNDEBUG)
CFG_ASSERT = ("assert", [])               # assertions compiled in (documented default cmake build)
FILL = ["--unwindset", "h_fill_counts.0:257", "--unwinding-assertions"]
TABLE_UNWIND = ["--unwindset",
                "build_mapping.0:130,build_mapping.1:130,build_mapping.2:258,build_invalid_map.0:258,spec_streq.0:17",
                "--unwinding-assertions"]


def defs_for(d, cfg):
    return ["DIALECT=%d" % d] + list(cfg[1])


def sfx(d, cfg):
    return "_%s_%s" % (DIALECT_NAMES[d], cfg[0])


def print_target(Job, d, cfg, tier="quick"):
    import native_replay
    return Job("L2_print_target" + sfx(d, cfg), "harness/basic_lines.c", "h_print_target",
               enforce=["print_target_line_number"], defines=defs_for(d, cfg), includes=INC, tier=tier, cover=True,
               replay=native_replay.replay_print_target)


def count(Job, d, cfg, tier="quick"):
    return Job("L2_count" + sfx(d, cfg), "harness/basic_lines.c", "h_count", enforce=["count"], loops=True,
               defines=defs_for(d, cfg), includes=INC, tier=tier, cbmc=FILL, cover=True)


def handle_token(Job, d, cfg, tier="quick"):
    return Job("L2_handle_token" + sfx(d, cfg), "harness/basic_lines.c", "h_handle_token",
               enforce=["handle_token"], replace=["print_target_line_number"], defines=defs_for(d, cfg),
               includes=INC, tier=tier, cover=True,
               cbmc=["--unwindset", "mon_str_is.0:6", "--unwinding-assertions"])


def decode_line(Job, d, cfg, tier="quick"):
    return Job("L2_decode_line" + sfx(d, cfg), "harness/basic_lines.c", "h_decode_line",
               enforce=["decode_line"], replace=["handle_token", "count"], loops=True,
               defines=defs_for(d, cfg), includes=INC, tier=tier, cbmc=FILL, cover=True)


def framing(Job, d, cfg, tier="quick"):
    be = d in BIG_ENDIAN
    return Job("L3_framing" + sfx(d, cfg), "harness/basic_lines.c", "h_decode_be" if be else "h_decode_le",
               enforce=["decode_big_endian_program" if be else "decode_little_endian_program"],
               replace=["decode_line"], loops=True, defines=defs_for(d, cfg) + ["VERIF_NO_LINE_LEVEL"],
               includes=INC, tier=tier, cover=True,
               local_frame_ok=[("decode_little_endian_program", "ch")])


def table(Job, d, cfg, tier="quick"):
    return Job("L1_table" + sfx(d, cfg), "harness/basic_tokens.c", "h_build_mapping",
               enforce=["build_mapping"], defines=defs_for(d, cfg), includes=INC, tier=tier, cover=True,
               cbmc=TABLE_UNWIND, timeout=1500)


def set_dialect(Job, cfg, tier="quick"):
    return Job("M_set_dialect_" + cfg[0], "harness/basic_tokens.c", "h_set_dialect",
               enforce=["set_dialect"], defines=defs_for(0, cfg), includes=INC, tier=tier, cover=True,
               cbmc=["--unwindset", "set_dialect_wrapped_for_contract_checking.0:12,verif_strcmp.0:17", "--unwinding-assertions"])


def decode_file(Job, d, cfg, tier="quick"):
    return Job("M_decode_file" + sfx(d, cfg), "harness/basic_main.c", "h_decode_file",
               enforce=["decode_file"], replace=["decode_big_endian_program", "decode_little_endian_program"],
               defines=defs_for(d, cfg) + ["VERIF_NO_LINE_LEVEL", "VERIF_MAP_GLUE=1"], includes=INC, tier=tier, cover=True)


def new_decoder(Job, d, cfg, tier="quick"):
    return Job("M_new_decoder" + sfx(d, cfg), "harness/basic_main.c", "h_new_decoder",
               enforce=["new_decoder"], replace=["build_mapping"], defines=defs_for(d, cfg) + ["VERIF_BM_SHALLOW"], includes=INC,
               tier=tier, cover=True)


def set_listo(Job, cfg, tier="quick"):
    return Job("M_set_listo_" + cfg[0], "harness/basic_main.c", "h_set_listo", enforce=["set_listo"],
               defines=defs_for(0, cfg) + ["VERIF_NO_LINE_LEVEL"], includes=INC, tier=tier, cover=True)


def print_dialects(Job, cfg, tier="quick"):
    return Job("M_print_dialects_" + cfg[0], "harness/basic_main.c", "h_print_dialects", enforce=["print_dialects"],
               defines=defs_for(0, cfg) + ["VERIF_NO_LINE_LEVEL"], includes=INC, tier=tier, cover=True,
               cbmc=["--unwindset", "print_dialects_wrapped_for_contract_checking.0:12,verif_strcmp.0:17", "--unwinding-assertions"])


MAIN_REPLACED = ["set_listo", "new_decoder", "destroy_decoder", "decode_file", "print_dialects",
                 "internal_dump_all_dialects"]


def wrapped_main(Job, cfg, tier="quick"):
    return Job("M_wrapped_main_" + cfg[0], "harness/basic_main.c", "h_wrapped_main", enforce=["wrapped_main"],
               replace=MAIN_REPLACED, loops=True,
               defines=defs_for(0, cfg) + ["VERIF_NO_LINE_LEVEL", "VERIF_ANY_DIALECT=1"], includes=INC,
               tier=tier, cover=True,
               cbmc=["--unwindset", "set_dialect.0:12,verif_strcmp.0:17", "--unwinding-assertions"],
               local_frame_ok=[("set_dialect", "m"), ("verif_strcmp", "k")])


def real_main(Job, cfg, tier="quick"):
    return Job("M_main_" + cfg[0], "harness/basic_main.c", "h_main", enforce=["main"],
               replace=["wrapped_main"], defines=defs_for(0, cfg) + ["VERIF_NO_LINE_LEVEL", "VERIF_ANY_DIALECT=1"],
               includes=INC, tier=tier, cover=True)


def line_level(Job, d, cfg, tier="quick"):
    return [print_target(Job, d, cfg, tier), count(Job, d, cfg, tier), handle_token(Job, d, cfg, tier),
            decode_line(Job, d, cfg, tier)]


BASIC_TRUSTED = [
    "models/basic_stdio.h: stdio model (stdout calls are events that may fail nondeterministically; stderr counted; "
    "ghost input file of unconstrained content and length <= 16 MiB; fread contents over-approximated, pinned at a ghost index)",
    "models/basic_stdio.h: getopt_long / strcmp / strtol / fopen / fclose / fflush models (results unconstrained within the C/POSIX contract)",
    "spec/basic_spec_tables.h: token oracle generated from the pinned basic/testdata/golden-token-map.txt",
    "spec/basic_line_monitor.h, spec/basic_file_monitor.h: the specification (monitors) written from doc/bbcbasic.5 and doc/bbcbasic_to_text.1",
    "glue between L1 and L2: lines.c inspects map entries only by sentinel identity, first character and contents, "
    "which is what the L1 lemma establishes for the real build_mapping(); L2/L3 are proved against the spec map",
    "CBMC 6.11 dfcc contract instrumentation and MiniSat; machine integers are bit-vectors (no mathematical abstraction)",
    "termination: decreases clauses on every loop under contract except the getopt loop (getopt's contract assumed)",
    "dfcc artefact exemption: frame check of decode_little_endian_program's own local 'ch' in a loop-exit block",
]
