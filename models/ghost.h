/* Ghost state shared by the models (models/basic_stdio.h) and the specification monitors
 * (spec/basic_line_monitor.h, spec/basic_file_monitor.h).
 *
 * Grouped into three objects so that a frame condition names one object instead of thirty
 * scalars (dfcc checks every store against every assigns target; three targets keep that cheap):
 *   GC  run constants   -- never written by code under contract
 *   GL  the current line as the specification defines it -- written only when the framing
 *       automaton delivers a line
 *   G   mutable state of the stdout/stderr model and the line monitor
 *   GF  mutable state of the input model and the framing automaton
 */
#ifndef VERIF_GHOST_H
#define VERIF_GHOST_H
#include <stddef.h>

struct expansion_map;

struct verif_ghost_const
{
  _Bool mon_on;                     /* line monitor checks stdout events */
  _Bool fmon_on;                    /* framing automaton active */
  int mon_listo;
  const struct expansion_map *mon_map;
  size_t fmon_gk;                   /* ghost index (unconstrained, fixed for the run) */
  size_t g_len;                     /* length of the ghost file */
};

struct verif_ghost_line
{
  const unsigned char *mon_data;    /* the line's bytes */
  unsigned char mon_len;
  unsigned char mon_hi, mon_lo;
  int mon_indent_in;                /* running indent before the line */
  unsigned short mon_c0, mon_c1, mon_c2, mon_c3;   /* # of 0xED NEXT, 0xFD UNTIL, 0xE3 FOR, 0xF5 REPEAT bytes */
};

struct verif_ghost
{
  /* stdout / stderr model */
  unsigned long g_diag;             /* diagnostics written to stderr */
  unsigned g_wfail;                 /* stdout writes that failed */
  unsigned g_out_events;            /* stdout events */
  /* line monitor */
  int mon_phase;
  unsigned mon_i;                   /* cursor into mon_data */
  _Bool mon_q;                      /* inside a quoted string */
  _Bool mon_reject_ok;              /* the last diagnostic was issued with a spec-rejected token under the cursor */
  int mon_indent_run;               /* running indent after the last complete line */
  unsigned long g_lines_listed;     /* line-number events seen (one per listed line) */
  unsigned long g_file_failures;    /* input files that could not be opened, decoded or closed (main-level bookkeeping) */
};

struct verif_ghost_file
{
  /* input model */
  size_t g_pos;
  _Bool g_eof_seen, g_rd_err, g_read_error_happened;
  const void *g_last_fread_dst;
  size_t g_last_fread_n;
  /* framing automaton */
  int fmon_phase;
  unsigned char fmon_hi, fmon_lo, fmon_blen;
  size_t fmon_body;
  unsigned fmon_rem, fmon_total;
  unsigned long fmon_lines;
};

static struct verif_ghost_const GC;
static struct verif_ghost_line GL;
static struct verif_ghost G;
static struct verif_ghost_file GF;

#define mon_on        GC.mon_on
#define fmon_on       GC.fmon_on
#define mon_listo     GC.mon_listo
#define mon_map       GC.mon_map
#define fmon_gk       GC.fmon_gk
#define g_len         GC.g_len

#define mon_data      GL.mon_data
#define mon_len       GL.mon_len
#define mon_hi        GL.mon_hi
#define mon_lo        GL.mon_lo
#define mon_indent_in GL.mon_indent_in
#define mon_c0        GL.mon_c0
#define mon_c1        GL.mon_c1
#define mon_c2        GL.mon_c2
#define mon_c3        GL.mon_c3

#define g_diag        G.g_diag
#define g_wfail       G.g_wfail
#define g_out_events  G.g_out_events
#define mon_phase     G.mon_phase
#define mon_i         G.mon_i
#define mon_q         G.mon_q
#define mon_reject_ok G.mon_reject_ok
#define mon_indent_run G.mon_indent_run
#define g_lines_listed G.g_lines_listed
#define g_file_failures G.g_file_failures
#define g_pos         GF.g_pos
#define g_eof_seen    GF.g_eof_seen
#define g_rd_err      GF.g_rd_err
#define g_read_error_happened GF.g_read_error_happened
#define g_last_fread_dst GF.g_last_fread_dst
#define g_last_fread_n GF.g_last_fread_n
#define fmon_phase    GF.fmon_phase
#define fmon_hi       GF.fmon_hi
#define fmon_lo       GF.fmon_lo
#define fmon_blen     GF.fmon_blen
#define fmon_body     GF.fmon_body
#define fmon_rem      GF.fmon_rem
#define fmon_total    GF.fmon_total
#define fmon_lines    GF.fmon_lines

#define g_write_failed (g_wfail != 0)

#endif
