/* Trusted environment model of <stdio.h> for basic/*.c (assumed contracts).
 *
 * The harness #includes this BEFORE the real translation units.  Calls in the real code
 * are re-routed by macros to non-variadic model functions (no source change):
 *   stdout  -> output events fed to the line monitor (spec/basic_line_monitor.h); each call may
 *              fail nondeterministically, which sets g_write_failed and returns the
 *              documented failure value (strict model: a failure is only ever reported by
 *              the failing call itself -- glibc drops the buffer on a failed flush).
 *   stderr  -> g_diag counts diagnostics.
 *   stdin / files -> a ghost file g_file[0..g_len) with cursor g_pos; reads feed the
 *              framing automaton (spec/basic_file_monitor.h).
 */
#ifndef VERIF_BASIC_STDIO_H
#define VERIF_BASIC_STDIO_H
#include <stdio.h>
#include <stdbool.h>
#include <stddef.h>
#include "ghost.h"

/* reachability points: in the -DVERIF_VACUITY build each must FAIL (i.e. be reachable) */
#ifdef VERIF_VACUITY
#define VERIF_COVER(c, what) __CPROVER_assert(!(c), "COVER " what)
#else
#define VERIF_COVER(c, what) ((void)0)
#endif

_Bool nondet_bool(void);
int nondet_int(void);
unsigned char nondet_uchar(void);
size_t nondet_size_t(void);
long nondet_long(void);
unsigned nondet_uint(void);
unsigned long nondet_ulong(void);
unsigned short nondet_ushort(void);

/* three distinct stream objects (CBMC would let the extern pointers alias) */
static FILE verif_stdout_obj, verif_stderr_obj, verif_stdin_obj, verif_file_obj;
#undef stdout
#undef stderr
#undef stdin
#define stdout (&verif_stdout_obj)
#define stderr (&verif_stderr_obj)
#define stdin  (&verif_stdin_obj)

/* ---- ghost state ------------------------------------------------------------------- */

static void mon_on_diag(void);     /* spec/basic_line_monitor.h */
static void g_diag_inc(void) { g_diag++; mon_on_diag(); }   /* contracts keep g_diag < 2^62: no wrap */

/* ---- line monitor interface (defined in spec/basic_line_monitor.h) -------------------- */
static void mon_event_chr(int c);
static void mon_event_str(const char *s);
static void mon_event_fmt(const char *fmt, unsigned long a, unsigned long b);

/* ---- stdout / stderr ---------------------------------------------------------------- */
static int verif_out_fail(void)
{
  if (nondet_bool()) { g_wfail++; return 1; }
  return 0;
}

static int verif_fputc(int c, FILE *f)
{
  if (f == stdout)
    {
      if (verif_out_fail()) return EOF;
      mon_event_chr(c);
      return (unsigned char)c;
    }
  if (f == stderr) { g_diag_inc(); return (unsigned char)c; }
  return nondet_bool() ? EOF : (unsigned char)c;
}

static int verif_fputs(const char *s, FILE *f)
{
  if (f == stdout)
    {
      if (verif_out_fail()) return EOF;
      mon_event_str(s);
      return 1;
    }
  if (f == stderr) { g_diag_inc(); return 1; }
  return nondet_bool() ? EOF : 1;
}

static int verif_fprintf2(FILE *f, const char *fmt, unsigned long a, unsigned long b)
{
  if (f == stdout)
    {
      if (verif_out_fail()) return -1;
      mon_event_fmt(fmt, a, b);
      return 1;
    }
  if (f == stderr) { g_diag_inc(); return 1; }
  return nondet_bool() ? -1 : 1;
}

static void verif_perror(const char *s) { (void)s; g_diag_inc(); }

#define VERIF_A2(fmt, a, b, ...) (fmt), (unsigned long)(a), (unsigned long)(b)
#define fprintf(f, ...) verif_fprintf2((f), VERIF_A2(__VA_ARGS__, 0, 0, 0))
#define printf(...)     verif_fprintf2(stdout, VERIF_A2(__VA_ARGS__, 0, 0, 0))
#undef putchar
#undef putc
#undef fputc
#define putchar(c)      verif_fputc((c), stdout)
#define fputc(c, f)     verif_fputc((c), (f))
#define fputs(s, f)     verif_fputs((s), (f))
#define perror(s)       verif_perror(s)

/* ---- input: the ghost file ------------------------------------------------------------ */
#ifndef VERIF_FILE_MAX
#define VERIF_FILE_MAX (((size_t)1) << 24)   /* stated assumption: inputs of at most 16 MiB */
#endif
extern unsigned char g_file[__CPROVER_constant_infinity_uint];   /* contents: unconstrained */

static void fmon_consume(size_t n);     /* spec/basic_file_monitor.h */
static void fmon_eof(void);

static int verif_getc(FILE *f)
{
  __CPROVER_assert(f != 0, "C08: read from a NULL stream");
  if (g_pos >= g_len)
    {
      g_eof_seen = 1;
      fmon_eof();
      return EOF;
    }
  {
    int c = g_file[g_pos];
    g_pos++;
    fmon_consume(1);
    return c;
  }
}


static size_t verif_fread(void *dst, size_t size, size_t n, FILE *f)
{
  size_t want = n, got;
  __CPROVER_assert(f != 0, "C08: read from a NULL stream");
  __CPROVER_assert(size == 1, "model: fread element size is 1");
  got = g_len - g_pos;
  if (got > want) got = want;
  if (got < want) g_eof_seen = 1;
  if (nondet_bool())
    {
      size_t cut = nondet_size_t();
      if (cut < got) { got = cut; g_rd_err = 1; g_read_error_happened = 1; }
    }
  /* Contents: fread stores file bytes in dst[0..got).  Modelled as: the whole object dst points into becomes
     unconstrained (an over-approximation of every store fread can make), then the cell at the
     ghost index and the last cell delivered are pinned to the file's bytes.  Sound for any code
     (real contents are one of the modelled possibilities); precise enough because a consumer's
     contract states its element-wise facts at the ghost index. */
  if (want > 0)
    {
      __CPROVER_havoc_object(dst);
      if (fmon_gk < got) ((unsigned char *)dst)[fmon_gk] = g_file[g_pos + fmon_gk];
      if (got > 0) ((unsigned char *)dst)[got - 1] = g_file[g_pos + got - 1];
    }
  g_pos += got;
  g_last_fread_dst = dst;
  g_last_fread_n = got;
  fmon_consume(got);
  if (got < want && !g_rd_err) fmon_eof();
  return got;
}

/* ftell: the position, or -1 (a pipe or a terminal is not seekable: ESPIPE) -- C03: standard input lists like a file */
static long verif_ftell(FILE *f) { (void)f; return nondet_bool() ? -1L : (long)g_pos; }
static int verif_ferror(FILE *f) { (void)f; return g_rd_err; }
static void verif_clearerr(FILE *f) { (void)f; g_rd_err = 0; }

#undef getc
#undef fgetc
#define getc(f)        verif_getc(f)
#define fgetc(f)       verif_getc(f)
#define fread(p,s,n,f) verif_fread((p),(s),(n),(f))
#define ftell(f)       verif_ftell(f)
#define ferror(f)      verif_ferror(f)
#define clearerr(f)    verif_clearerr(f)

#endif

/* ---- additional libc models used by bbcbasic_to_text.c / decoder.c (assumed contracts) -------- */
#ifndef VERIF_BASIC_STDIO_MAIN_H
#define VERIF_BASIC_STDIO_MAIN_H
#include <stdlib.h>
#include <string.h>
#include <unistd.h>
#include <getopt.h>

static int verif_optind = 1;
static char *verif_optarg;
static char verif_optarg_obj[16];         /* an option argument: 15 unconstrained chars + NUL */
static int verif_argc;                    /* set by the harness */
static _Bool g_stdin_used;

#define optind verif_optind
#define optarg verif_optarg

/* getopt_long per its contract: returns -1 (options exhausted), '?' (error, message already printed), a short option letter
   that occurs in the caller's optstring -- optarg is a NUL-terminated string if and only if the letter is followed by ':'
   there, and NULL otherwise -- or the val of one of the long options in the caller's table, whose optarg is a string if and
   only if that entry's has_arg is non-zero, and NULL otherwise.  optind stays within [1, argc]. */
static int verif_getopt_long(int argc, const char *optstring, const struct option *longopts)
{
  int r = nondet_int();
  int adv = nondet_int();
  __CPROVER_assume(adv >= 0 && adv <= 2 && verif_optind + adv <= argc);
  verif_optind += adv;
  verif_optarg = 0;
  if (r == -1) return -1;
  if (nondet_bool())
    {                                   /* a long option: entry k of the table */
      unsigned k = nondet_uint();
      __CPROVER_assume(k < 4 && longopts[k].name != 0);
      if (longopts[k].has_arg) { verif_optarg_obj[15] = 0; verif_optarg = verif_optarg_obj; }
      return longopts[k].val;
    }
  if (nondet_bool()) { g_diag_inc(); return '?'; }   /* getopt itself prints the error message */
  {                                     /* a short option: position i of the optstring (at most 15 characters) */
    unsigned i = nondet_uint();
    __CPROVER_assume(i < 15);
#define VERIF_GO_(k) if (i >= (k)) __CPROVER_assume(optstring[k] != 0);
    VERIF_GO_(0) VERIF_GO_(1) VERIF_GO_(2) VERIF_GO_(3) VERIF_GO_(4) VERIF_GO_(5) VERIF_GO_(6) VERIF_GO_(7)
    VERIF_GO_(8) VERIF_GO_(9) VERIF_GO_(10) VERIF_GO_(11) VERIF_GO_(12) VERIF_GO_(13) VERIF_GO_(14)
#undef VERIF_GO_
    __CPROVER_assume(optstring[i] != '+' && optstring[i] != ':' && optstring[i] != '-' && optstring[i] != '?');
    if (optstring[i + 1] == ':') { verif_optarg_obj[15] = 0; verif_optarg = verif_optarg_obj; }
    return optstring[i];
  }
}
#define getopt_long(argc, argv, s, o, li) verif_getopt_long((argc), (s), (o))

/* strcmp: the real semantics on strings of at most 15 characters (every string a harness supplies
   -- option arguments, argv words -- lives in a 16-byte NUL-terminated buffer; the program's own
   literals compared are shorter) */
static int verif_strcmp(const char *a, const char *b)
{
  unsigned k;
  for (k = 0; k < 16; ++k)
    {
      unsigned char x = (unsigned char)a[k], y = (unsigned char)b[k];
      if (x != y) return x < y ? -1 : 1;
      if (x == 0) return 0;
    }
  __CPROVER_assert(0, "model: strcmp on strings longer than 15 characters");
  return 0;
}
#define strcmp(a, b) verif_strcmp((a), (b))

static long verif_strtol(const char *s, char **end, int base)
{
  long v = nondet_long();
  size_t k = nondet_size_t();
  (void)base;
  __CPROVER_assert(s != 0, "C08: strtol is not handed a null pointer (an option that takes no argument has optarg == NULL)");
  __CPROVER_assume(k <= 15);
  if (k == 0) v = 0;
  *end = (char *)s + k;
  return v;
}
#define strtol(s, e, b) verif_strtol((s), (e), (b))

/* fopen: NULL or a stream positioned at the start of a (new) ghost file; the specification state
   for "a new program starts here" is reset with it */
static FILE *verif_fopen(const char *name, const char *mode)
{
  (void)name; (void)mode;
  if (nondet_bool()) { g_file_failures++; return 0; }
  g_pos = 0; g_eof_seen = 0; g_rd_err = 0; g_read_error_happened = 0;
  fmon_phase = 0 /* FPH_START */; fmon_lines = g_lines_listed;
  mon_indent_run = 0;
  return &verif_file_obj;
}
static int verif_fclose(FILE *f)
{
  __CPROVER_assert(f != 0, "C08: fclose on a NULL stream");
  if (nondet_bool()) { g_file_failures++; return EOF; }
  return 0;
}
static int verif_fflush(FILE *f)
{
  if (f == stdout) { if (verif_out_fail()) return EOF; return 0; }
  return nondet_bool() ? EOF : 0;
}
#define fopen(n, m) verif_fopen((n), (m))
#define fclose(f)   verif_fclose(f)
#define fflush(f)   verif_fflush(f)
#endif
