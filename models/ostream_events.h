/* std::ostream insertions as events (DESIGN.md 2.4/2.5).  Trusted: [ostream.formatted] semantics --
 * width resets to 0 after every formatted insertion, fill / base / uppercase / adjustment persist; badbit is
 * sticky and a stream in a failed state ignores insertions.  Each insertion may fail nondeterministically. */
#ifndef VERIF_OSTREAM_EVENTS_H
#define VERIF_OSTREAM_EVENTS_H
struct ostream { _Bool bad; int width; char fill; int base; _Bool upper; _Bool left; unsigned long events; };
enum { M_DEC, M_HEX, M_UPPER, M_NOUPPER, M_LEFT, M_RIGHT, M_NOSHOWBASE };
enum { EV_CHR, EV_STR, EV_NUM, EV_CSTR };
static struct cstr g_ev_cstr;                 /* payload of the last EV_CSTR event */
struct out_ev { int kind; unsigned long num; char chr; const char *str; int width; char fill; int base; _Bool upper, left; };
static void mon_out(struct ostream *os, const struct out_ev *e);      /* per-harness specification monitor */

static void os_emit(struct ostream *os, int kind, unsigned long num, char chr, const char *str)
{
  struct out_ev e;
  if (os->bad) return;
  if (nondet_bool()) { os->bad = 1; return; }          /* the write fails: badbit */
  e.kind = kind; e.num = num; e.chr = chr; e.str = str;
  e.width = os->width; e.fill = os->fill; e.base = os->base; e.upper = os->upper; e.left = os->left;
  os->width = 0;
  if (os->events < (1ul << 60)) os->events++;
  mon_out(os, &e);
}
#define OUT_SETW(os, n)    ((os)->width = (int)(n))
#define OUT_SETFILL(os, c) ((os)->fill = (char)(c))
#define OUT_SETBASE(os, b) ((os)->base = (int)(b))
static void os_init(struct ostream *os) { os->bad = 0; os->width = 0; os->fill = ' '; os->base = 10; os->upper = 0; os->left = 0; os->events = 0; }
static void os_manip(struct ostream *os, int m)
{
  switch (m)
    {
    case M_DEC: os->base = 10; break;
    case M_HEX: os->base = 16; break;
    case M_UPPER: os->upper = 1; break;
    case M_NOUPPER: os->upper = 0; break;
    case M_LEFT: os->left = 1; break;
    case M_RIGHT: os->left = 0; break;
    default: break;
    }
}
#define OUT_MANIP(os, m)   os_manip((os), (m))
#define OUT_CHR(os, c)     os_emit((os), EV_CHR, 0, (char)(c), 0)
#define OUT_STR(os, s)     os_emit((os), EV_STR, 0, 0, (s))
#define OUT_NUM(os, v)     os_emit((os), EV_NUM, (unsigned long)(v), 0, 0)
/* a std::string (models/dfs_model.h struct cstr): one formatted insertion of the whole string */
#define OUT_CSTR(os, s)    do { g_ev_cstr = (s); os_emit((os), EV_CSTR, 0, 0, 0); } while (0)
/* operator<< overload resolution on the C type of the expression: char prints as a character, integers as numbers */
#define OUT_VAL(os, x) _Generic((x), char: os_emit((os), EV_CHR, 0, (char)(unsigned long)(x), 0), \
                                     default: os_emit((os), EV_NUM, (unsigned long)(x), 0, 0))

/* ostream::write(ptr, n).good(): one unformatted write event (may fail: badbit); std::vector<byte>(first, last) */
static void mon_write(struct ostream *os, const byte *p, size_t n);     /* per-harness */
static bool os_write(struct ostream *os, const byte *p, size_t n)
{
  if (os->bad) return 0;
  if (nondet_bool()) { os->bad = 1; return 0; }
  if (os->events < (1ul << 60)) os->events++;
  mon_write(os, p, n);
  return 1;
}
#ifndef BYTEBUF_CAP
#define BYTEBUF_CAP (1ul << 18)      /* 18-bit file length */
#endif
struct bytebuf { size_t n; byte *d; };
static byte g_bytebuf_store[BYTEBUF_CAP];
static size_t g_k2;                  /* ghost index */
static struct bytebuf bytebuf_from(const byte *first, const byte *last)
{
  struct bytebuf b;
  b.n = (size_t)(last - first);
  __CPROVER_assert(b.n <= BYTEBUF_CAP, "model: file bodies have at most 2^18 bytes");
  b.d = g_bytebuf_store;
  /* contents: a copy of [first, last); modelled as unconstrained except at the ghost index */
  __CPROVER_havoc_object(g_bytebuf_store);
  if (g_k2 < b.n) g_bytebuf_store[g_k2] = first[g_k2];
  return b;
}
#endif
