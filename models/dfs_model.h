/* C environment for function bodies extracted from /repo/dfs (DESIGN.md 2.2, 2.4).
 * Types mirror the C++ declarations field for field where the extracted code touches them.
 * Trusted models (assumed contracts): DataAccess::read_block, std::function visitors, exceptions, ldiv. */
#ifndef VERIF_DFS_MODEL_H
#define VERIF_DFS_MODEL_H
#include <stddef.h>
#include <stdbool.h>
#include <stdint.h>
#include <limits.h>

#ifdef VERIF_VACUITY
#define VERIF_COVER(c, what) __CPROVER_assert(!(c), "COVER " what)
#else
#define VERIF_COVER(c, what) ((void)0)
#endif

_Bool nondet_bool(void);
int nondet_int(void);
unsigned nondet_uint(void);
unsigned char nondet_uchar(void);
unsigned long nondet_ulong(void);
size_t nondet_size_t(void);
long nondet_long(void);
char nondet_char(void);

typedef unsigned char byte;
typedef unsigned int sector_count_type;
enum { SECTOR_BYTES = 256 };
#define UINT_MAX_AS_LONG ((long)UINT_MAX)
#define INT_MAX_C INT_MAX

/* assert(): an obligation in the assertions-on configuration, nothing under NDEBUG (C19) */
#ifdef NDEBUG
#define VERIF_ASSERT(e) ((void)0)
#else
#define VERIF_ASSERT(e) __CPROVER_assert((e), "assert() of the repository holds under the function's precondition")
#endif

/* ---- exceptions ------------------------------------------------------------------------- */
enum { EXC_NONE = 0, EXC_BadFileSystem, EXC_OsError, EXC_Other,
       /* where the dynamic type decides which handler catches it (driveselector.cc): <stdexcept> classes by name */
       EXC_BadSurfaceSelector, EXC_std_out_of_range, EXC_std_invalid_argument, EXC_std_range_error, EXC_std_runtime_error,
       EXC_std_logic_error, EXC_std_length_error, EXC_std_domain_error, EXC_std_overflow_error, EXC_std_underflow_error };
static int g_exc;                 /* pending exception type */
static _Bool g_exc_by_pointer;    /* `throw new X` : escapes catch (std::exception&) */
#define VERIF_THROW(type, by_pointer) do { g_exc = EXC_##type; g_exc_by_pointer = (by_pointer); } while (0)

/* ---- std::optional<SectorBuffer> / SectorBuffer ------------------------------------------- */
typedef struct { byte d[SECTOR_BYTES]; } SectorBuffer;
typedef struct { _Bool has; SectorBuffer val; } opt_SectorBuffer;

/* ---- ldiv (no body in CBMC's library): C11 7.22.6.2 ---------------------------------------- */
typedef struct { long quot; long rem; } verif_ldiv_t;
static verif_ldiv_t verif_ldiv(long n, long d)
{
  verif_ldiv_t r;
  r.quot = n / d;
  r.rem = n % d;
  return r;
}

/* ---- DataAccess::read_block: deterministic partial function of (object, lba) -------------- */
struct DataAccess { int id; };
static unsigned long g_rb_calls;          /* number of read_block calls on the monitored object */
static unsigned long g_rb_last_lba;
static struct DataAccess *g_rb_last_obj;
static SectorBuffer g_rb_last_buf;        /* what the last successful call delivered */
static _Bool g_rb_last_ok;
static void mon_read_block(struct DataAccess *obj, unsigned long lba);   /* per-harness monitor */
static void mon_read_result(struct DataAccess *obj, _Bool ok);

static opt_SectorBuffer DataAccess_read_block(struct DataAccess *obj, unsigned long lba)
{
  opt_SectorBuffer r;                      /* contents unconstrained */
  mon_read_block(obj, lba);
  g_rb_calls++;
  g_rb_last_lba = lba;
  g_rb_last_obj = obj;
  g_rb_last_ok = r.has;
  g_rb_last_buf = r.val;
  mon_read_result(obj, r.has);
  return r;
}

/* ---- FileAccess::read(pos, len) -> std::vector<byte>: at most len bytes (short at EOF) --------- */
struct bytevec { size_t n; byte d[SECTOR_BYTES]; };
struct FileAccess;
static unsigned long g_fa_calls, g_fa_last_pos, g_fa_last_len;
static struct bytevec g_fa_last;
static struct bytevec FileAccess_read(struct FileAccess *f, unsigned long pos, unsigned long len)
{
  struct bytevec r;              /* contents unconstrained */
  (void)f;
  __CPROVER_assert(len <= SECTOR_BYTES, "model: FileAccess::read of at most one sector here");
  __CPROVER_assume(r.n <= len);
  g_fa_calls++; g_fa_last_pos = pos; g_fa_last_len = len; g_fa_last = r;
  return r;
}
static void bytevec_copy(const struct bytevec *v, byte *dst)    /* std::copy(v.begin(), v.end(), dst) */
{
  size_t i;
  for (i = 0; i < SECTOR_BYTES; ++i)
    if (i < v->n) dst[i] = v->d[i];
}

/* std::all_of(first, first+n, [](byte b){ return b == v; }) over a fixed byte range (rule in props/dfs_specs.py) */
static _Bool g_allof_result;
static bool bytes_all_equal(const byte *p, unsigned n, byte v)
{
  _Bool all;
  __CPROVER_assert(n == 8, "model: bytes_all_equal over exactly 8 bytes");
  all = p[0] == v && p[1] == v && p[2] == v && p[3] == v && p[4] == v && p[5] == v && p[6] == v && p[7] == v;
  g_allof_result = all;
  return all;
}

/* ---- drive numbers (driveselector.h: class SurfaceSelector { unsigned int d_; }) by value ------- */
typedef unsigned int surface_t;
#define VERIF_ABORT() __CPROVER_assert(0, "C07: abort() is unreachable")
/* std::function<bool(drive_number)> occupied: the occupancy of every drive number (ghost, unbounded) */
struct occ_fn { int id; };
extern _Bool g_occ[__CPROVER_constant_infinity_uint];
static bool occupied_call(struct occ_fn *f, surface_t d) { (void)f; return g_occ[d]; }

/* ---- div (no body in CBMC's library): C11 7.22.6.2 --------------------------------------------- */
typedef struct { int quot; int rem; } verif_div_t;
static verif_div_t verif_div(int n, int d)
{
  verif_div_t r;
  r.quot = n / d;
  r.rem = n % d;
  return r;
}

/* ---- std::vector<char>::push_back on a short vector; toupper/tolower in the C locale (axioms, cross-checked
        natively over 0..255 by setup.sh) ----------------------------------------------------------------- */
struct charvec { unsigned n; char d[8]; };
static void charvec_push(struct charvec *v, char c)
{
  __CPROVER_assert(v->n < 8, "model: at most 8 characters are appended per wildcard character");
  if (v->n < 8) v->d[v->n] = c;
  v->n++;
}
static int verif_toupper(int c) { return (c >= 'a' && c <= 'z') ? c - 32 : c; }
static int verif_tolower(int c) { return (c >= 'A' && c <= 'Z') ? c + 32 : c; }

/* ---- std::string of at most 15 characters (file names: 1 + 1 + 7): the operations used by the
        extracted name-construction code, with their std::string semantics (trusted) ------------------- */
struct cstr { unsigned n; char d[16]; };
static unsigned long g_diag;
static void cstr_push(struct cstr *s, char c)
{
  __CPROVER_assert(s->n < 15, "model: short string");
  if (s->n < 15) s->d[s->n] = c;
  s->n++;
}
static char cstr_back(const struct cstr *s)               /* std::string::back(): undefined on an empty string */
{
  __CPROVER_assert(s->n >= 1, "C07: back() on an empty std::string is undefined");
  return s->n >= 1 && s->n <= 15 ? s->d[s->n - 1] : 0;
}
static char cstr_front(const struct cstr *s)              /* std::string::front(): undefined on an empty string */
{
  __CPROVER_assert(s->n >= 1, "C07: front() on an empty std::string is undefined");
  return s->n >= 1 ? s->d[0] : 0;
}
static struct cstr cstr_rtrim(struct cstr s)            /* stringutil::rtrim: strip trailing spaces */
{
  while (s.n > 0 && s.d[s.n - 1] == ' ') s.n--;
  return s;
}
static struct cstr cstr_dir_dot_name(char dir, struct cstr name)   /* string(1, dir) + "." + name */
{
  struct cstr r; unsigned i;
  r.n = 0; cstr_push(&r, dir); cstr_push(&r, '.');
  for (i = 0; i < 7; ++i) if (i < name.n) cstr_push(&r, name.d[i]);
  __CPROVER_assert(name.n <= 7, "model: DFS names have at most 7 characters");
  return r;
}
static bool cstr_has_char(const struct cstr *s, char c)            /* s.find(c) != npos */
{
  unsigned i; _Bool f = 0;
  for (i = 0; i < 15; ++i) if (i < s->n && s->d[i] == c) f = 1;
  return f;
}
static bool cstr_is(const struct cstr *s, const char *lit)          /* s == "literal" (at most 2 chars used) */
{
  unsigned k = 0;
  while (k < 3 && lit[k]) k++;
  if (s->n != k) return 0;
  return (k < 1 || s->d[0] == lit[0]) && (k < 2 || s->d[1] == lit[1]);
}

/* ---- FileAccess::read(pos, len) over a ghost file of g_flen bytes: returns exactly the bytes that exist
        (std::vector<byte> of min(len, flen - pos) elements, heap-allocated so that reads past size() are caught) */
struct dynvec { size_t n; byte *d; };
static unsigned long g_flen;
static byte g_dyn_store[64];      /* backing store: a vector of n bytes is the LAST n bytes of this object, so that
                                     any access at or beyond size() leaves the object and is caught by the bounds check */
static struct dynvec FileAccess_read_dyn(struct FileAccess *f, unsigned long pos, unsigned long len)
{
  struct dynvec r;
  (void)f;
  __CPROVER_assert(len <= (1ul << 20), "C07: no allocation request larger than 1 MiB is driven by sizes declared in the file");
  __CPROVER_assert(len <= 64, "model: header-sized reads only");
  r.n = pos >= g_flen ? 0 : (g_flen - pos < len ? g_flen - pos : len);
  __CPROVER_havoc_object(g_dyn_store);          /* contents unconstrained */
  r.d = r.n ? g_dyn_store + (64 - r.n) : (byte *)0;
  return r;
}
static void bytes_copy7(char *dst, const byte *src) { unsigned i; for (i = 0; i < 7; ++i) dst[i] = (char)src[i]; }
#endif
