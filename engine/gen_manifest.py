#!/usr/bin/env python3
"""Regenerates MANIFEST.json from the table below (kept in one place so it stays valid)."""
import json, os
V = os.path.dirname(os.path.dirname(os.path.abspath(__file__)))
TECH = "contract-based deductive verification: CBMC 6.11 code contracts (goto-instrument --dfcc, loop contracts), SAT back end"
CHECKS = {
 "C01": ("proof for the data path: field decoding, sector walk, volume window", "name lookup/mount and the type/list/dump renderings are outside the verified set (DESIGN.md C01)"),
 "C02": ("proof for field decoding and sign extension", "cat layout/ordering, show-titles, .inf line outside the verified set so far (DESIGN.md C02)"),
 "C03": ("proof: table lemma, line lemmas against the doc-derived monitor, framing lemma over an unbounded ghost file", "stdio model, token oracle from the pinned golden map, files <= 16 MiB"),
 "C04": ("proof: FileView position formula per (take, leave) geometry, byte offset of container sectors", "view constructors and geometry selection outside the verified set so far"),
 "C05": ("proof of the leaf lemmas only (bit addressing, bit reversal, header field decoding); the end-to-end clause is undecided and reported as such", "track state machines and adapters outside the verified set (DESIGN.md C05)"),
 "C06": ("proof of the CRC-16/CCITT step and fold, bit addressing, MFM clock rule (thorough tier); the decoder clause is undecided", "decode_*_track state machines outside the verified set (DESIGN.md C06)"),
 "C07": ("proof of function-level safety for the extracted parsers on arbitrary bytes (reduced scope, see DESIGN.md C07)", "whole-program clause (exit status, signals) is outside any contract"),
 "C12": ("proof of path confinement for extract-files", "read-only-ness of images is a fact about library calls, outside contracts"),
 "C13": ("proof for the HDFS/Watford probes and their read-set", "Opus probe, geometry selection outside the verified set"),
 "C14": ("proof for the used/free computation of `free`", "space, sector-map, extract-unused not under contract yet"),
 "C15": ("proof for the wildcard -> ERE translation under stated POSIX axioms", "regex engine assumed; name comparison helpers not extractable"),
 "C16": ("proof for drive-number arithmetic and check_sequence_fits", "connect_drives, mount, MMB history clause outside so far"),
 "C08": ("proof: safety obligations of every basic/ function for arbitrary bytes, exit status in {0,1}, non-zero => diagnostic", "libc modelled (stdio, getopt, strtol, strcmp); <= 64 argv words"),
 "C09": ("proof: framing automaton, no-invention precondition on decode_line, token rejection", "stated allowances (empty file, trailing bytes after LE marker, 0D FF xx)"),
 "C10": ("proof of clause (ii) under the zlib.h contract of inflate: no byte lost or duplicated, normal exit only at Z_STREAM_END, every other outcome an exception by value", "clause (i) (extension/hint logic) is outside the verified set; zlib itself assumed"),
 "C11": ("proof for bbcbasic_to_text under the strict write-failure model; dfs: main tail (flush + test of std::cout), type body, write_span of extract-unused", "other dfs commands rely on the main-tail check; extract-files' ofstream handling not under contract; -D dump contract assumed"),
 "C17": ("proof for Volume::Access::read_block and the sector walk", "Opus volume table construction and flux adapters outside so far"),
 "C19": ("proof: every basic/ harness in both assert configurations against the same contracts", "functions outside the verified set only covered by a clang-tidy supporting fact"),
}
NA = {
 "C18": "relational two-run property about iostream formatting inside functions that cannot be extracted; the extractor drops `if (verbose)` blocks by rule, so the verified text cannot speak about them (DESIGN.md C18)",
}
PENDING = {k: "contract not implemented yet (see DESIGN.md section 3 for the plan)" for k in
           []}
def main():
    checks = []
    for pid in sorted(CHECKS):
        if not os.path.exists(os.path.join(V, "props", pid + ".py")):
            continue
        txt, note = CHECKS[pid]
        checks.append({
            "property_id": pid,
            "quick_cmd": "./check %s --tier quick" % pid,
            "thorough_cmd": "./check %s --tier thorough" % pid,
            "evidence_file": "evidence/%s.json" % pid,
            "replay_cmd_template": "./check %s --replay {path}" % pid,
            "engine": "cbmc-contracts",
            "level_claimed": {"category": "proof", "text": txt, "design_ref": "DESIGN.md section 3, " + pid},
            "level_note": note,
            "technique": TECH,
        })
    na = [{"property_id": k, "reason": v} for k, v in sorted({**NA, **{k: v for k, v in PENDING.items() if k not in CHECKS or not os.path.exists(os.path.join(V, "props", k + ".py"))}}.items())]
    m = {
        "version": 1,
        "setup_cmd": "./setup.sh",
        "hooks": {
            "guard": "BEEBTOOLS_VERIF",
            "enable": "harnesses compile /repo/basic/*.c with goto-cc -DBEEBTOOLS_VERIF -I/verif/contracts (VERIF_LOOP(name) expands to the CBMC loop contract, VERIF_CONST_DATA to const); dfs/ needs no hooks (functions are extracted mechanically on every run)",
            "baseline_off_cmd": "cmake -G Ninja -S /repo -B /repo/_build && cmake --build /repo/_build && ctest --test-dir /repo/_build -j8 --timeout 900",
            "source_commits": ["b1674e2", "e05e604"],
            "add_only": True,
        },
        "engines": [{"name": "cbmc-contracts", "path": "engine/run.py", "serves_properties": sorted(c["property_id"] for c in checks),
                     "kind_free_text": "goto-cc -> goto-instrument --dfcc (enforce / replace contracts, loop contracts) -> cbmc; extraction of dfs C++ bodies to C by engine/cxx2c.py"}],
        "checks": checks,
        "not_applicable": na,
        "notes": "exit 2 = undecided (tool limit, timeout, extraction break), never reported as a violation",
    }
    json.dump(m, open(os.path.join(V, "MANIFEST.json"), "w"), indent=1)
if __name__ == "__main__":
    main()
