#!/usr/bin/env python3
"""Regenerates MANIFEST.json from the table below (kept in one place so it stays valid)."""
import json, os
V = os.path.dirname(os.path.dirname(os.path.abspath(__file__)))
TECH = "contract-based deductive verification: CBMC 6.11 code contracts (goto-instrument --dfcc, loop contracts), SAT back end"
CHECKS = {
 "C01": ("proof for the data path: field decoding (all 2^64 entries), sector walk (loop contract + read/visitor monitor), volume window, the type / list / dump renderings, and the path to the file: parse_filename, the catalogue fragment search, has_name (an equivalence) and body_command (that volume's catalogue, that volume's data region)", "StorageConfiguration::mount and std::find_if inside one fragment are outside the verified set (DESIGN.md C01)"),
 "C02": ("proof for field decoding, sign extension, the info line, the .inf line, the catalogue header (title, cycle, boot option, total sectors), the title-and-cycle field and the ordering key of cat", "std::sort itself, cat column layout, show-titles outside the verified set (DESIGN.md C02)"),
 "C03": ("proof: table lemma, line lemmas against the doc-derived monitor, framing lemma over an unbounded ghost file", "stdio model, token oracle from the pinned golden map, files <= 16 MiB"),
 "C04": ("proof: FileView position formula per (take, leave) geometry, byte offset of container sectors, view construction of .ssd/.sdd/.dsd/.ddd/.mmb, one drive per view, dump-sector argument check and address", "geometry *selection* plumbing (filter_formats, min_element) outside the verified set"),
 "C05": ("proof for the bit level (bit order, stride/offset addressing, copy_hfe for HFE v1 and v3 opcodes with the decoding state carried across side blocks, MFM byte), track-list completeness, track length rounding and both flux adapters' address lookup; the end-to-end 'same sectors as the .ssd' clause is undecided", "the rest of read_all_sectors and compute_geometry outside; the width of a SKIPBITS operand is taken from the code (DESIGN.md C05)"),
 "C06": ("proof: CRC-16/CCITT step and fold, scan_for (first match, window contents), MFM and FM byte / copy functions, check_crc_with_a1s / get_crc, and both decoder state machines (every yielded sector: ID and data fields passed the CRC, data field belongs to that ID field, data exactly between mark and CRC); image-level lookup by address", "read_all_sectors and std::sort outside; CRC blocks <= 24 bytes quick / 261 bytes thorough; termination of the decoder loops not proved"),
 "C07": ("proof of function-level safety for the extracted parsers on arbitrary bytes, bounded allocation, termination of the HxC/MMB/track loops, exceptions by value, no exception escaping SurfaceSelector::parse, FileView::read_block on unformatted views (reduced scope, see DESIGN.md C07)", "whole-program clause (exit status, signals) is outside any contract"),
 "C08": ("proof: safety obligations of every basic/ function for arbitrary bytes, exit status in {0,1}, non-zero => diagnostic", "libc modelled (stdio, getopt, strtol, strcmp); <= 64 argv words"),
 "C09": ("proof: framing automaton, no-invention precondition on decode_line, token rejection", "stated allowances (empty file, trailing bytes after LE marker, 0D FF xx)"),
 "C10": ("proof: same geometry hints with and without .gz; gzip format only; under the zlib.h contract of inflate no byte lost or duplicated, normal exit only at Z_STREAM_END, every other outcome an exception by value, both inflate loops terminate (decreases clauses over the zlib model); DecompressedFile::read and OsFile::read return exactly the bytes that exist; ends_with / remove_suffix act on the end of the name", "container choice in make_image_file outside the verified set; zlib itself assumed"),
 "C11": ("proof for bbcbasic_to_text under the strict write-failure model; dfs: main tail (flush + test of std::cout) and the --help path, type body, write_span of extract-unused, the body-file and .inf write paths of extract-files", "other dfs commands rely on the main-tail check; -D dump contract assumed"),
 "C12": ("proof of path confinement for extract-files and extract-unused; input files (OsFile, gz input) are opened read-only, with an inventory pre-check that these are all the places dfs opens a file", "that no write call is reachable on an input stream is a fact about library calls, outside contracts; the inventory is a static scan, not a proof"),
 "C13": ("proof for the HDFS/Watford probes, the probe order of probe_format / smells_like_acorn_dfs with the variant's sector count, the geometry decisions of probe_geometry (large enough, other side, preference), CatalogFragment::valid (header checks and entry loop) and what the OpusDiscCatalogue constructor takes from sector 16", "the decision structure of smells_like_opus_ddos and the entry loop of catalogue validity are unconstrained models; candidate-list plumbing outside"),
 "C14": ("proof for free (used/free arithmetic), extract-unused (span loop to its end + write_span), get_sector_map, Volume / Catalog / OpusDiscCatalogue map_sectors, and the gap bookkeeping of space (initial gap, per-entry gap, maybe_gap)", "the ordering loops of space and SectorMap (std::map) outside the verified set"),
 "C15": ("proof for the wildcard -> ERE translation under stated POSIX axioms, parse_filename (defaults, :drive. prefix, dir/name split), VolumeSelector assignment and default prefixes, case-insensitive comparison, CatalogEntry::has_name and the catalogue fragment search", "regex engine assumed; std::find_if plumbing and VolumeSelector::parse beyond the drive number outside"),
 "C16": ("proof for drive-number arithmetic, check_sequence_fits, StorageConfiguration::connect_drives (both policies, unbounded occupancy), ViewFile::connect_drives, one step of main's option loop and the option table, decimal drive numbers, and the range of drives --show-config lists", "mount, the text of a --show-config line and the MMB history clause outside"),
 "C17": ("proof for Volume::Access::read_block, the sector walk, FileView take-windows, Opus volume extents (disjoint, ordered, inside the disc) the access window each Volume is constructed with (both creation sites) and the view of each MMB slot", "the std::sort of the Opus volumes outside"),
 "C19": ("proof: every basic/ harness and every extracted dfs function containing an assert, in both assert configurations against the same contracts; plus a static scan (not a proof) of every assert argument and NDEBUG conditional elsewhere, which makes the check undecided when one may change state", "build_mapping with its own asserts on (memory); functions outside the verified set are covered by the scan only"),
}
NA = {
 "C18": "relational two-run property about iostream formatting inside functions that cannot be extracted; the extractor drops `if (verbose)` blocks by rule, so the verified text cannot speak about them (DESIGN.md C18)",
}
PENDING = {k: "contract not implemented yet (see DESIGN.md section 3 for the plan)" for k in
           []}
def main():
    checks = []
    for pid in sorted(CHECKS):
        if not os.path.exists(os.path.join(V, "props", pid + ".py")):
            continue
        txt, note = CHECKS[pid]
        checks.append({
            "property_id": pid,
            "quick_cmd": "./check %s --tier quick" % pid,
            "thorough_cmd": "./check %s --tier thorough" % pid,
            "evidence_file": "evidence/%s.json" % pid,
            "replay_cmd_template": "./check %s --replay {path}" % pid,
            "engine": "cbmc-contracts",
            "level_claimed": {"category": "proof", "text": txt, "design_ref": "DESIGN.md section 3, " + pid},
            "level_note": note,
            "technique": TECH,
        })
    na = [{"property_id": k, "reason": v} for k, v in sorted({**NA, **{k: v for k, v in PENDING.items() if k not in CHECKS or not os.path.exists(os.path.join(V, "props", k + ".py"))}}.items())]
    m = {
        "version": 1,
        "setup_cmd": "./setup.sh",
        "hooks": {
            "guard": "BEEBTOOLS_VERIF",
            "enable": "harnesses compile /repo/basic/*.c with goto-cc -DBEEBTOOLS_VERIF -I/verif/contracts (VERIF_LOOP(name) expands to the CBMC loop contract, VERIF_CONST_DATA to const); dfs/ needs no hooks (functions are extracted mechanically on every run)",
            "baseline_off_cmd": "cmake -G Ninja -S /repo -B /repo/_build && cmake --build /repo/_build && ctest --test-dir /repo/_build -j8 --timeout 900",
            "source_commits": ["b1674e2", "e05e604"],
            "add_only": True,
        },
        "engines": [{"name": "cbmc-contracts", "path": "engine/run.py", "serves_properties": sorted(c["property_id"] for c in checks),
                     "kind_free_text": "goto-cc -> goto-instrument --dfcc (enforce / replace contracts, loop contracts) -> cbmc; extraction of dfs C++ bodies to C by engine/cxx2c.py"}],
        "checks": checks,
        "not_applicable": na,
        "notes": "exit 2 = undecided (tool limit, timeout, extraction break), never reported as a violation",
    }
    json.dump(m, open(os.path.join(V, "MANIFEST.json"), "w"), indent=1)
if __name__ == "__main__":
    main()
