"""Replay files: turn a failed obligation into /verif/replays/<id>-<job>-<obl>.json and,
where the job has a native replay driver, run the REAL code on the counterexample."""
import json, os, re, sys, traceback

VERIF = os.path.dirname(os.path.dirname(os.path.abspath(__file__)))


def write_replay(pid, job, obl, result, mod, work):
    safe = re.sub(r"[^A-Za-z0-9_.-]", "_", "%s-%s-%s" % (pid, job.name, obl["name"]))
    path = os.path.join(VERIF, "replays", safe + ".json")
    rec = {
        "property": pid, "job": job.name, "obligation": obl["name"],
        "description": obl["description"],
        "source": "%s:%s (%s)" % (obl["file"], obl["line"], obl["function"]),
        "functions_under_contract": job.functions,
        "config": job.defines,
        "verifier_counterexample_inputs": obl.get("inputs", {}),
        "verifier_cmds": result["cmds"],
        "native_replay": None,
    }
    tail = "no-failing-input-found"
    if job.replay is not None:
        try:
            rep = job.replay(obl, rec["verifier_counterexample_inputs"], job, work)
            rec["native_replay"] = rep
            if rep and rep.get("reproduced"):
                tail = ""
        except Exception as e:
            rec["native_replay"] = {"reproduced": False, "error": "%s\n%s" % (e, traceback.format_exc())}
    else:
        rec["native_replay"] = {"reproduced": False,
                                "why": "no native replay driver for this obligation; the obligation "
                                       "passed on the pinned tree and fails now; verifier trace attached"}
    with open(path, "w") as f:
        json.dump(rec, f, indent=1)
    return path, tail


def replay_file(path, mod):
    rec = json.load(open(path))
    print(json.dumps(rec, indent=1)[:4000])
    nr = rec.get("native_replay") or {}
    return 1 if nr.get("reproduced") else 0
