#!/bin/bash
# seeded_all.sh: apply every seeded change in turn, run the check of its property restricted to the job recorded in
# meta.json, undo it; prints one line per change: CAUGHT / MISSED / BROKEN (exit 2 or patch does not apply)
cd /verif
# committed evidence only ever comes from the unchanged tree: keep it aside and put it back at the end
keep=$(mktemp -d); cp evidence/*.json $keep/
trap 'cp $keep/*.json /verif/evidence/; rm -rf $keep; git -C /repo checkout -- . 2>/dev/null' EXIT
for d in seeded/*/; do
  id=$(basename $d)
  [ -f $d/patch.diff ] || continue
  prop=$(python3 -c "import json;print(json.load(open('$d/meta.json'))['property'])")
  job=$(python3 -c "
import json,re
m=json.load(open('$d/meta.json')); f=m.get('failed_obligation') or ''
j=f.split('/')[0].strip()
j=re.sub(r'[*<].*$','',j)          # patterns like L2_print_target_* or L3_framing_<BE dialect>
print(j)")
  git -C /repo diff --quiet || { echo "$id: /repo has local changes"; exit 3; }
  if ! git -C /repo apply --check /verif/$d/patch.diff 2>/dev/null; then echo "$id: BROKEN (patch does not apply)"; continue; fi
  git -C /repo apply /verif/$d/patch.diff
  out=$(./check $prop --tier quick ${job:+--only "$job"} 2>&1 | grep -a "^VIOLATION\|^UNDECIDED\|^C[0-9][0-9] tier" | cut -c1-200)
  git -C /repo checkout -- .
  if echo "$out" | grep -q "^VIOLATION"; then echo "$id: CAUGHT $(echo "$out" | grep -m1 '^VIOLATION' | sed 's/.*obligation=//' | cut -d' ' -f1-2)";
  elif echo "$out" | grep -q "^UNDECIDED"; then echo "$id: BROKEN $(echo "$out" | grep -m1 '^UNDECIDED')";
  else echo "$id: MISSED ($out)"; fi
done
