#!/bin/sh
# mutest.sh <patch.diff> <property id> [--only regex]: apply a seeded change to /repo, run the check, undo the change
patch=$1; id=$2; shift 2
git -C /repo diff --quiet || { echo "/repo has local changes"; exit 3; }
git -C /repo apply "$patch" || { echo "patch does not apply"; exit 3; }
cd /verif && ./check $id --tier quick "$@" 2>&1 | grep -a "^C[0-9]\|^VIOLATION\|^KNOWN\|^UNDECIDED" | cut -c1-260
rc=$?
git -C /repo checkout -- .
exit 0
