#!/bin/sh
# mutest.sh <patch.diff> <property id> [--only regex]: apply a seeded change to /repo, run the check, undo the change.
# The property's evidence file and replay files are put back afterwards: committed evidence only ever comes from the unchanged tree.
patch=$1; id=$2; shift 2
git -C /repo diff --quiet || { echo "/repo has local changes"; exit 3; }
git -C /repo apply "$patch" || { echo "patch does not apply"; exit 3; }
cd /verif
keep=$(mktemp -d)
cp evidence/$id.json $keep/ 2>/dev/null
./check $id --tier quick "$@" 2>&1 | grep -a "^C[0-9]\|^VIOLATION\|^KNOWN\|^UNDECIDED" | cut -c1-260
git -C /repo checkout -- .
cp $keep/$id.json evidence/ 2>/dev/null
rm -rf $keep
exit 0
