"""Native replay drivers: run the REAL tools, built from /repo's current working tree in the scratch directory of the
run, on the verifier's counterexample.  A driver returns {"reproduced": bool, "cmd": ..., "observed": ..., "expected": ...}.
Used only after an obligation has failed; a reproduced counterexample removes the `no-failing-input-found` suffix from the
VIOLATION line.  The oracle of each driver is the same specification the contract states (recomputed here in Python)."""
import os, re, subprocess, threading

REPO = os.environ.get("VERIF_REPO", "/repo")
_lock = threading.Lock()


def build_native(work):
    """cmake + ninja build of the current tree, once per run (RelWithDebInfo: NDEBUG, as the pinned suite builds it)."""
    b = os.path.join(work, "native_build")
    with _lock:
        if not os.path.exists(os.path.join(b, ".done")):
            subprocess.run(["cmake", "-G", "Ninja", "-S", REPO, "-B", b, "-DCMAKE_BUILD_TYPE=RelWithDebInfo"],
                           check=True, capture_output=True, timeout=600)
            subprocess.run(["cmake", "--build", b], check=True, capture_output=True, timeout=1800)
            open(os.path.join(b, ".done"), "w").close()
    return b


def _num(inputs, *names):
    for n in names:
        if n in inputs:
            m = re.match(r"-?\d+", str(inputs[n].get("value", "")))
            if m:
                return int(m.group(0))
    return None


DIALECT_NAMES = {0: "6502", 1: "Z80", 2: "ARM", 3: "Windows", 4: "Mac", 5: "PDP11"}


def replay_print_target(obl, inputs, job, work):
    """C03: 0x8D b1 b2 b3 must list as the documented target line number."""
    b1, b2, b3 = _num(inputs, "b1_wrapper", "b1"), _num(inputs, "b2_wrapper", "b2"), _num(inputs, "b3_wrapper", "b3")
    if None in (b1, b2, b3):
        return {"reproduced": False, "why": "counterexample gives no values for b1, b2, b3"}
    expected = ((((b3 ^ (b1 << 4)) & 0xFF) << 8) | ((b2 ^ ((b1 << 2) & 0xC0)) & 0xFF))      # doc/bbcbasic.5 LINE NUMBERS
    d = 0
    for x in job.defines:
        if x.startswith("DIALECT="):
            d = int(x.split("=")[1])
    big_endian = d not in (1, 3)                       # Z80 and Windows programs are little-endian framed
    body = bytes([0x8D, b1, b2, b3])
    if big_endian:
        prog = bytes([0x0D, 0x00, 0x0A, 4 + len(body)]) + body + bytes([0x0D, 0xFF])
    else:
        prog = bytes([4 + len(body), 0x0A, 0x00]) + body + bytes([0x0D]) + bytes([0x00, 0xFF, 0xFF])
    build = build_native(work)
    path = os.path.join(work, "replay_%s.bbc" % job.name)
    open(path, "wb").write(prog)
    cmd = [os.path.join(build, "basic", "bbcbasic_to_text"), "--listo=0", "--dialect=" + DIALECT_NAMES[d], path]
    r = subprocess.run(cmd, capture_output=True, timeout=60)
    out = r.stdout.decode("latin-1")
    m = re.match(r"\s*10(\d+)\s*$", out)
    observed = int(m.group(1)) if m else None
    ok = (r.returncode == 0 and observed == expected)
    return {"reproduced": not ok, "cmd": " ".join(cmd), "program_bytes": prog.hex(), "expected": "exit 0 and '   10%d'" % expected,
            "observed": {"exit": r.returncode, "stdout": out[:200], "stderr": r.stderr.decode("latin-1")[:200]}}


def _test_image(work):
    img = os.path.join(REPO, "dfs", "testdata", "acorn-dfs-sd-40t.ssd.gz")
    return img


def replay_selector(obl, inputs, job, work):
    """C07: `dfs --drive N` must end with exit status 0 or 1 (diagnostic), never by a signal."""
    n = _num(inputs, "ld_wrapper", "ld")
    if n is None:
        n = _num(inputs, "STOL.value")
    if n is None:
        return {"reproduced": False, "why": "counterexample gives no drive number"}
    build = build_native(work)
    cmd = [os.path.join(build, "dfs", "dfs"), "--drive", str(n), "--file", _test_image(work), "cat"]
    r = subprocess.run(cmd, capture_output=True, timeout=60)
    bad = r.returncode not in (0, 1) or (r.returncode == 1 and not r.stderr)
    return {"reproduced": bad, "cmd": " ".join(cmd), "expected": "exit status 0, or 1 with a diagnostic",
            "observed": {"exit": r.returncode, "stderr": r.stderr.decode("latin-1")[:300]}}


def replay_dump_get_arg(obl, inputs, job, work):
    """C04: dump-sector must refuse a sector number outside 0..S-1 (S = 10 on the test image) with its range diagnostic,
    and must not refuse one inside."""
    n = _num(inputs, "n", "some_.val")
    if n is None:
        return {"reproduced": False, "why": "counterexample gives no argument value"}
    build = build_native(work)
    cmd = [os.path.join(build, "dfs", "dfs"), "--file", _test_image(work), "dump-sector", "0", "0", str(n)]
    r = subprocess.run(cmd, capture_output=True, timeout=60)
    err = r.stderr.decode("latin-1")
    refused = "should be between" in err or "should not" in err
    should_accept = 0 <= n <= 9
    bad = (refused == should_accept) or r.returncode not in (0, 1) or (not should_accept and r.returncode == 0)
    return {"reproduced": bad, "cmd": " ".join(cmd), "expected": "no range diagnostic exactly for 0..9; otherwise exit 1 with the diagnostic",
            "observed": {"exit": r.returncode, "stderr": err[:300], "stdout": r.stdout.decode("latin-1")[:120]}}


def replay_hfe3_opcodes(obl, inputs, job, work):
    """C05: HFEv3 opcodes next to a side-block boundary and SKIPBITS in a gap (engine/replay/hfe3_opcodes_demo.sh: the pinned
    wdfs-dd.hfe relabelled HXCHFEV3 with two bytes of a gap overwritten) must read exactly as the version-1 image.  The
    verifier's counterexample block is not turned into a whole image; these fixed placements are the ones the failed
    obligations of copy_hfe / the side-block loop stand for."""
    build = build_native(work)
    script = os.path.join(os.path.dirname(os.path.abspath(__file__)), "replay", "hfe3_opcodes_demo.sh")
    env = dict(os.environ, BEEBTOOLS_REPO=REPO, TMPDIR=work)
    r = subprocess.run(["bash", script, build], capture_output=True, timeout=600, env=env)
    out = r.stdout.decode("latin-1")
    cases = [l for l in out.splitlines() if l.startswith("CASE ")]
    return {"reproduced": r.returncode == 1, "cmd": "bash %s %s" % (script, build),
            "expected": "every case NOT REPRODUCED (output identical to the version-1 image), exit 0",
            "observed": {"exit": r.returncode, "cases": [c[:300] for c in cases]}}


def replay_hfe_lut_offset(obl, inputs, job, work):
    """C05: an HFE file whose track list is not in block 1 (header bytes 0x12/0x13 say where it is) must read exactly as the
    same image with the list in block 1.  Built from the pinned wdfs-dd.hfe: the list is copied to a new 512-byte block
    appended to the file, the header field is set to that block, the old list is zeroed."""
    import gzip
    build = build_native(work)
    src = os.path.join(REPO, "dfs", "testdata", "wdfs-dd.hfe.gz")
    data = bytearray(gzip.open(src).read())
    tracks = data[9]
    old = data[0x12] | (data[0x13] << 8)
    lut = bytes(data[512 * old:512 * old + 4 * tracks])
    while len(data) % 512:
        data.append(0xFF)
    newblk = len(data) // 512
    data += lut + b"\xff" * (512 - len(lut) % 512 if len(lut) % 512 else 0)
    data[0x12], data[0x13] = newblk & 0xFF, newblk >> 8
    data[512 * old:512 * old + 4 * tracks] = bytes(4 * tracks)
    base = os.path.join(work, "lut_base.hfe"); moved = os.path.join(work, "lut_moved.hfe")
    open(base, "wb").write(gzip.open(src).read()); open(moved, "wb").write(bytes(data))
    dfs = os.path.join(build, "dfs", "dfs")
    obs = []
    bad = False
    for args in (["cat"], ["info", "#.*"], ["free"]):
        a = subprocess.run([dfs, "--file", base] + args, capture_output=True, timeout=60)
        b = subprocess.run([dfs, "--file", moved] + args, capture_output=True, timeout=60)
        same = (a.returncode, a.stdout) == (b.returncode, b.stdout)
        bad = bad or not same
        obs.append({"args": args, "same": same, "exit": [a.returncode, b.returncode], "stderr_moved": b.stderr.decode("latin-1")[:200]})
    os.remove(base); os.remove(moved)
    return {"reproduced": bad, "cmd": "%s --file <wdfs-dd.hfe with the track list moved to block %d> cat|info|free" % (dfs, newblk),
            "expected": "same exit status and stdout as for the unmodified image", "observed": obs}
