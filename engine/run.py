#!/usr/bin/env python3
"""Orchestrates the contract proofs of one property.

  run.py <ID> [--tier quick|thorough] [--jobs N] [--only JOBNAME] [--keep]

Per job:   (extract C++ -> C) -> goto-cc -> goto-instrument --dfcc (contracts,
loop contracts) -> cbmc --json-ui  ->  parse obligations.
Exit 0: every obligation of every job discharged (or only listed known
findings failed).  Exit 1: an obligation failed -> VIOLATION line.  Exit 2:
tool problem / extraction break / timeout -- undecided, never a violation.
"""
import argparse, concurrent.futures as cf, hashlib, importlib.util, json, os, re
import shutil, subprocess, sys, tempfile, time, traceback

VERIF = os.path.dirname(os.path.dirname(os.path.abspath(__file__)))
REPO = os.environ.get("VERIF_REPO", "/repo")
sys.path.insert(0, os.path.join(VERIF, "engine"))

SAFETY = ["--bounds-check", "--pointer-check", "--div-by-zero-check",
          "--signed-overflow-check",
          "--undefined-shift-check", "--pointer-overflow-check"]
MEM_KB = 14 * 1024 * 1024


class ToolProblem(Exception):
    pass


class Job:
    """One proof job = one harness entry, one configuration."""
    def __init__(self, name, harness, entry, enforce=(), replace=(), loops=False,
                 defines=(), cbmc=(), tier="quick", extract=(), bounded=None,
                 timeout=900, sentinel=None, cover=False, functions=(),
                 safety=None, known=(), replay=None, expect_obligations=(),
                 allow_nobody=(), includes=(), solver=None, note="", nondfcc=False,
                 unwind_ok=False, objbits=12, local_frame_ok=(), pre_unwind=None, precheck=None):
        self.name = name
        self.harness = harness
        self.entry = entry
        self.enforce = list(enforce)
        self.replace = list(replace)
        self.loops = loops
        self.defines = list(defines)
        self.cbmc = list(cbmc)
        self.tier = tier
        self.extract = list(extract)
        self.bounded = bounded
        self.timeout = timeout
        self.sentinel = sentinel
        self.cover = cover
        self.functions = list(functions) or list(enforce)
        self.safety = SAFETY if safety is None else list(safety)
        self.known = list(known)
        self.replay = replay
        self.expect_obligations = list(expect_obligations)
        self.allow_nobody = list(allow_nobody)
        self.includes = list(includes)
        self.solver = solver
        self.note = note
        self.nondfcc = nondfcc
        self.unwind_ok = unwind_ok
        self.precheck = precheck        # callable(repo) -> None or a message: a guard that makes the job undecided (exit 2)
        self.objbits = objbits
        self.local_frame_ok = list(local_frame_ok)
        self.pre_unwind = pre_unwind


def sh(cmd, cwd=None, timeout=None, mem=True, stdout=subprocess.PIPE):
    pre = None
    if mem:
        def pre():
            import resource
            resource.setrlimit(resource.RLIMIT_AS, (MEM_KB * 1024, MEM_KB * 1024))
    t0 = time.time()
    try:
        p = subprocess.run(cmd, cwd=cwd, stdout=stdout, stderr=subprocess.PIPE,
                           timeout=timeout, preexec_fn=pre)
    except subprocess.TimeoutExpired:
        raise ToolProblem("timeout after %ss: %s" % (timeout, " ".join(cmd[:6])))
    return p.returncode, p.stdout.decode("utf-8", "replace") if p.stdout else "", \
        p.stderr.decode("utf-8", "replace"), time.time() - t0


def parse_cbmc_json(text):
    try:
        data = json.loads(text)
    except Exception as e:
        raise ToolProblem("cbmc JSON unparsable: %s ... %s" % (e, text[-400:]))
    results, msgs, status = [], [], None
    for x in data:
        if "result" in x:
            results = x["result"]
        elif "goals" in x:
            results = x["goals"]
        elif "cProverStatus" in x:
            status = x["cProverStatus"]
        elif "messageText" in x:
            msgs.append((x.get("messageType"), x["messageText"]))
    return results, msgs, status


def trace_inputs(trace):
    """Collect the last assignment to each harness-visible variable of a trace."""
    vals = {}
    order = []
    for st in trace or []:
        if st.get("stepType") != "assignment":
            continue
        lhs = st.get("lhs", "")
        if st.get("hidden") or lhs.startswith("__CPROVER") or "$" in lhs or "#" in lhs:
            continue
        v = st.get("value", {})
        val = v.get("data", v.get("name"))
        if val is None:
            continue
        fn = st.get("sourceLocation", {}).get("function", "")
        if fn in ("", "__CPROVER_initialize", "__CPROVER__start") or fn.startswith("__CPROVER_contracts"):
            continue
        key = lhs
        if key not in vals:
            order.append(key)
        vals[key] = {"value": val, "function": fn,
                     "line": st.get("sourceLocation", {}).get("line")}
    return {k: vals[k] for k in order}


def run_job(job, work, tier, log):
    """Returns dict with obligations etc.  Raises ToolProblem."""
    jw = os.path.join(work, job.name)
    os.makedirs(jw, exist_ok=True)
    info = {"job": job.name, "cmds": [], "extracted": []}
    if job.precheck is not None:
        msg = job.precheck(REPO)
        if msg:
            raise ToolProblem("precheck of %s: %s" % (job.name, msg))
    inc = ["-I", VERIF, "-I", jw, "-I", os.path.join(VERIF, "contracts"),
           "-I", os.path.join(VERIF, "models"), "-I", os.path.join(VERIF, "spec")]
    for i in job.includes:
        inc += ["-I", i.replace("$REPO", REPO)]
    # 1. extraction
    if job.extract:
        import cxx2c
        for spec in job.extract:
            try:
                rep = cxx2c.extract(spec, REPO, jw)
            except cxx2c.ExtractionBreak as e:
                raise ToolProblem("extraction break: %s" % e)
            info["extracted"].append(rep)
    defs = ["-DBEEBTOOLS_VERIF", "-DVERIF_REPO=\"%s\"" % REPO] + ["-D" + d for d in job.defines]
    harness = os.path.join(VERIF, job.harness)

    def build(extra_defs, tag):
        a = os.path.join(jw, "a_%s.gb" % tag)
        b = os.path.join(jw, "b_%s.gb" % tag)
        cmd = ["goto-cc", "-Wall", "--function", job.entry] + inc + defs + extra_defs + [harness, "-o", a]
        rc, out, err, _ = sh(cmd, timeout=900)
        info["cmds"].append(" ".join(cmd))
        if rc != 0:
            raise ToolProblem("goto-cc failed (%s):\n%s" % (job.name, (out + err)[-3000:]))
        # an undeclared function is implicitly int(): a harness input would silently lose its range
        undecl = sorted(set(re.findall(r"function '(\w+)' is not declared", out + err)))
        if undecl:
            raise ToolProblem("goto-cc: undeclared function(s) %s in %s" % (undecl, job.name))
        if job.pre_unwind:
            # loops without a contract nested inside a loop with a contract must be unwound first
            # (constant bounds; the unwinding assertion proves the bound suffices)
            a2 = os.path.join(jw, "u_%s.gb" % tag)
            cmd = ["goto-instrument", "--unwindset", job.pre_unwind, "--unwinding-assertions", a, a2]
            rc, out, err, _ = sh(cmd, timeout=300)
            info["cmds"].append(" ".join(cmd))
            if rc != 0:
                raise ToolProblem("goto-instrument --unwindset failed (%s):\n%s" % (job.name, (out + err)[-2000:]))
            a = a2
        if job.nondfcc:
            cmd = ["goto-instrument"]
            for f in job.enforce:
                cmd += ["--enforce-contract", f]
        else:
            cmd = ["goto-instrument", "--dfcc", job.entry]
            for f in job.enforce:
                cmd += ["--enforce-contract", f]
        replace_now = list(job.replace)
        if replace_now:
            # a static function the code under contract no longer calls is dropped by goto-cc: there is nothing to replace (and
            # dfcc refuses a name that has no symbol)
            rc0, out0, err0, _ = sh(["goto-instrument", "--list-goto-functions", a], timeout=300)
            present = set(m.group(1) for m in re.finditer(r"^([A-Za-z_]\w*) /\*([^\n]*)\*/", out0, re.M) if "body not available" not in m.group(2))
            if rc0 == 0 and present:
                gone = [f for f in replace_now if f not in present]
                if gone:
                    info.setdefault("replace_dropped_not_called", []).extend(gone)
                    replace_now = [f for f in replace_now if f in present]
        for f in replace_now:
            cmd += ["--replace-call-with-contract", f]
        if job.loops:
            cmd += ["--apply-loop-contracts"]
        if job.enforce or replace_now or job.loops:
            cmd += [a, b]
            rc, out, err, _ = sh(cmd, timeout=600)
            info["cmds"].append(" ".join(cmd))
            if rc != 0:
                raise ToolProblem("goto-instrument failed (%s):\n%s" % (job.name, (out + err)[-3000:]))
            for m in re.findall(r"no body for function '?([A-Za-z0-9_]+)", out + err):
                if m not in job.allow_nobody:
                    raise ToolProblem("goto-instrument: no body for function %s in %s" % (m, job.name))
        else:
            b = a
        return b

    def cbmc(b, extra, tag):
        base = ["cbmc", b, "--json-ui", "--drop-unused-functions"] + job.safety + job.cbmc + extra
        if job.objbits:
            base += ["--object-bits", str(job.objbits)]
        solver_flags = {"minisat": [], "cadical": ["--sat-solver", "cadical"], "cvc5": ["--cvc5"], "z3": ["--z3"],
                        "kissat": ["--external-sat-solver", "kissat"]}
        if job.solver == "portfolio":
            names = ["minisat", "cadical", "cvc5"]
        else:
            names = [job.solver or ("cadical" if os.environ.get("VERIF_DEFAULT_SOLVER") == "cadical" else "minisat")]
        procs = []
        t_start = time.time()
        for nm in names:
            outp = os.path.join(jw, "out_%s_%s.json" % (tag, nm))
            fo = open(outp, "wb")
            def pre():
                import resource
                resource.setrlimit(resource.RLIMIT_AS, (MEM_KB * 1024, MEM_KB * 1024))
                os.setsid()
            pr = subprocess.Popen(base + solver_flags[nm], stdout=fo, stderr=subprocess.DEVNULL, preexec_fn=pre)
            procs.append((nm, pr, outp, fo))
        info["cmds"].append(" ".join(base + (solver_flags[names[0]] if len(names) == 1 else ["<portfolio: minisat | cadical | cvc5, first to finish>"])))
        winner = None
        try:
            while True:
                running = 0
                for nm, pr, outp, fo in procs:
                    rc = pr.poll()
                    if rc is None:
                        running += 1
                    elif rc in (0, 10) and winner is None:
                        winner = (nm, rc, outp)
                if winner or running == 0:
                    break
                if time.time() - t_start > job.timeout:
                    raise ToolProblem("timeout after %ss: %s" % (job.timeout, " ".join(base[:6])))
                time.sleep(0.2)
        finally:
            for nm, pr, outp, fo in procs:
                if pr.poll() is None:
                    try:
                        os.killpg(pr.pid, 9)
                    except Exception:
                        pr.kill()
                    pr.wait()
                fo.close()
        secs = time.time() - t_start
        if winner is None:
            nm, pr, outp, fo = procs[0]
            text = open(outp, encoding="utf-8", errors="replace").read()
            raise ToolProblem("cbmc rc=%s (%s): %s" % (pr.returncode, job.name, text[-1500:]))
        nm, rc, outp = winner
        info.setdefault("solvers_used", []).append(nm)
        text = open(outp, encoding="utf-8", errors="replace").read()
        res, msgs, status = parse_cbmc_json(text)
        for typ, m in msgs:
            if "ignoring" in m and ("forall" in m or "exists" in m or "quantif" in m):
                raise ToolProblem("cbmc ignored a quantifier in %s: %s" % (job.name, m))
            mm = re.search(r"no body for function '?([A-Za-z0-9_]+)", m)
            if mm and mm.group(1) not in job.allow_nobody:
                raise ToolProblem("cbmc: no body for function %s in %s" % (mm.group(1), job.name))
        return res, secs

    t0 = time.time()
    b = build([], "main")
    res, secs = cbmc(b, [], "main")
    failing = [r.get("property") for r in res if r.get("status") == "FAILURE"]
    if failing:
        # second pass for counterexample traces, only for the failed obligations (at most 12)
        extra = []
        for pn in failing[:12]:
            extra += ["--property", pn]
        try:
            res_t, secs_t = cbmc(b, ["--trace"] + extra, "trace")
            traces = {r.get("property"): r.get("trace") for r in res_t if r.get("status") == "FAILURE"}
            for r in res:
                if r.get("property") in traces:
                    r["trace"] = traces[r.get("property")]
            secs += secs_t
        except ToolProblem:
            pass
    if not res:
        raise ToolProblem("job %s generated zero obligations" % job.name)
    # anonymous "assertion" obligations (loop-contract checks of for(;;) loops): fetch their expressions
    exprs = {}
    if any((r.get("description") or "") == "assertion" or r.get("status") == "FAILURE" for r in res):
        rc_, out_, _, _ = sh(["cbmc", b, "--drop-unused-functions", "--show-properties", "--json-ui"], timeout=300)
        try:
            for x in json.loads(out_):
                for pr in x.get("properties", []) if isinstance(x, dict) else []:
                    exprs[pr.get("name")] = pr.get("expression")
        except Exception:
            pass
    obligations = []
    for r in res:
        if (r.get("description") or "") == "assertion" and exprs.get(r.get("property")):
            r["description"] = "loop contract / instrumentation assertion: " + exprs[r["property"]]
        elif r.get("status") == "FAILURE" and exprs.get(r.get("property")) and "invariant" in (r.get("description") or ""):
            r["description"] = (r.get("description") or "") + ": " + exprs[r["property"]]
        o = {"name": r.get("property"), "status": r.get("status"),
             "description": r.get("description"),
             "file": r.get("sourceLocation", {}).get("file"),
             "line": r.get("sourceLocation", {}).get("line"),
             "function": r.get("sourceLocation", {}).get("function")}
        if r.get("status") == "FAILURE":
            # dfcc tool artefact (documented in DESIGN.md 2.3): a local declared in a loop body and stored
            # to in a loop-exit block is checked against the function write set, where its DECL was never
            # recorded.  A function's own automatic variable is invisible to callers, so the frame check is
            # moot; only the explicitly listed (function, local) pairs are exempted.
            m_ = re.match(r"Check that (\w+) is assignable", o["description"] or "")
            if m_ and (o["function"], m_.group(1)) in [tuple(x) for x in job.local_frame_ok] and ".assigns." in (o["name"] or ""):
                o["status"] = "SUCCESS"
                o["note"] = "frame check on the function's own local (dfcc artefact), exempted"
                info.setdefault("exempted", []).append(o["name"])
                obligations.append(o)
                continue
            o["inputs"] = trace_inputs(r.get("trace"))
        obligations.append(o)
    # A failed frame check on a LOCAL variable of the extracted code (a variable the source now assigns inside a loop under
    # contract, which the loop's assigns clause cannot know about) is a limit of the loop contract, not a violation of the
    # property: if such checks are the only failures the job is undecided (exit 2); next to other failures they are listed.
    failed_ = [o for o in obligations if o["status"] == "FAILURE"]
    if failed_ and job.extract:
        try:
            harness_text = open(os.path.join(VERIF, job.harness), encoding="utf-8", errors="replace").read()
        except OSError:
            harness_text = ""
        inc_text = ""
        for spec in job.extract:
            try:
                inc_text += open(os.path.join(jw, spec["name"] + ".inc"), encoding="utf-8", errors="replace").read()
            except OSError:
                pass
        def local_frame_(o):
            m2 = re.match(r"Check that (\w+) is assignable$", o["description"] or "")
            return bool(m2 and ".assigns." in (o["name"] or "") and re.search(r"\b%s\b" % m2.group(1), inc_text)
                        and not re.search(r"\b%s\b" % m2.group(1), harness_text))
        if all(local_frame_(o) for o in failed_):
            raise ToolProblem("loop frame: the source now assigns local variable(s) %s inside a loop under contract; the loop's assigns clause "
                              "does not list them (undecided, not a violation) in %s" %
                              (sorted(set(re.match(r"Check that (\w+)", o["description"]).group(1) for o in failed_)), job.name))
    names = [o["name"] for o in obligations]
    for f in job.enforce:
        if not any(n and n.startswith(f + ".postcondition") for n in names):
            raise ToolProblem("vacuity guard: no postcondition obligation for %s in %s" % (f, job.name))
    for pat in job.expect_obligations:
        if not any(n and re.search(pat, n) for n in names) and \
           not any(o["description"] and re.search(pat, o["description"]) for o in obligations):
            raise ToolProblem("vacuity guard: expected obligation /%s/ missing in %s" % (pat, job.name))
    loops_expected = job.loops
    if job.loops and job.extract:
        # the loop contracts of extracted code are macros put in by extraction rules: when the source no longer has the loop (the
        # rule fired zero times) there is no loop contract to be dropped
        inc_all = ""
        for spec in job.extract:
            if spec["name"] not in job.enforce:
                continue
            try:
                inc_all += open(os.path.join(jw, spec["name"] + ".inc"), encoding="utf-8", errors="replace").read()
            except OSError:
                pass
        if inc_all and not re.search(r"\b[A-Z][A-Z0-9_]*_CONTRACT\b", inc_all):
            loops_expected = False
            info["note_no_loop_in_source"] = True
    if loops_expected:
        if not any("loop_invariant_step" in (n or "") or "invariant" in (o["description"] or "")
                   or "wrapped_for_contract_checking" in (n or "")
                   for n, o in zip(names, obligations)):
            raise ToolProblem("vacuity guard: loop contract silently dropped in %s" % job.name)
    info["obligations"] = obligations
    info["solver_s"] = round(secs, 2)
    # unwinding assertions that fail are a tool limit, not a violation
    for o in obligations:
        if o["status"] == "FAILURE" and o["name"] and (".unwind." in o["name"] or "recursion" in o["name"]) and not job.unwind_ok:
            raise ToolProblem("unwinding assertion %s failed in %s (bound too small: undecided)" % (o["name"], job.name))
    # 2. sentinel (must fail) and cover (must be satisfiable).  Skipped when an obligation already failed: a failing
    #    obligation is reachable by construction, and a change that breaks the property may well make a cover point
    #    unreachable -- that must be reported as the violation it is, not as "undecided".
    info["sentinel"] = None
    info["cover"] = None
    if any(o["status"] == "FAILURE" for o in obligations):
        info["wall_s"] = round(time.time() - t0, 2)
        return info
    if job.sentinel:
        bs = build(["-D" + job.sentinel], "sent")
        rs, s2 = cbmc(bs, [], "sent")
        nfail = sum(1 for r in rs if r.get("status") == "FAILURE")
        info["sentinel"] = {"define": job.sentinel, "failed_obligations": nfail, "solver_s": round(s2, 2)}
        if nfail == 0:
            raise ToolProblem("vacuity guard: sentinel %s of %s did not fail" % (job.sentinel, job.name))
    info["cover"] = None
    if job.cover:
        bc = build(["-DVERIF_VACUITY"], "cov")
        rs, s3 = cbmc(bc, [], "cov")
        goals = [r for r in rs if (r.get("description") or "").startswith("COVER")]
        sat = [g for g in goals if g.get("status") == "FAILURE"]
        info["cover"] = {"goals": len(goals), "reached": len(sat), "solver_s": round(s3, 2)}
        if len(goals) == 0 or len(sat) != len(goals):
            bad = [g.get("description") for g in goals if g.get("status") != "FAILURE"]
            raise ToolProblem("vacuity guard: cover points unreachable in %s: %s (of %d)" % (job.name, bad[:5], len(goals)))
    info["wall_s"] = round(time.time() - t0, 2)
    return info


def load_known():
    known, fixed = [], []
    p = os.path.join(VERIF, "KNOWN_FINDINGS.txt")
    if os.path.exists(p):
        for line in open(p):
            line = line.strip()
            if line.startswith("known:"):
                d = dict(kv.split("=", 1) for kv in re.findall(r'(\w+=(?:"[^"]*"|\S+))', line[6:]))
                d = {k: v.strip('"') for k, v in d.items()}
                d["_line"] = line
                known.append(d)
            elif line.startswith("fixed:"):
                fixed.append(line)
    return known, fixed


def main():
    ap = argparse.ArgumentParser()
    ap.add_argument("prop")
    ap.add_argument("--tier", default=os.environ.get("VERIF_TIER", "quick"))
    ap.add_argument("--jobs", type=int, default=14)
    ap.add_argument("--only", default=None)
    ap.add_argument("--keep", action="store_true")
    ap.add_argument("--replay", default=None)
    ap.add_argument("--timeout", type=int, default=None)
    args = ap.parse_args()
    pid = args.prop
    tier = args.tier if args.tier in ("quick", "thorough") else "quick"
    seed = int(os.environ.get("VERIF_SEED", "0") or 0)
    spec = importlib.util.spec_from_file_location(pid, os.path.join(VERIF, "props", pid + ".py"))
    mod = importlib.util.module_from_spec(spec)
    mod.Job = Job
    mod.VERIF, mod.REPO = VERIF, REPO
    spec.loader.exec_module(mod)
    if args.replay:
        import replay
        sys.exit(replay.replay_file(args.replay, mod))
    jobs = [j for j in mod.jobs(tier) if (tier == "thorough" or j.tier == "quick")]
    if args.only:
        jobs = [j for j in jobs if re.search(args.only, j.name)]
    if args.timeout:
        for j in jobs:
            j.timeout = args.timeout
    t0 = time.time()
    work = tempfile.mkdtemp(prefix="verif_%s_" % pid)
    results, problems = [], []
    try:
        with cf.ThreadPoolExecutor(max_workers=args.jobs) as ex:
            futs = {ex.submit(run_job, j, work, tier, None): j for j in jobs}
            for fu in cf.as_completed(futs):
                j = futs[fu]
                try:
                    r = fu.result()
                    r["_job"] = j
                    results.append(r)
                except ToolProblem as e:
                    problems.append((j, str(e)))
                except Exception as e:
                    problems.append((j, "internal error: %s\n%s" % (e, traceback.format_exc())))
        rc = finish(pid, tier, seed, mod, jobs, results, problems, work, time.time() - t0)
    finally:
        if not args.keep:
            shutil.rmtree(work, ignore_errors=True)
        else:
            print("work dir kept:", work)
    sys.exit(rc)


def finish(pid, tier, seed, mod, jobs, results, problems, work, wall):
    known, fixed = load_known()
    known = [k for k in known if k.get("property") == pid]
    results.sort(key=lambda r: r["job"])
    n_obl = n_ok = 0
    b_obl = b_ok = 0
    violations, known_hits = [], []
    samples, cmds, per_job = [], [], []
    solver_s = 0.0
    for r in results:
        j = r["_job"]
        fails = [o for o in r["obligations"] if o["status"] == "FAILURE"]
        oks = [o for o in r["obligations"] if o["status"] == "SUCCESS"]
        other = [o for o in r["obligations"] if o["status"] not in ("SUCCESS", "FAILURE")]
        if other:
            problems.append((j, "obligations with status %s" % set(o["status"] for o in other)))
        solver_s += r["solver_s"]
        unmatched = []
        for o in fails:
            hit = None
            for k in known:
                if k.get("job") and not re.fullmatch(k["job"], j.name):
                    continue
                if re.search(k.get("obligation", "$^"), o["name"] or ""):
                    hit = k
                    break
            if hit:
                known_hits.append((hit, j, o))
            else:
                unmatched.append(o)
        if j.bounded:
            b_obl += len(r["obligations"]); b_ok += len(oks)
        else:
            n_obl += len(r["obligations"]); n_ok += len(oks) + (len(fails) - len(unmatched))
        for o in unmatched:
            violations.append((j, o, r))
        per_job.append({"job": j.name, "functions": j.functions, "enforced": j.enforce,
                        "replaced_by_contract": j.replace, "loop_contracts": j.loops,
                        "obligations": len(r["obligations"]), "discharged": len(oks),
                        "solver_s": r["solver_s"], "wall_s": r["wall_s"],
                        "backend": ",".join(sorted(set(r.get("solvers_used", [])))) or (j.solver or "minisat"),
                        "bounded": j.bounded, "sentinel": r["sentinel"], "cover": r["cover"],
                        "extracted": r["extracted"], "note": j.note,
                        "config": j.defines})
        if r["cmds"]:
            cmds.append(" && ".join(r["cmds"][:3]))
        post = [o for o in r["obligations"] if "postcondition" in (o["name"] or "") or "assertion" in (o["name"] or "")]
        for o in (post[:2] or r["obligations"][:1]):
            samples.append({"job": j.name, "obligation": o["name"], "status": o["status"],
                            "description": o["description"], "where": "%s:%s" % (o["file"], o["line"])})
    # known findings: the excluded re-run must pass (a *different* failure is still reported)
    reported_known = {}
    for k, j, o in known_hits:
        reported_known.setdefault(k["_line"], (k, []))[1].append((j, o))
    os.makedirs(os.path.join(VERIF, "evidence"), exist_ok=True)
    os.makedirs(os.path.join(VERIF, "replays"), exist_ok=True)
    rc = 0
    for line, (k, lst) in reported_known.items():
        print("KNOWN-FINDING: property=%s %s" % (pid, k.get("what", line)))
    replay_paths = []
    if violations:
        import replay
        seen = set()
        for j, o, r in violations:
            key = (j.name, o["name"])
            if key in seen:
                continue
            seen.add(key)
            path, tail = replay.write_replay(pid, j, o, r, mod, work)
            replay_paths.append(path)
            print("VIOLATION property=%s replay=%s obligation=%s job=%s%s" %
                  (pid, path, o["name"], j.name, (" " + tail) if tail else ""))
        rc = 1
    for j, msg in problems:
        print("UNDECIDED property=%s job=%s: %s" % (pid, j.name, msg.strip()[:3000]), file=sys.stderr)
    if problems and rc == 0:
        rc = 2
    meta = getattr(mod, "META", {})
    ev_assumes = scan_assumes(jobs)
    ev = {
        "property_id": pid, "tier": tier, "seed": seed, "level": "proof",
        "coverage": {
            "obligations": n_obl, "discharged": n_ok,
            "checker_cmd": " ;; ".join(cmds[:4]) or "none",
            "trusted_base": meta.get("trusted_base", []),
            "samples": samples[:12],
            "jobs": per_job,
            "functions_under_contract": sorted(set(f for p in per_job if not p["bounded"] for f in p["functions"])),
            "functions_outside_verified_set": meta.get("outside", []),
            "bounded_obligations": b_obl, "bounded_discharged": b_ok,
            "bounded_jobs": [{"job": p["job"], "bound": p["bounded"]} for p in per_job if p["bounded"]],
            "solver_s_total": round(solver_s, 2),
            "known_findings_matched": [k.get("what", l) for l, (k, _) in reported_known.items()],
            "undecided": [{"job": j.name, "why": m[:500]} for j, m in problems],
            "jobs_run": len(results), "jobs_planned": len(jobs),
            "explanation": meta.get("explanation", ""),
            # mechanical scan (every run): each __CPROVER_assume in the harnesses of this property's jobs and in the model /
            # contract / monitor headers they include -- input-domain bounds of ghost indices and the stated behaviour of
            # library models; none is inside code extracted from the repository
            "assume_statements": ev_assumes,
        },
        "assumptions": meta.get("assumptions", []),
        "wall_s": round(wall, 2),
        "violations": len(replay_paths),
    }
    with open(os.path.join(VERIF, "evidence", pid + ".json"), "w") as f:
        json.dump(ev, f, indent=1)
    print("%s tier=%s jobs=%d obligations=%d discharged=%d bounded=%d/%d violations=%d undecided=%d wall=%.1fs" %
          (pid, tier, len(results), n_obl, n_ok, b_ok, b_obl, len(replay_paths), len(problems), wall))
    return rc


def scan_assumes(jobs):
    seen, out, todo = set(), [], []
    for j in jobs:
        todo.append(os.path.join(VERIF, j.harness))
    while todo:
        f = todo.pop()
        if f in seen or not os.path.exists(f):
            continue
        seen.add(f)
        try:
            lines = open(f, encoding="utf-8", errors="replace").read().splitlines()
        except OSError:
            continue
        for n, l in enumerate(lines, 1):
            m = re.match(r'\s*#\s*include\s+"([^"]+)"', l)
            if m:
                for d in ("harness", "models", "contracts", "spec"):
                    todo.append(os.path.join(VERIF, d, m.group(1)))
            if "__CPROVER_assume" in l and not l.lstrip().startswith(("/*", "*", "//")):
                out.append("%s:%d: %s" % (os.path.relpath(f, VERIF), n, l.strip()[:200]))
    return sorted(out)


if __name__ == "__main__":
    main()
