#! /bin/sh
# gz_demo.sh BUILD_DIR
#
# Demonstrates that `dfs --file X` and `dfs --file X.gz` can disagree
# (stdout and/or exit status) because make_candidate_list() in
# dfs/identify.cc derives its geometry hints from the full file name
# (which ends in ".gz" for a compressed image, so no hint applies).
#
# Exit 1 and print lines starting "DIFFERENT:" if any comparison
# differs; exit 0 and print "SAME" otherwise.

if [ $# -ne 1 ]; then
    echo "usage: $0 BUILD_DIR" >&2
    exit 2
fi
case "$1" in
    /*) BUILD_DIR="$1" ;;
    *)  BUILD_DIR="$(pwd)/$1" ;;
esac
DFS="${BUILD_DIR}/dfs/dfs"
if ! [ -x "${DFS}" ]; then
    echo "cannot find executable ${DFS}" >&2
    exit 2
fi

HERE="$(cd "$(dirname "$0")" && pwd)"
WORK="$(mktemp -d "${TMPDIR:-/tmp}/gz_hints.XXXXXX")"; trap 'rm -rf "${WORK}"' EXIT
rm -rf "${WORK}"
mkdir -p "${WORK}" || exit 2
cd "${WORK}" || exit 2

python3 - <<'EOF' || exit 2
def cat(title, total, files):
    """Build the two catalogue sectors of an Acorn DFS file system."""
    s0 = bytearray(256)
    s1 = bytearray(256)
    t = title.ljust(12, '\0').encode()
    s0[0:8] = t[:8]
    s1[0:4] = t[8:12]
    s1[4] = 1                   # cycle (sequence) number
    s1[5] = 8 * len(files)      # offset of last catalogue entry
    s1[6] = (total >> 8) & 3    # boot option 0, sector count bits 8-9
    s1[7] = total & 0xff        # sector count bits 0-7
    sec = 2
    placed = []
    for (name, data) in files:
        placed.append((name, data, sec))
        sec += (len(data) + 255) // 256
    body = {}
    # Catalogue entries are kept in descending start-sector order.
    for i, (name, data, st) in enumerate(reversed(placed)):
        p = 8 + 8 * i
        s0[p:p+7] = name.ljust(7).encode()
        s0[p+7] = ord('$')
        s1[p+0:p+2] = (0x1900).to_bytes(2, 'little')   # load address
        s1[p+2:p+4] = (0x8023).to_bytes(2, 'little')   # exec address
        s1[p+4:p+6] = (len(data) & 0xffff).to_bytes(2, 'little')
        s1[p+6] = (st >> 8) & 3
        s1[p+7] = st & 0xff
        body[st] = data
    return bytes(s0 + s1), body

def side(title, tracks, files, total=None):
    """One 10-sectors-per-track side; `total` overrides the sector count field."""
    n = tracks * 10
    img = bytearray(n * 256)
    c, body = cat(title, total if total is not None else n, files)
    img[0:512] = c
    for st, d in body.items():
        img[st*256:st*256+len(d)] = d
    return bytes(img)

def interleave(a, b):
    out = bytearray()
    tl = 10 * 256
    for i in range(0, len(a), tl):
        out += a[i:i+tl]
        out += b[i:i+tl]
    return bytes(out)

hello0 = b"Hello from side 0\r"
hello2 = b"Hello from side 2\r"
small = bytes(range(256)) * 3
big = bytes((i * 7 + 3) & 0xff for i in range(256 * 20))

# A: 40-track DSD, Acorn DFS on side 0 (drive 0), side 1 (drive 2) never
#    formatted (all zeroes).  200KiB.
s0 = side("SIDE0", 40, [("HELLO", hello0), ("DATA", small)])
open("A.dsd", "wb").write(interleave(s0, bytes(40 * 10 * 256)))

# B: control. 40-track DSD with Acorn DFS file systems on both sides.
s2 = side("SIDE2", 40, [("WORLD", hello2)])
open("B.dsd", "wb").write(interleave(s0, s2))

# C: 80-track DSD (400KiB), Acorn DFS on both sides, but the catalogue's
#    total-sectors field says 600 (smaller than the 800 sectors per side).
t0 = side("SIDE0", 80, [("HELLO", hello0), ("DATA", big)], total=600)
t2 = side("SIDE2", 80, [("WORLD", hello2)], total=600)
open("C.dsd", "wb").write(interleave(t0, t2))

# D: single-sided 80-track SSD (200KiB), total-sectors field 600.
open("D.ssd", "wb").write(t0)
EOF

for f in A.dsd B.dsd C.dsd D.ssd; do
    gzip -c "$f" > "$f.gz" || exit 2
done

ndiff=0

# compare IMAGE LABEL NORMALISE dfs-args...
# NORMALISE is "raw" or "norm"; "norm" removes the file name and the
# word "compressed" from stdout (used only for --show-config, whose
# output necessarily names the file).
compare() {
    img="$1"; label="$2"; mode="$3"; shift 3
    "${DFS}" --file "${img}"    "$@" >out.plain 2>err.plain; rc_plain=$?
    "${DFS}" --file "${img}.gz" "$@" >out.gz    2>err.gz;    rc_gz=$?
    if [ "${mode}" = norm ]; then
	for o in out.plain out.gz; do
	    sed -e 's/compressed //' -e "s/${img}\.gz/IMAGE/" -e "s/${img}/IMAGE/" <"$o" >"$o.n"
	    mv "$o.n" "$o"
	done
    fi
    if [ ${rc_plain} -ne ${rc_gz} ] || ! cmp -s out.plain out.gz; then
	ndiff=$((ndiff + 1))
	echo "DIFFERENT: dfs --file ${img}[.gz] ${label}: exit status ${rc_plain} (plain) vs ${rc_gz} (.gz)"
	diff out.plain out.gz | head -5 | sed -e 's/^/    stdout: /'
	head -2 err.plain | sed -e 's/^/    stderr (plain): /'
	head -2 err.gz    | sed -e 's/^/    stderr (.gz):   /'
    fi
}

for img in A.dsd B.dsd C.dsd D.ssd; do
    compare "${img}" "--show-config cat (file name normalised)" norm --show-config cat
    for drive in 0 2; do
	compare "${img}" "--drive ${drive} cat"                 raw --drive ${drive} cat
	compare "${img}" "--drive ${drive} info '*'"            raw --drive ${drive} info '*'
	compare "${img}" "--drive ${drive} free"                raw --drive ${drive} free
	compare "${img}" "--drive ${drive} sector-map"          raw --drive ${drive} sector-map
	compare "${img}" "--drive ${drive} dump-sector 0 0 1"   raw --drive ${drive} dump-sector 0 0 1
	compare "${img}" "--drive ${drive} dump-sector 0 39 9"  raw --drive ${drive} dump-sector 0 39 9
    done
    compare "${img}" "--drive 0 type HELLO" raw --drive 0 type HELLO
    compare "${img}" "--drive 0 dump DATA"  raw --drive 0 dump DATA
    compare "${img}" "--drive 2 type WORLD" raw --drive 2 type WORLD
done

if [ ${ndiff} -ne 0 ]; then
    echo "${ndiff} comparisons differ"
    exit 1
fi
echo "SAME"
exit 0
