#! /bin/sh
# Demo for a suspected defect in dfs/track_fm.cc (decode_fm_track):
# after an ID field has been accepted, find_record_address_mark() scans
# forward for the next DATA address mark and does not notice an
# intervening ID address mark.  If sector A's data mark is destroyed, the
# decoder pairs A's (CRC-valid) address with sector B's (CRC-valid) data.
#
# usage: fm_demo.sh BUILD_DIR [VARIANT]
#
# VARIANT is KIND:RECORD:MODE:TRACKS (default dam:8:zero:all)
#   KIND    dam  = destroy the DATA address mark of record RECORD
#           idam = destroy the ID address mark of record RECORD
#   MODE    zero     = zero ALL raw HFE bits (sampled and unsampled cells) of
#                      the mark and of the run of FM 0x00 sync bytes before it
#           markzero = zero all raw bits of the 16 FM cells of the mark only
#           data     = keep the sync bytes; replace the mark (clock C7) by an
#                      ordinary FM data byte 0x00 with clock FF (cells AAAA),
#                      touching only the bits the decoder samples
#   TRACKS  all | a single track number | A-B (inclusive range)
#
# Exit status: 1 (and a line starting "MISATTRIBUTED:") if for some track T
# `dump-sector 0 T RECORD` on the damaged image exits 0 and shows the data the
# undamaged image has at (T, RECORD+1), that being different from the
# undamaged (T, RECORD).  0 (and "REFUSED-OR-CORRECT") if every such read
# fails or shows the right data.  2 on a problem with the demo itself.
set -u
BUILD="${1:?usage: fm_demo.sh BUILD_DIR [VARIANT]}"
VARIANT="${2:-dam:8:zero:all}"
DFS="${BUILD}/dfs/dfs"
HERE="$(cd "$(dirname "$0")" && pwd)"
SRC="${REPO:-/repo}/dfs/testdata/acorn-dfs-ss-80t-manyfiles.hfe.gz"
test -x "${DFS}" || { echo "demo: ${DFS} not found" >&2; exit 2; }
WORK="$(mktemp -d "${TMPDIR:-/tmp}/fm_demo.XXXXXX")" || exit 2
if test -n "${FM_DEMO_KEEP:-}"; then echo "demo: keeping ${WORK}"; else trap 'rm -rf "${WORK}"' EXIT; fi

python3 - "${SRC}" "${WORK}" "${DFS}" "${VARIANT}" <<'PYEOF'
import gzip, struct, subprocess, sys

src, work, dfs, variant = sys.argv[1:5]
kind, rec_s, mode, tracks_s = variant.split(':')
REC = int(rec_s)
assert kind in ('dam', 'idam') and mode in ('zero', 'markzero', 'data')

img = bytearray(gzip.open(src, 'rb').read())
orig_path, damaged_path = work + '/orig.hfe', work + '/damaged.hfe'
open(orig_path, 'wb').write(img)

def crc16(data, crc=0xFFFF):
    for b in data:
        crc ^= b << 8
        for _ in range(8):
            crc = ((crc << 1) ^ 0x1021) & 0xFFFF if crc & 0x8000 else (crc << 1) & 0xFFFF
    return crc

assert img[0:8] == b'HXCPICFE'
assert img[0x0B] == 2, "expected ISO/IBM FM encoding"
NTRACKS = img[9]
lut_off = struct.unpack_from('<H', img, 0x12)[0] * 512

if tracks_s == 'all':
    tracks = list(range(NTRACKS))
elif '-' in tracks_s:
    a, b = tracks_s.split('-')
    tracks = list(range(int(a), int(b) + 1))
else:
    tracks = [int(tracks_s)]

def patch_track(TRACK, verbose):
    t_off, t_len = struct.unpack_from('<HH', img, lut_off + 4 * TRACK)
    t_off *= 512
    if t_len & 0x1FF:
        t_len = (t_len & ~0x1FF) + 0x200
    # File offsets of the side-0 bytes of this track, in stream order.
    side0 = []
    pos = 0
    while pos < t_len:
        for i in range(256):
            if pos + i < t_len and t_off + pos + i < len(img):
                side0.append(t_off + pos + i)
        pos += 512
    nraw = len(side0) * 8
    def rawbit(i):
        return (img[side0[i // 8]] >> (i % 8)) & 1
    def set_rawbit(i, v):
        o = side0[i // 8]
        if v:
            img[o] |= (1 << (i % 8))
        else:
            img[o] &= ~(1 << (i % 8)) & 0xFF
    # "Cooked" FM cell k (clock and data cells alternate) is raw bit 2k+1
    # (BitStream first_bit=1, stride=2 in img_hfe.cc).
    ncooked = (nraw - 1) // 2
    cooked = [rawbit(2 * k + 1) for k in range(ncooked)]
    def read_byte(p):
        clock = data = 0
        for j in range(8):
            clock = (clock << 1) | cooked[p + 2 * j]
            data = (data << 1) | cooked[p + 2 * j + 1]
        return clock, data
    # Events in physical order: ('ID', k, record) / ('DAM', k, owner record)
    # where k is the cooked index of the LAST cell of the 16-cell mark.
    mask48 = (1 << 48) - 1
    shifter = 0
    events = []
    last_id = None
    for k in range(ncooked):
        shifter = ((shifter << 1) | cooked[k]) & mask48
        if k < 47:
            continue
        if shifter == 0xAAAAAAAAF57E:
            body = [read_byte(k + 1 + 16 * n) for n in range(6)]
            idf = [0xFE] + [d for _, d in body]
            if all(c == 0xFF for c, _ in body) and crc16(idf) == 0:
                last_id = idf[3]
                events.append(('ID', k, last_id))
        elif shifter == 0xAAAAAAAAF56F:
            events.append(('DAM', k, last_id))
    order = [e[2] for e in events if e[0] == 'ID']
    want = 'ID' if kind == 'idam' else 'DAM'
    hits = [e for e in events if e[0] == want and e[2] == REC]
    assert len(hits) == 1, "track %d: cannot find the %s of record %d" % (TRACK, want, REC)
    k = hits[0][1]
    first_mark_cell = k - 15
    # How many FM 0x00 bytes (cells AAAA) precede the mark?
    nsync = 0
    while True:
        p = first_mark_cell - 16 * (nsync + 1)
        if p < 0 or read_byte(p) != (0xFF, 0x00):
            break
        nsync += 1
    if mode == 'zero':
        lo_cell, hi_cell = first_mark_cell - 16 * nsync, k
        for r in range(2 * lo_cell, 2 * hi_cell + 2):
            set_rawbit(r, 0)
        what = "zeroed raw bits %d..%d (cells %d..%d: %d sync bytes + mark)" % (
            2 * lo_cell, 2 * hi_cell + 1, lo_cell, hi_cell, nsync)
    elif mode == 'markzero':
        for r in range(2 * first_mark_cell, 2 * k + 2):
            set_rawbit(r, 0)
        what = "zeroed raw bits %d..%d (cells %d..%d: the mark only)" % (
            2 * first_mark_cell, 2 * k + 1, first_mark_cell, k)
    else:
        for j in range(16):
            set_rawbit(2 * (first_mark_cell + j) + 1, 1 if j % 2 == 0 else 0)
        what = "sampled raw bits of cells %d..%d rewritten to AAAA (clock FF data 00)" % (
            first_mark_cell, k)
    if verbose:
        print("track %d: physical record order %s; %s of record %d ends at cell %d, "
              "%d sync bytes before it; %s; first side-0 file offset touched 0x%X"
              % (TRACK, order, want, REC, k, nsync, what,
                 side0[(2 * (first_mark_cell - (16 * nsync if mode == 'zero' else 0))) // 8]))
    return order

print("== variant %s: %s of record %d, mode %s, tracks %s" %
      (variant, 'DATA mark' if kind == 'dam' else 'ID mark', REC, mode, tracks_s))
for n, t in enumerate(tracks):
    patch_track(t, verbose=(n == 0 or n == len(tracks) - 1))
open(damaged_path, 'wb').write(img)

def run(path, *args):
    p = subprocess.run([dfs, '--file', path] + list(args),
                       stdout=subprocess.PIPE, stderr=subprocess.PIPE)
    return p.returncode, p.stdout.decode('latin-1'), p.stderr.decode('latin-1')

# What each sector SHOULD contain.
orig = {}
for t in range(NTRACKS):
    for s in range(10):
        rc, out, err = run(orig_path, 'dump-sector', '0', str(t), str(s))
        if rc != 0:
            print("demo: cannot read (%d,%d) of the pristine image: %s" % (t, s, err))
            sys.exit(2)
        orig[(t, s)] = out

for args in (['cat'], ['--show-config', 'cat'], ['--show-config', 'dump-sector', '0', '0', '0']):
    rc, out, err = run(damaged_path, *args)
    lines = out.splitlines()
    print("-- dfs --file damaged.hfe %s => exit status %d" % (' '.join(args), rc))
    for l in lines[:6]:
        print("   stdout: " + l)
    if len(lines) > 6:
        print("   stdout: ... (%d lines in all)" % len(lines))
    for l in err.splitlines()[:6]:
        print("   stderr: " + l)

# Every (T,S) read from the damaged image, classified.
stats = {'fail': 0, 'correct': 0, 'next': 0, 'other': 0}
mis = []
first_err = None
for t in range(NTRACKS):
    for s in range(10):
        rc, out, err = run(damaged_path, 'dump-sector', '0', str(t), str(s))
        if rc != 0:
            stats['fail'] += 1
            if first_err is None:
                first_err = (t, s, rc, err.strip())
        elif out == orig[(t, s)]:
            stats['correct'] += 1
        elif s < 9 and out == orig[(t, s + 1)]:
            stats['next'] += 1
            if s == REC:
                mis.append(t)
        else:
            stats['other'] += 1
print("-- dump-sector 0 T S on damaged.hfe for T=0..%d, S=0..9: %d failed, %d correct, "
      "%d show the undamaged (T,S+1) instead of (T,S), %d show something else"
      % (NTRACKS - 1, stats['fail'], stats['correct'], stats['next'], stats['other']))
if first_err:
    print("   first failure: (T=%d,S=%d) exit status %d: %s" % first_err)
distinct = [t for t in range(NTRACKS) if REC < 9 and orig[(t, REC)] != orig[(t, REC + 1)]]
if REC < 9:
    print("-- tracks on which the undamaged (T,%d) and (T,%d) differ: %d" % (REC, REC + 1, len(distinct)))
if mis:
    t = mis[0]
    print("MISATTRIBUTED: dump-sector 0 T %d exits 0 and shows the data recorded under "
          "record %d on %d tracks: %s" % (REC, REC + 1, len(mis), mis))
    rc, out, err = run(damaged_path, 'dump-sector', '0', str(t), str(REC))
    print("   e.g. damaged.hfe dump-sector 0 %d %d (exit status %d):" % (t, REC, rc))
    for l in out.splitlines()[:3]:
        print("      " + l)
    print("   undamaged (%d,%d):" % (t, REC))
    for l in orig[(t, REC)].splitlines()[:3]:
        print("      " + l)
    print("   undamaged (%d,%d):" % (t, REC + 1))
    for l in orig[(t, REC + 1)].splitlines()[:3]:
        print("      " + l)
    sys.exit(1)
print("REFUSED-OR-CORRECT")
sys.exit(0)
PYEOF
