#!/usr/bin/env python3
"""Native replay for the HxC MFM image-level clause of C06 (DESIGN.md C06-D(a)).

Builds a 2-track x 10-sector HxC MFM image in which the LAST sector of track 0 (record 9) has one data
bit flipped (MFM clocking stays legal, only the data CRC is wrong, so the decoder drops the sector), every
sector body filled with its own marker byte, and runs the real `dfs dump-sector 0 1 0`.
Property: the sector shown for (track 1, sector 0) is the one recorded under that address (marker 'K'), or
the read fails.   usage: hxc_dropped_sector.py <path to dfs binary>     exit 0 = holds, 1 = violated"""
import struct, subprocess, sys, tempfile, os

def crc16(data, crc=0xFFFF):
    for b in data:
        crc ^= b << 8
        for _ in range(8):
            crc = ((crc << 1) ^ 0x1021) & 0xFFFF if crc & 0x8000 else (crc << 1) & 0xFFFF
    return crc

class TrackBits:
    def __init__(self): self.bits, self.prev = [], 0
    def byte(self, b):
        for i in range(7, -1, -1):
            d = (b >> i) & 1
            self.bits += [0 if (self.prev or d) else 1, d]; self.prev = d
    def bytes(self, bs):
        for b in bs: self.byte(b)
    def a1_sync(self):
        for i in range(15, -1, -1): self.bits.append((0x4489 >> i) & 1)
        self.prev = 1
    def pack(self):
        bits = self.bits + [0] * (-len(self.bits) % 8); out = bytearray()
        for i in range(0, len(bits), 8):
            v = 0
            for b in bits[i:i+8]: v = (v << 1) | b
            out.append(v)
        return bytes(out)

def make_track(cyl, sectors, marks):
    t = TrackBits(); t.bytes([0x4E] * 60)
    for rec, body in enumerate(sectors):
        t.bytes([0x00] * 12)
        for _ in range(3): t.a1_sync()
        hdr = bytes([0xFE, cyl, 0, rec, 1]); c = crc16(b'\xA1\xA1\xA1' + hdr)
        t.bytes(hdr + bytes([c >> 8, c & 0xFF])); t.bytes([0x4E] * 22); t.bytes([0x00] * 12)
        for _ in range(3): t.a1_sync()
        c = crc16(b'\xA1\xA1\xA1' + bytes([0xFB]) + body); t.byte(0xFB)
        marks[(rec, 'data')] = len(t.bits)
        t.bytes(body + bytes([c >> 8, c & 0xFF])); t.bytes([0x4E] * 24)
    t.bytes([0x4E] * 100)
    return t

SPT, TRACKS = 10, 2
disc = [bytearray([0x41 + i]) * 256 for i in range(SPT * TRACKS)]     # sector i filled with chr(0x41+i): 'A'..'T'
disc[0] = bytearray(256); disc[1] = bytearray(256)
disc[0][0:8] = b'REPLAY  '; disc[1][0:4] = b'    '; disc[1][5] = 0; disc[1][6] = 0; disc[1][7] = SPT * TRACKS

def image(damage):
    tracks = []
    for cyl in range(TRACKS):
        marks = {}
        t = make_track(cyl, [bytes(s) for s in disc[cyl*SPT:(cyl+1)*SPT]], marks)
        if damage and cyl == 0:
            # sector 9 of track 0 is filled with 'J' = 0100 1010: flip data bit 5-> between two... pick bit with zero neighbours' clocks
            # byte 100: bits 0100 1010 ; data bit index 2 (value 0) lies between 1 (idx1) and 0 (idx3): choose idx 5 (value 0) between 1 (idx4) and 1 (idx6)
            pos = marks[(9, 'data')] + 100 * 16 + 5 * 2 + 1
            assert t.bits[pos] == 0 and t.bits[pos-2] == 1 and t.bits[pos+2] == 1
            t.bits[pos] = 1
        tracks.append(t.pack())
    out = bytearray(b'HXCMFM\0'); out += struct.pack('<HBHHB', TRACKS, 1, 300, 250, 4); out += struct.pack('<I', 19)
    off = 19 + 11 * TRACKS
    for cyl, data in enumerate(tracks):
        out += struct.pack('<HBII', cyl, 0, len(data), off); off += len(data)
    for data in tracks: out += data
    return bytes(out)

def main():
    dfs = sys.argv[1]
    with tempfile.TemporaryDirectory() as d:
        good, bad = os.path.join(d, 'good.mfm'), os.path.join(d, 'bad.mfm')
        open(good, 'wb').write(image(False)); open(bad, 'wb').write(image(True))
        g = subprocess.run([dfs, '--file', good, 'dump-sector', '0', '1', '0'], capture_output=True, text=True)
        if g.returncode != 0 or 'KKKKKKKK' not in g.stdout:
            print('replay driver broken: undamaged image unreadable', g.stderr[:300]); return 3
        b = subprocess.run([dfs, '--file', bad, 'dump-sector', '0', '1', '0'], capture_output=True, text=True)
        print('dump-sector 0 1 0 on the damaged image: exit', b.returncode, (b.stdout.splitlines() or [''])[0][:60], b.stderr.strip()[:200])
        if b.returncode == 0 and 'KKKKKKKK' not in b.stdout:
            print('VIOLATED: (track 1, sector 0) shows data recorded under another address'); return 1
        print('holds: the sector recorded under (1,0) was returned, or the read failed'); return 0
sys.exit(main())
