#!/bin/bash
# demo_hfe3.sh BUILD_DIR
#
# Demonstrates how dfs/img_hfe.cc (copy_hfe) treats HFE version 3 opcodes that
# (A) straddle a 256-byte side-block boundary, (B) are SKIPBITS with 1..7 bits.
# Regenerates every image from dfs/testdata/wdfs-dd.hfe.gz, compares the output
# of a fixed list of dfs commands against the version-1 baseline.
# Prints one line per case; exit 1 if any case is reproduced, 0 otherwise,
# 2 on a set-up problem.
set -u
BUILD=${1:?usage: demo_hfe3.sh BUILD_DIR}
DFS=$BUILD/dfs/dfs
HERE=$(cd "$(dirname "$0")" && pwd)
SRC=${BEEBTOOLS_REPO:-/repo}/dfs/testdata/wdfs-dd.hfe.gz
[ -x "$DFS" ] || { echo "no dfs binary at $DFS"; exit 2; }
[ -f "$SRC" ] || { echo "no test image at $SRC"; exit 2; }
W=$(mktemp -d "${TMPDIR:-/tmp}/hfe3demo.XXXXXX") || exit 2
trap 'rm -rf "$W"' EXIT

gunzip -c "$SRC" > "$W/v1.hfe" || exit 2

# Track 0 starts at file offset 0x400 (LUT entry 0 = block 2); side-0 block k of
# track 0 is at 0x400 + 512*k.  Positions below were found by decoding the MFM
# cell stream (see NOTES.md):
#   sector 0 data field (incl CRC) ends at stream byte 748 = block 2 offset 236
#   gap (4E bytes) stream 750..795  = block 2 off 238 .. block 3 off 27
#   sector 1 ID sync (00 x12)  block 3 off 28..51, A1A1A1 FE at block 3 off 52
#   sector 1 data A1A1A1 FB at block 3 off 140
# so block 2 offset 255 (file 0x8FF) and block 3 offset 0 (file 0xA00) are both
# inside the gap between sector 0 and sector 1.

# mkover OUT off:hexbyte ...   -- v3 copy with bytes OVERWRITTEN (file values)
mkover() {
  python3 - "$W/v1.hfe" "$@" <<'EOF'
import sys
d = bytearray(open(sys.argv[1], 'rb').read())
d[0:8] = b'HXCHFEV3'
for pr in sys.argv[3:]:
    off, val = pr.split(':')
    off = int(off, 0); val = int(val, 16)
    print("    file offset 0x%04X: 0x%02X -> 0x%02X" % (off, d[off], val))
    d[off] = val
open(sys.argv[2], 'wb').write(d)
EOF
}

# mkins OUT streampos hexbytes -- v3 copy with bytes INSERTED into the side-0
# cell stream of track 0 at streampos (values given as the decoder sees them,
# i.e. after bit reversal); the same number of (zero, padding) bytes is dropped
# from the end of the track so that nothing else moves out of the track.
mkins() {
  python3 - "$W/v1.hfe" "$@" <<'EOF'
import sys, struct
src, dst, pos, hx = sys.argv[1], sys.argv[2], int(sys.argv[3], 0), bytes.fromhex(sys.argv[4])
rev = bytes(int('{:08b}'.format(i)[::-1], 2) for i in range(256))
d = bytearray(open(src, 'rb').read())
d[0:8] = b'HXCHFEV3'
off, ln = struct.unpack_from('<HH', d, 512)
off *= 512
if ln & 0x1ff:
    ln = (ln & ~0x1ff) + 0x200
idx = [off + b + i for b in range(0, ln, 512) for i in range(256)]
s = bytearray(d[i] for i in idx)
tail = s[-len(hx):]
s[pos:pos] = bytes(rev[x] for x in hx)
del s[-len(hx):]
for i, v in zip(idx, s):
    d[i] = v
open(dst, 'wb').write(d)
print("    inserted %s (file bytes %s) at side-0 stream byte %d of track 0 = block %d offset %d, file offset 0x%X.. ; dropped trailing padding %s"
      % (hx.hex(), bytes(rev[x] for x in hx).hex(), pos, pos // 256, pos % 256, idx[pos], tail.hex()))
EOF
}

CMDS=("cat" "info #.*" "type WHATIS" "dump WHATIS" "dump-sector 0 0 0" "dump-sector 0 0 1"
      "dump-sector 0 0 2" "dump-sector 0 0 3" "dump-sector 0 0 4" "free" "sector-map")
# run IMAGE TAG: stdout+exit status of each command -> TAG.out, stderr -> TAG.err
run() {
  : > "$W/$2.out"; : > "$W/$2.err"
  for c in "${CMDS[@]}"; do
    echo "## dfs --file X.hfe $c" >> "$W/$2.out"
    # shellcheck disable=SC2086
    set -f; "$DFS" --file "$1" $c >> "$W/$2.out" 2>> "$W/$2.err"; rc=$?; set +f
    echo "## exit status $rc" >> "$W/$2.out"
  done
}
# verdict TAG -> prints "same" / "DIFFERENT"; shows a summary
same_out() { cmp -s "$W/base.out" "$W/$1.out"; }
show() {
  if same_out "$1"; then echo "    stdout and exit statuses: identical to the version-1 baseline"
  else
    echo "    stdout/exit statuses DIFFER from baseline; exit statuses: $(grep '^## exit' "$W/$1.out" | sort | uniq -c | tr -s ' ' | tr '\n' ';')"
  fi
  if [ -s "$W/$1.err" ]; then echo "    stderr (uniq -c):"; sort "$W/$1.err" | uniq -c | sed 's/^/      /'
  else echo "    stderr: empty"; fi
}

echo "== baseline (version 1 image) and plain version-3 conversion"
run "$W/v1.hfe" base
if grep -q '^## exit status [^0]' "$W/base.out" || [ -s "$W/base.err" ]; then
  echo "baseline commands fail?!"; cat "$W/base.err"; exit 2
fi
mkover "$W/v3.hfe" >/dev/null; run "$W/v3.hfe" v3
if same_out v3 && [ ! -s "$W/v3.err" ]; then
  echo "    signature HXCPICFE -> HXCHFEV3: all ${#CMDS[@]} commands give identical output"
else
  echo "plain v3 conversion already differs; experiment invalid"; exit 2
fi
python3 - "$W/v1.hfe" <<'EOF'
import sys, struct
d = open(sys.argv[1], 'rb').read()
rev = bytes(int('{:08b}'.format(i)[::-1], 2) for i in range(256))
n = 0
for t in range(d[9]):
    off, ln = struct.unpack_from('<HH', d, 512 + 4 * t)
    off *= 512
    if ln & 0x1ff: ln = (ln & ~0x1ff) + 0x200
    for b in range(0, ln, 512):
        n += sum(1 for x in d[off + b: off + b + 256] if rev[x] & 0xF0 == 0xF0)
print("    bytes with high nibble F (after bit reversal) in the side-0 streams of all %d tracks: %d" % (d[9], n))
EOF

REPRO=0

echo "== case A control: SETBITRATE F2 00 overwritten at block 2 offsets 250,251 (same gap, one block)"
mkover "$W/actl.hfe" 0x8FA:4F 0x8FB:00; run "$W/actl.hfe" actl; show actl
ACTL_OK=0; same_out actl && [ ! -s "$W/actl.err" ] && ACTL_OK=1

echo "== case A: SETBITRATE opcode F2 at block 2 offset 255, operand 00 at block 3 offset 0 (overwrite, in gap)"
mkover "$W/a.hfe" 0x8FF:4F 0xA00:00; run "$W/a.hfe" a; show a

echo "== case A2 control: F2 48 INSERTED inside sector 0's data field at stream bytes 300,301 (one block)"
mkins "$W/a2ctl.hfe" 300 f248; run "$W/a2ctl.hfe" a2ctl; show a2ctl
echo "== case A2: F2 48 INSERTED inside sector 0's data field at stream bytes 255,256 (block 0 off 255 / block 1 off 0)"
mkins "$W/a2.hfe" 255 f248; run "$W/a2.hfe" a2; show a2

echo "== case A3 control: F2 with operand FF overwritten at block 2 offsets 250,251 (same gap, one block)"
mkover "$W/a3ctl.hfe" 0x8FA:4F 0x8FB:FF; run "$W/a3ctl.hfe" a3ctl; show a3ctl
echo "== case A3: as case A but operand FF (operand is then itself taken for an opcode)"
mkover "$W/a3.hfe" 0x8FF:4F 0xA00:FF; run "$W/a3.hfe" a3; show a3

echo "== case B controls: F3 00, and NOP NOP, overwritten at block 3 offsets 2,3 (gap before sector 1's ID field)"
mkover "$W/bc0.hfe" 0xA02:CF 0xA03:00; run "$W/bc0.hfe" bc0; show bc0
mkover "$W/bcn.hfe" 0xA02:0F 0xA03:0F; run "$W/bcn.hfe" bcn; show bcn
echo "== case B: SKIPBITS F3 03 overwritten at block 3 offsets 2,3"
mkover "$W/b.hfe" 0xA02:CF 0xA03:C0; run "$W/b.hfe" b; show b
echo "== case B, other counts (cat only)"
for n in 1 2 3 4 5 6 7; do
  r=$(python3 -c "print('%02X' % int('{:08b}'.format($n)[::-1], 2))")
  mkover "$W/bn.hfe" 0xA02:CF 0xA03:$r >/dev/null
  "$DFS" --file "$W/bn.hfe" cat >/dev/null 2>"$W/bn.err"; rc=$?
  echo "    F3 0$n (file bytes CF $r): cat exit status $rc; stderr: $(head -1 "$W/bn.err")"
done
echo "== case B placed where nothing but gap follows in the block (block 2 offsets 250,251)"
mkover "$W/be.hfe" 0x8FA:CF 0x8FB:C0; run "$W/be.hfe" be; show be

echo
echo "== verdicts"
if same_out a; then
  if [ -s "$W/a.err" ]; then
    echo "CASE A: NOT REPRODUCED image is NOT rejected (premature_stream_end only prints a warning); stdout/exit status identical to baseline; only symptom: stderr '$(head -1 "$W/a.err")' (control clean: $ACTL_OK)"
  else
    echo "CASE A: NOT REPRODUCED output identical, no diagnostics"
  fi
else
  REPRO=1
  echo "CASE A: REPRODUCED output differs from baseline: $(head -1 "$W/a.err")"
fi
if same_out a2ctl && ! same_out a2; then
  REPRO=1
  echo "CASE A2: REPRODUCED F2 at offset 255 of a block inside a data field, operand in next block: operand is decoded as 8 flux cells, sector 0's data field no longer decodes (MFM clock violation), track 0 has 17 sectors, every command exits 1: $(grep -v '^warning' "$W/a2.err" | head -1)"
else
  echo "CASE A2: NOT REPRODUCED (control same: $(same_out a2ctl && echo yes || echo no), case same: $(same_out a2 && echo yes || echo no))"
fi
if same_out a3ctl && ! same_out a3; then
  REPRO=1
  echo "CASE A3: REPRODUCED as A (gap placement) but operand value FF: operand at the start of the next block is taken for an opcode, image rejected, every command exits 1: $(grep -v '^warning' "$W/a3.err" | head -1)"
else
  echo "CASE A3: NOT REPRODUCED (control same: $(same_out a3ctl && echo yes || echo no), case same: $(same_out a3 && echo yes || echo no))"
fi
if same_out bc0 && same_out bcn && ! same_out b; then
  REPRO=1
  echo "CASE B: REPRODUCED F3 03 in the gap before sector 1: rest of the 256-byte block is dropped, sector 1 of track 0 is lost, every command exits 1: $(head -1 "$W/b.err") (controls F3 00 and NOP NOP read identically to baseline)"
else
  echo "CASE B: NOT REPRODUCED (controls same: $(same_out bc0 && same_out bcn && echo yes || echo no), case same: $(same_out b && echo yes || echo no))"
fi
exit $REPRO
