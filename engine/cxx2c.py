"""Mechanical per-run extraction of C++ function bodies from /repo/dfs to C text (DESIGN.md 2.2).

A spec is a dict:
  name      C name of the emitted function (also the .inc file name)
  file      path relative to the repository root
  anchor    regex matching the function header; must match EXACTLY ONCE in the file; the body is the
            brace-balanced block that starts at the first '{' at or after the end of the match
  sig       the C signature to emit in front of the body (hand-written: parameter passing conventions)
  rules     list of (regex, replacement, count) applied to the body text in order; count is an int
            (exact number of firings), or a string ">=N"; a rule that fires a different number of
            times ABORTS the run (ExtractionBreak -> exit 2, never a violation)
  pre/post  optional text emitted before / after the function (e.g. #define member macros / #undef)
After the rules, the text must be free of C++-only constructs (checked).  Everything not touched by a
rule is carried over byte for byte.  The report lists rules fired, source range and SHA-256 values.
"""
import hashlib, os, re


class ExtractionBreak(Exception):
    pass


FORBIDDEN = [r"\bstd::", r"::", r"\bauto\b", r"\[&", r"\[=\]", r"\bthrow\b", r"\bnew\b", r"\btemplate\b",
             r"\bstatic_cast\b", r"\breinterpret_cast\b", r"\bconst_cast\b", r"<<\s*\"", r"\bnullptr\b",
             r"\btry\b", r"\bcatch\b", r"\boperator\b"]


def _scan_block(text, start):
    """text[start] == '{'; return index one past the matching '}' (skipping comments, strings, chars)."""
    i, depth, n = start, 0, len(text)
    while i < n:
        c = text[i]
        if text.startswith("//", i):
            j = text.find("\n", i)
            i = n if j < 0 else j + 1
            continue
        if text.startswith("/*", i):
            j = text.find("*/", i + 2)
            if j < 0:
                raise ExtractionBreak("unterminated comment")
            i = j + 2
            continue
        if c == '"' or c == "'":
            q = c
            i += 1
            while i < n and text[i] != q:
                if text[i] == "\\":
                    i += 1
                i += 1
            i += 1
            continue
        if c == "{":
            depth += 1
        elif c == "}":
            depth -= 1
            if depth == 0:
                return i + 1
        i += 1
    raise ExtractionBreak("unbalanced braces")


def strip_comments(body):
    out, i, n = [], 0, len(body)
    while i < n:
        if body.startswith("//", i):
            j = body.find("\n", i)
            j = n if j < 0 else j
            i = j
            continue
        if body.startswith("/*", i):
            j = body.find("*/", i + 2)
            out.append(" ")
            i = j + 2
            continue
        c = body[i]
        if c == '"' or c == "'":
            q, j = c, i + 1
            while j < n and body[j] != q:
                if body[j] == "\\":
                    j += 1
                j += 1
            out.append(body[i:j + 1])
            i = j + 1
            continue
        out.append(c)
        i += 1
    return "".join(out)


MANIPS = {"std::dec": "M_DEC", "std::hex": "M_HEX", "std::uppercase": "M_UPPER", "std::nouppercase": "M_NOUPPER",
          "std::left": "M_LEFT", "std::right": "M_RIGHT", "std::noshowbase": "M_NOSHOWBASE",
          "dec": "M_DEC", "hex": "M_HEX", "uppercase": "M_UPPER", "left": "M_LEFT", "right": "M_RIGHT", "noshowbase": "M_NOSHOWBASE"}


def _split_top(text, sep="<<"):
    items, depth, i, cur, n = [], 0, 0, [], len(text)
    while i < n:
        c = text[i]
        if c in "\"'":
            q, j = c, i + 1
            while j < n and text[j] != q:
                if text[j] == "\\":
                    j += 1
                j += 1
            cur.append(text[i:j + 1]); i = j + 1; continue
        if c in "([{":
            depth += 1
        elif c in ")]}":
            depth -= 1
        if depth == 0 and text.startswith(sep, i):
            items.append("".join(cur).strip()); cur = []; i += len(sep); continue
        cur.append(c); i += 1
    items.append("".join(cur).strip())
    return items


def _out_item(stream, it):
    m = re.fullmatch(r"(?:std::)?setw\((.*)\)", it, re.S)
    if m:
        return "OUT_SETW(%s, %s);" % (stream, m.group(1))
    m = re.fullmatch(r"(?:std::)?setfill\((.*)\)", it, re.S)
    if m:
        return "OUT_SETFILL(%s, %s);" % (stream, m.group(1))
    m = re.fullmatch(r"(?:std::)?setbase\((.*)\)", it, re.S)
    if m:
        return "OUT_SETBASE(%s, %s);" % (stream, m.group(1))
    if it in MANIPS:
        return "OUT_MANIP(%s, %s);" % (stream, MANIPS[it])
    if re.fullmatch(r'"(?:[^"\\]|\\.)*"', it, re.S):
        return "OUT_STR(%s, %s);" % (stream, it)
    if re.fullmatch(r"'(?:[^'\\]|\\.)+'", it):
        return "OUT_CHR(%s, %s);" % (stream, it)
    m = re.fullmatch(r"unsigned\((.*)\)", it, re.S)
    if m:
        return "OUT_NUM(%s, (unsigned)(%s));" % (stream, m.group(1))
    m = re.fullmatch(r"CSTR\((.*)\)", it, re.S)
    if m:                                   # a std::string valued expression (marked by an earlier rule)
        return "OUT_CSTR(%s, %s);" % (stream, m.group(1))
    if '"' in it:                           # an expression yielding a string literal, e.g. (c ? "L" : "")
        return "OUT_STR(%s, %s);" % (stream, it)
    return "OUT_VAL(%s, %s);" % (stream, it)


def rewrite_ostream_chains(body, stream):
    out, i, n, k = [], 0, len(body), 0
    rx = re.compile(r"(?<![\w.>])" + re.escape(stream) + r"\s*<<")
    while True:
        m = rx.search(body, i)
        if not m:
            out.append(body[i:]); break
        # statement ends at the first ';' at depth 0
        j, depth = m.end(), 0
        while j < n:
            c = body[j]
            if c in "\"'":
                q = c; j += 1
                while j < n and body[j] != q:
                    if body[j] == "\\":
                        j += 1
                    j += 1
            elif c in "([{":
                depth += 1
            elif c in ")]}":
                depth -= 1
            elif c == ";" and depth == 0:
                break
            j += 1
        items = _split_top(body[m.end():j])
        out.append(body[i:m.start()])
        out.append("{ " + " ".join(_out_item(stream, it) for it in items) + " }")
        i = j + 1
        k += 1
    return "".join(out), k


def extract(spec, repo, outdir):
    path = os.path.join(repo, spec["file"])
    try:
        text = open(path, encoding="utf-8", errors="replace").read()
    except OSError as e:
        raise ExtractionBreak("cannot read %s: %s" % (path, e))
    ms = list(re.finditer(spec["anchor"], text, re.S))
    if len(ms) == 0 and spec.get("optional"):
        # a declaration that only one shape of the source has: the stated fallback text is emitted (and reported) instead
        emitted = "/* %s: not present in %s; fallback declaration */\n%s\n" % (spec["name"], spec["file"], spec["fallback"])
        with open(os.path.join(outdir, spec["name"] + ".inc"), "w") as f:
            f.write(emitted)
        return {"function": spec["name"], "source": "%s (absent, fallback used)" % spec["file"], "source_sha256": "",
                "emitted_sha256": hashlib.sha256(emitted.encode()).hexdigest(), "rules": [], "dropped": ["fallback: " + spec["fallback"]]}
    if len(ms) != 1:
        raise ExtractionBreak("%s: anchor /%s/ matches %d times in %s (must be exactly 1)" %
                              (spec["name"], spec["anchor"], len(ms), spec["file"]))
    m = ms[0]
    if spec.get("region_end"):
        # a statement region inside a function: from the start of the anchor match up to (not including)
        # the first match of region_end after it; emitted wrapped in braces
        me = re.compile(spec["region_end"], re.S).search(text, m.end())
        if not me:
            raise ExtractionBreak("%s: region end /%s/ not found" % (spec["name"], spec["region_end"]))
        b0, b1 = m.start(), me.start()
        src = text[b0:b1]
    else:
        b0 = text.find("{", m.end() - 1 if text[m.end() - 1] == "{" else m.end())
        between = text[m.end():b0]
        if b0 < 0 or not re.fullmatch(r"[\s]*(const)?[\s]*(noexcept)?[\s]*(//[^\n]*\n|\s)*", between):
            raise ExtractionBreak("%s: unexpected text between header and body: %r" % (spec["name"], between[:80]))
        b1 = _scan_block(text, b0)
        src = text[b0:b1]
    line0 = text.count("\n", 0, b0) + 1
    line1 = text.count("\n", 0, b1) + 1
    body = strip_comments(src)
    fired = []
    for rule in spec.get("rules", []):
        rx, repl, cnt = rule
        if rx == "OSTREAM_CHAIN":
            # statement-level rewrite of `<stream> << a << b << ... ;` into one OUT_* call per inserted item
            body, k = rewrite_ostream_chains(body, repl)
            ok = (k >= int(cnt[2:])) if isinstance(cnt, str) else (k == cnt)
            fired.append({"rule": "ostream chain on '%s' -> OUT_* events" % repl, "fired": k, "expected": cnt})
            if not ok:
                raise ExtractionBreak("%s: %d ostream statements on '%s', expected %s" % (spec["name"], k, repl, cnt))
            continue
        body, k = re.subn(rx, repl, body, flags=re.S)
        if isinstance(cnt, int):
            ok = (k == cnt)
        elif cnt == ">=0":
            ok = True
        elif cnt == "=0or1":
            ok = k in (0, 1)
        else:
            ok = k >= int(cnt[2:])
        fired.append({"rule": rx, "fired": k, "expected": cnt})
        if not ok:
            raise ExtractionBreak("%s: rule /%s/ fired %d times, expected %s (source changed shape: %s:%d)" %
                                  (spec["name"], rx, k, cnt, spec["file"], line0))
    for f in FORBIDDEN + spec.get("forbid", []):
        mm = re.search(f, body)
        if mm:
            raise ExtractionBreak("%s: C++ construct /%s/ left after the rules near %r (%s:%d)" %
                                  (spec["name"], f, body[max(0, mm.start() - 30):mm.end() + 30], spec["file"], line0))
    out = []
    out.append("/* extracted mechanically from %s lines %d-%d (sha256 of source range %s) */" %
               (spec["file"], line0, line1, hashlib.sha256(src.encode()).hexdigest()[:16]))
    if spec.get("pre"):
        out.append(spec["pre"])
    if spec.get("toplevel"):
        out.append(body)          # a region of declarations (constants), emitted at file scope
    else:
        out.append(spec["sig"])
        out.append(("{\n" + body + "\n" + spec.get("region_epilogue", "") + "}") if spec.get("region_end") else body)
    if spec.get("post"):
        out.append(spec["post"])
    emitted = "\n".join(out) + "\n"
    with open(os.path.join(outdir, spec["name"] + ".inc"), "w") as f:
        f.write(emitted)
    return {"function": spec["name"], "source": "%s:%d-%d" % (spec["file"], line0, line1),
            "source_sha256": hashlib.sha256(src.encode()).hexdigest(),
            "emitted_sha256": hashlib.sha256(emitted.encode()).hexdigest(),
            "rules": fired, "dropped": spec.get("dropped", [])}
