#!/usr/bin/env python3
"""show.py [replay.json ...]: compact view of failed obligations and their counterexample values."""
import json, sys, glob, os
fs = [a for a in sys.argv[1:] if a != "-v"] or sorted(glob.glob(os.path.join(os.path.dirname(os.path.dirname(os.path.abspath(__file__))), "replays", "*.json")))
for f in fs:
    r = json.load(open(f))
    print("==", r["job"], r["obligation"], "|", r["description"], "|", r["source"])
    inp = r["verifier_counterexample_inputs"]
    out = []
    for k, v in inp.items():
        if len(k) > 48 or "[" in k and not k.startswith(("h_line[0", "h_line[1l", "h_line[2l", "h_line[3l")):
            continue
        if k.startswith("__") or k.endswith("_wrapper") or k.endswith("_ctx") or k in ("elem","size","may_fail","write_set","set","idx","ptr","tmp_cc","tmp_if_expr","allow_allocate","allow_deallocate","contract_assigns_size","contract_frees_size","tmp_assign") or "return_value___CPROVER" in k:
            continue
        out.append("%s=%s" % (k, v["value"]))
    if "-v" in sys.argv: print("   " + " ".join(out)[:1800])
