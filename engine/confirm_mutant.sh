#!/bin/sh
# confirm_mutant.sh <ID> [<dir>]: re-confirm a seeded change in its scratch worktree: builds, 39 tests pass, demo fails with it
# and passes without it; then copies patch.diff, demo.sh, NOTES.md into /verif/seeded/<ID>/ with meta.json
id=$1; d=${2:-/tmp/mut/$id}; name=${3:-$id}
cd $d || exit 2
git checkout -q -- . 2>/dev/null; git apply patch.diff || { echo "$id: patch does not apply"; exit 2; }
cmake -G Ninja -S $d -B $d/_build -DCMAKE_BUILD_TYPE=RelWithDebInfo >/dev/null 2>&1 && cmake --build $d/_build >/dev/null 2>&1 || { echo "$id: build failed"; exit 2; }
tests=$(ctest --test-dir $d/_build -j8 --timeout 900 2>&1 | grep "tests passed")
bash $d/demo.sh $d/_build >/dev/null 2>&1; with=$?
git apply -R patch.diff; cmake --build $d/_build >/dev/null 2>&1
bash $d/demo.sh $d/_build >/dev/null 2>&1; without=$?
echo "$id: tests[$tests] demo_with_change=$with demo_without=$without"
if [ "$with" != 0 ] && [ "$without" = 0 ] && echo "$tests" | grep -q "100% tests passed"; then
  mkdir -p /verif/seeded/$name && cp patch.diff demo.sh /verif/seeded/$name/ && cp NOTES.md /verif/seeded/$name/ 2>/dev/null
  echo "$id: CONFIRMED"
else
  echo "$id: NOT confirmed"
fi
