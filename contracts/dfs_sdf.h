/* Contracts: the FileView parameters of the non-interleaved (.ssd/.sdd) and interleaved (.dsd/.ddd) containers
 * (C04; doc/dfs.1 DISC IMAGE FILES).  view_add (harness) checks each view as it is created:
 *   non-interleaved, side h:  skip = h*C*S, take = C*S, leave = 0,  total = C*S   (contiguous per side)
 *   interleaved,     side h:  skip = h*S,   take = S,   leave = S,  total = C*S   (alternating tracks by side)
 * Together with FileView_read_block's contract (logical sector t*take+s -> skip + t*(take+leave) + s) this gives
 * side h, track t, sector s  ->  file sector  h*C*S + t*S + s   resp.  (2t+h)*S + s. */
#ifndef VERIF_CONTRACTS_DFS_SDF_H
#define VERIF_CONTRACTS_DFS_SDF_H
#define GEOM_OK(g) (((g).cylinders == 35 || (g).cylinders == 40 || (g).cylinders == 80) && ((g).heads == 1 || (g).heads == 2) && \
                    ((g).sectors == 10 || (g).sectors == 16 || (g).sectors == 18))

static sector_count_type Geometry_total_sectors(const struct Geometry *self)
__CPROVER_requires(__CPROVER_is_fresh(self, sizeof(*self)) && self->cylinders >= 0 && self->cylinders <= 255 && self->heads >= 0 && self->heads <= 2 && self->sectors <= 255)
__CPROVER_assigns()
__CPROVER_ensures(__CPROVER_return_value == (unsigned)self->cylinders * (unsigned)self->heads * self->sectors);

static void noninterleaved_views(const struct Geometry geometry)
__CPROVER_requires(GEOM_OK(geometry) && g_views == 0 && g_mode == 0 && g_C == (unsigned)geometry.cylinders && g_S == geometry.sectors)
__CPROVER_assigns(g_views)
__CPROVER_ensures(g_views == (unsigned)geometry.heads);

static void interleaved_views(const struct Geometry geometry)
__CPROVER_requires(GEOM_OK(geometry) && g_views == 0 && g_mode == 1 && g_C == (unsigned)geometry.cylinders && g_S == geometry.sectors)
__CPROVER_assigns(g_views)
__CPROVER_ensures(g_views == 2);
#endif
