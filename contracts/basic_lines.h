/* Contracts on the real functions of /repo/basic/lines.c (attached by re-declaration before
 * the translation unit is #included; CBMC merges them into the definitions).
 * Top-level postconditions come from the statements of C03 / C08 / C09 / C11, via the
 * monitors in spec/.  Shapes and frames come from the code and its call sites. */
#ifndef VERIF_CONTRACTS_BASIC_LINES_H
#define VERIF_CONTRACTS_BASIC_LINES_H

#define MON_NEEDLE_INDEX(n) ((n) == 0xED ? 0 : (n) == 0xFD ? 1 : (n) == 0xE3 ? 2 : 3)
/* g_diag is a 64-bit event counter; every contract bounds its growth, entries require room */
#define G_DIAG_ROOM (g_diag < (1ul << 62))
#define G_DIAG_ROOM_L3 (g_diag < (1ul << 61))
#define INDENT_BOUND (1 << 27)

static bool print_target_line_number(unsigned char b1, unsigned char b2, unsigned char b3)
__CPROVER_requires(mon_on && mon_phase == PH_TOKENS && !mon_q && mon_i + 3 < mon_len)
__CPROVER_requires(SPEC_CLASS[mon_data[mon_i]] == CL_LINENUM)
__CPROVER_requires(b1 == mon_data[mon_i + 1] && b2 == mon_data[mon_i + 2] && b3 == mon_data[mon_i + 3])
__CPROVER_requires(G_DIAG_ROOM)
__CPROVER_assigns(G)
__CPROVER_ensures(g_diag >= __CPROVER_old(g_diag) && g_diag <= __CPROVER_old(g_diag) + 2)
__CPROVER_ensures(g_file_failures == __CPROVER_old(g_file_failures))   /* frame: main-level bookkeeping untouched */
__CPROVER_ensures(__CPROVER_return_value ==> (mon_phase == PH_TOKENS && mon_i == __CPROVER_old(mon_i) + 4 && !mon_q))
__CPROVER_ensures(__CPROVER_return_value ==> (g_wfail == __CPROVER_old(g_wfail) && g_diag == __CPROVER_old(g_diag)))
__CPROVER_ensures(!__CPROVER_return_value ==> (g_wfail != __CPROVER_old(g_wfail) && g_diag > __CPROVER_old(g_diag) && mon_i == __CPROVER_old(mon_i)))
__CPROVER_ensures(g_lines_listed == __CPROVER_old(g_lines_listed))
;

static int count(unsigned char needle, const char *haystack, size_t len)
__CPROVER_requires(needle == 0xED || needle == 0xFD || needle == 0xE3 || needle == 0xF5)
__CPROVER_requires(haystack == (const char *)mon_data && len == mon_len)
__CPROVER_assigns()
__CPROVER_ensures(__CPROVER_return_value == (int)mon_cnt[MON_NEEDLE_INDEX(needle)][mon_len])
;

static bool handle_token(unsigned char uch, long file_pos,
                         const unsigned char **input, unsigned char *len,
                         const struct expansion_map *m)
__CPROVER_requires(mon_on && mon_phase == PH_TOKENS && !mon_q && mon_i < mon_len)
__CPROVER_requires(uch == mon_data[mon_i] && uch != 0)
__CPROVER_requires(__CPROVER_is_fresh(input, sizeof(*input)) && __CPROVER_is_fresh(len, sizeof(*len)))
__CPROVER_requires(*input == mon_data + mon_i + 1 && *len == mon_len - mon_i - 1)
__CPROVER_requires(m == &SPEC_MAP && G_DIAG_ROOM)
__CPROVER_requires(-1 <= file_pos && file_pos <= (1l << 41))       /* -1: ftell failed (non-seekable standard input); the position is only used in diagnostics */
__CPROVER_assigns(*input, *len, G)
__CPROVER_ensures(g_file_failures == __CPROVER_old(g_file_failures))   /* frame: main-level bookkeeping untouched */
__CPROVER_ensures(g_diag >= __CPROVER_old(g_diag) && g_diag <= __CPROVER_old(g_diag) + 6)
/* success: exactly the bytes of one token were consumed and exactly its expansion was listed
   (the event itself is checked by the monitor when it happens) */
__CPROVER_ensures(__CPROVER_return_value ==>
                  (mon_phase == PH_TOKENS && mon_i > __CPROVER_old(mon_i) && mon_i <= mon_len &&
                   *input == mon_data + mon_i && *len == mon_len - mon_i &&
                   mon_q == (uch == '"')))
__CPROVER_ensures(__CPROVER_return_value ==>
                  (g_wfail == __CPROVER_old(g_wfail) && g_diag == __CPROVER_old(g_diag)))
/* failure: a diagnostic was issued; unless a write failed the token is one the spec rejects,
   and nothing was listed for it */
__CPROVER_ensures(!__CPROVER_return_value ==> g_diag > __CPROVER_old(g_diag))
__CPROVER_ensures((!__CPROVER_return_value && g_wfail == __CPROVER_old(g_wfail)) ==>
                  (mon_i == __CPROVER_old(mon_i) && g_out_events == __CPROVER_old(g_out_events) &&
                   mon_phase == PH_TOKENS && !mon_q && mon_reject_ok && SPEC_TOKEN_BAD_AT(mon_i, 0)))
/* C03 completeness: a token the specification lists is never rejected */
__CPROVER_ensures((!__CPROVER_return_value) ==> (g_wfail != __CPROVER_old(g_wfail) || SPEC_TOKEN_BAD_AT(__CPROVER_old(mon_i), 0)))
__CPROVER_ensures(g_lines_listed == __CPROVER_old(g_lines_listed))
;

static bool decode_line(unsigned char line_hi, unsigned char line_lo,
                        unsigned char orig_len, const char *data,
                        long orig_file_pos,
                        const struct expansion_map *m, int *indent, int listo)
__CPROVER_requires(mon_on && mon_phase == PH_NUM && mon_i == 0 && !mon_q)
__CPROVER_requires(line_hi == mon_hi && line_lo == mon_lo && orig_len == mon_len)
__CPROVER_requires(data == (const char *)mon_data && m == mon_map && m == &SPEC_MAP && listo == mon_listo)
__CPROVER_requires(__CPROVER_is_fresh(indent, sizeof(*indent)) && *indent == mon_indent_in)
__CPROVER_requires(-INDENT_BOUND <= mon_indent_in && mon_indent_in <= INDENT_BOUND)
__CPROVER_requires(mon_c0 <= mon_len && mon_c1 <= mon_len && mon_c2 <= mon_len && mon_c3 <= mon_len)
__CPROVER_requires(-1 <= orig_file_pos && orig_file_pos <= (1l << 40))
__CPROVER_requires(G_DIAG_ROOM && g_lines_listed < (1ul << 39))
/* C09 "never invents text": the line handed over is the one the framing automaton has just
   delivered from the file -- completely read, by the most recent fread, into this buffer */
__CPROVER_requires(fmon_on ==> (fmon_phase == FPH_LINE_READY && fmon_lines == g_lines_listed + 1 &&
                                line_hi == fmon_hi && line_lo == fmon_lo && orig_len == fmon_blen &&
                                (const void *)data == g_last_fread_dst && g_last_fread_n >= orig_len &&
                                (fmon_gk < orig_len ==> (unsigned char)data[fmon_gk] == g_file[fmon_body + fmon_gk])))
__CPROVER_assigns(*indent, G)
__CPROVER_ensures(g_file_failures == __CPROVER_old(g_file_failures))   /* frame: main-level bookkeeping untouched */
__CPROVER_ensures(g_diag >= __CPROVER_old(g_diag) && g_diag <= __CPROVER_old(g_diag) + 8)
/* C03: returns true only after the monitor has seen the complete listing of the line */
__CPROVER_ensures(__CPROVER_return_value ==> (mon_phase == PH_DONE && mon_i == mon_len))
__CPROVER_ensures(__CPROVER_return_value ==> (*indent == MON_INDENT_OUT && mon_indent_run == MON_INDENT_OUT))
/* C11: success implies no write failed during the call */
__CPROVER_ensures(__CPROVER_return_value ==> g_wfail == __CPROVER_old(g_wfail))
__CPROVER_ensures(__CPROVER_return_value ==> g_diag == __CPROVER_old(g_diag))
/* C08/C09: failure is always accompanied by a diagnostic */
__CPROVER_ensures(!__CPROVER_return_value ==> g_diag > __CPROVER_old(g_diag))
/* C03 completeness / C09: without a write failure, failure means the token under the monitor's
   cursor is one the specification rejects */
__CPROVER_ensures((!__CPROVER_return_value && g_wfail == __CPROVER_old(g_wfail)) ==>
                  (mon_phase == PH_TOKENS && mon_i < mon_len && mon_reject_ok))
__CPROVER_ensures(__CPROVER_return_value ==> g_lines_listed == __CPROVER_old(g_lines_listed) + 1)
__CPROVER_ensures(g_lines_listed == __CPROVER_old(g_lines_listed) || g_lines_listed == __CPROVER_old(g_lines_listed) + 1)
__CPROVER_ensures(*indent >= __CPROVER_old(*indent) - 4 * (int)orig_len && *indent <= __CPROVER_old(*indent) + 4 * (int)orig_len)
;


/* ---- L3: framing (C03 framing lemma, C09 i-iii, C11) --------------------------------------- */
#define L3_GHOST_FRAME G, GL, GF

/* VERIF_MAP_GLUE (only the decode_file job sets it to 1): there the decoders are applied to the map the
   real build_mapping() produced (&dec->xmap) instead of the spec map they were verified against; the L1
   table lemma (contracts/basic_tokens.h) is what justifies the substitution -- see DESIGN.md C03. */
#ifndef VERIF_MAP_GLUE
#define VERIF_MAP_GLUE 0
#endif
#define L3_REQUIRES \
  __CPROVER_requires(f != NULL) \
  __CPROVER_requires(fmon_on && mon_on && g_pos == 0 && g_len <= VERIF_FILE_MAX) \
  __CPROVER_requires(fmon_phase == FPH_START && fmon_lines == g_lines_listed && g_lines_listed < (1ul << 38)) \
  __CPROVER_requires((m == &SPEC_MAP || VERIF_MAP_GLUE) && mon_map == m && mon_listo == listo && mon_indent_run == 0) \
  __CPROVER_requires(G_DIAG_ROOM_L3 && !g_read_error_happened)

#define L3_ENSURES \
  __CPROVER_ensures(g_file_failures == __CPROVER_old(g_file_failures)) \
  __CPROVER_ensures(g_diag >= __CPROVER_old(g_diag) && g_diag <= __CPROVER_old(g_diag) + 16) \
  /* C09(i): success only on a complete, well-framed program, every framed line listed once */ \
  __CPROVER_ensures(__CPROVER_return_value ==> (fmon_phase == FPH_DONE && g_lines_listed == fmon_lines)) \
  /* C11 */ \
  __CPROVER_ensures(__CPROVER_return_value ==> g_wfail == __CPROVER_old(g_wfail)) \
  /* C08/C09: failure comes with a diagnostic */ \
  __CPROVER_ensures(!__CPROVER_return_value ==> g_diag > __CPROVER_old(g_diag)) \
  /* C03: a well-formed program is never rejected (absent I/O errors) */ \
  __CPROVER_ensures((!__CPROVER_return_value && g_wfail == __CPROVER_old(g_wfail) && !g_read_error_happened) ==> \
                    (fmon_phase == FPH_BAD || \
                     (fmon_phase == FPH_LINE_READY && mon_reject_ok)))

#define L3_ENSURES_NOFF \
  __CPROVER_ensures(g_diag >= __CPROVER_old(g_diag) && g_diag <= __CPROVER_old(g_diag) + 16) \
  /* C09(i): success only on a complete, well-framed program, every framed line listed once */ \
  __CPROVER_ensures(__CPROVER_return_value ==> (fmon_phase == FPH_DONE && g_lines_listed == fmon_lines)) \
  /* C11 */ \
  __CPROVER_ensures(__CPROVER_return_value ==> g_wfail == __CPROVER_old(g_wfail)) \
  /* C08/C09: failure comes with a diagnostic */ \
  __CPROVER_ensures(!__CPROVER_return_value ==> g_diag > __CPROVER_old(g_diag)) \
  /* C03: a well-formed program is never rejected (absent I/O errors) */ \
  __CPROVER_ensures((!__CPROVER_return_value && g_wfail == __CPROVER_old(g_wfail) && !g_read_error_happened) ==> \
                    (fmon_phase == FPH_BAD || \
                     (fmon_phase == FPH_LINE_READY && mon_reject_ok)))

bool decode_big_endian_program(FILE *f, const char *filename, const struct expansion_map *m, int listo)
__CPROVER_requires(SPEC_BIG_ENDIAN)      /* doc/bbcbasic.5: 6502, 32016, ARM, Mac, PDP11 */
L3_REQUIRES
__CPROVER_assigns(L3_GHOST_FRAME)
L3_ENSURES
;

bool decode_little_endian_program(FILE *f, const char *filename, const struct expansion_map *m, int listo)
__CPROVER_requires(!(SPEC_BIG_ENDIAN))   /* doc/bbcbasic.5: Z80, 8086, Windows */
L3_REQUIRES
__CPROVER_assigns(L3_GHOST_FRAME)
L3_ENSURES
;

#endif
