/* Contracts for drive-number allocation (C16). */
#ifndef VERIF_CONTRACTS_DFS_STORAGE_H
#define VERIF_CONTRACTS_DFS_STORAGE_H

/* the two sides of one physical drive: {4k, 4k+2} and {4k+1, 4k+3} */
#define SPEC_OPPOSITE(d) (((d) % 4u) < 2u ? (d) + 2u : (d) - 2u)

static surface_t SurfaceSelector_opposite_surface(surface_t d_)
__CPROVER_requires(d_ % 4u >= 2u || d_ <= UINT_MAX - 2u)
__CPROVER_assigns()
__CPROVER_ensures(__CPROVER_return_value == SPEC_OPPOSITE(d_))
/* an involution that never maps a drive to itself */
__CPROVER_ensures(SPEC_OPPOSITE(__CPROVER_return_value) == d_ && __CPROVER_return_value != d_);

static surface_t SurfaceSelector_corresponding_side_of_next_device(surface_t d)
__CPROVER_requires(g_exc == EXC_NONE)
__CPROVER_assigns(g_exc, g_exc_by_pointer)
__CPROVER_ensures(d <= UINT_MAX - 2u ==> (g_exc == EXC_NONE && __CPROVER_return_value == d + 2u))
__CPROVER_ensures(d > UINT_MAX - 2u ==> g_exc != EXC_NONE);

static surface_t SurfaceSelector_next(surface_t d_)
__CPROVER_requires(g_exc == EXC_NONE)
__CPROVER_assigns(g_exc, g_exc_by_pointer)
__CPROVER_ensures(d_ != UINT_MAX ==> (g_exc == EXC_NONE && __CPROVER_return_value == d_ + 1u))
__CPROVER_ensures(d_ == UINT_MAX ==> g_exc != EXC_NONE);

static surface_t SurfaceSelector_prev(surface_t d_)
__CPROVER_requires(g_exc == EXC_NONE)
__CPROVER_assigns(g_exc, g_exc_by_pointer)
__CPROVER_ensures(d_ != 0 ==> (g_exc == EXC_NONE && __CPROVER_return_value == d_ - 1u))
__CPROVER_ensures(d_ == 0 ==> g_exc != EXC_NONE);

/* fits(i, n): i and its opposite side are free, and i, i+2, ..., i+2(n-1) are free and exist */
static bool check_sequence_fits(surface_t i, const size_t to_do, struct occ_fn *occupied)
__CPROVER_requires(g_exc == EXC_NONE && i < UINT_MAX)
__CPROVER_assigns(g_exc, g_exc_by_pointer, g_cf_witness, g_i0)
__CPROVER_ensures(g_exc == EXC_NONE)
__CPROVER_ensures(__CPROVER_return_value ==> (unsigned long)i + 2ul * to_do <= (unsigned long)UINT_MAX)
__CPROVER_ensures(__CPROVER_return_value ==>
                  (!g_occ[i] && !g_occ[SPEC_OPPOSITE(i)] &&
                   to_do <= (1ul << 31) &&
                   (g_k < to_do ==> ((unsigned long)i + 2ul * g_k < UINT_MAX - 1ul && !g_occ[i + 2u * (unsigned)g_k]))))
__CPROVER_ensures(!__CPROVER_return_value ==>
                  ((g_cf_witness == i && g_occ[SPEC_OPPOSITE(i)]) ||
                   (g_occ[g_cf_witness] && (
                                            (g_cf_witness >= i && (g_cf_witness - i) % 2u == 0 && (g_cf_witness - i) / 2u < (to_do == 0 ? 1 : to_do)))) ||
                   to_do > (1ul << 31) || (unsigned long)i + 2ul * to_do >= UINT_MAX + 1ul));
#endif

/* ---- connect_drives (both policies), for images of at most two surfaces (every container except MMB) --------- */
#ifndef VERIF_CONNECT_H
#define VERIF_CONNECT_H
/* occupancy during the call = occupancy before it (g_occ, immutable) plus the drives this call connected */
#define IS_NEW(d) ((g_new_n >= 1 && g_new0 == (d)) || (g_new_n >= 2 && g_new1 == (d)))
#define OCC_NOW(d) (g_occ[d] || IS_NEW(d))
/* fits(m, k): m and its opposite are free, and m (k >= 1) and m+2 (k >= 2) are free -- pre-state occupancy */
#define FITS2(m, k) ((unsigned long)(m) + 2ul * (k) <= (unsigned long)UINT_MAX && !g_occ[m] && !g_occ[SPEC_OPPOSITE(m)] && ((k) < 2 || !g_occ[(m) + 2u]))

static bool connect_drives(size_t drives_n, int how)
__CPROVER_requires(drives_n >= 1 && drives_n <= 2 && g_new_n == 0 && g_exc == EXC_NONE)
/* drive numbers in use are small (a real configuration attaches a handful of images) */
__CPROVER_requires(g_m < (1u << 30) ==> 1)
__CPROVER_assigns(g_new_n, g_new0, g_new1, g_exc, g_exc_by_pointer, g_cf_witness, g_i0)
/* success: exactly drives_n drives newly connected, none of them occupied before (earlier images neither move
   nor get hidden: g_occ is not assigned at all) */
__CPROVER_ensures(__CPROVER_return_value ==> (g_exc == EXC_NONE && g_new_n == drives_n && !g_occ[g_new0] && (drives_n < 2 || (!g_occ[g_new1] && g_new1 != g_new0))))
/* physical policy: m, m+2 for the LEAST m that fits ... */
__CPROVER_ensures((__CPROVER_return_value && how == DriveAllocation_PHYSICAL) ==>
                  (FITS2(g_new0, drives_n) && (drives_n < 2 || g_new1 == g_new0 + 2u) && (g_m < g_new0 ==> !FITS2(g_m, drives_n))))
/* ... hence a new image never takes the opposite side of a drive another image occupies */
__CPROVER_ensures((__CPROVER_return_value && how == DriveAllocation_PHYSICAL) ==>
                  (!g_occ[SPEC_OPPOSITE(g_new0)] && (drives_n < 2 || !g_occ[SPEC_OPPOSITE(g_new1)])))
/* first-free policy: the lowest free numbers, in order */
__CPROVER_ensures((__CPROVER_return_value && how != DriveAllocation_PHYSICAL) ==>
                  ((g_m < g_new0 ==> g_occ[g_m]) && (drives_n < 2 || (g_new0 < g_new1 && ((g_m > g_new0 && g_m < g_new1) ==> g_occ[g_m])))));
#endif
