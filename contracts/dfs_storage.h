/* Contracts for drive-number allocation (C16). */
#ifndef VERIF_CONTRACTS_DFS_STORAGE_H
#define VERIF_CONTRACTS_DFS_STORAGE_H

/* the two sides of one physical drive: {4k, 4k+2} and {4k+1, 4k+3} */
#define SPEC_OPPOSITE(d) (((d) % 4u) < 2u ? (d) + 2u : (d) - 2u)

static surface_t SurfaceSelector_opposite_surface(surface_t d_)
__CPROVER_requires(d_ <= UINT_MAX - 2u)
__CPROVER_assigns()
__CPROVER_ensures(__CPROVER_return_value == SPEC_OPPOSITE(d_))
/* an involution that never maps a drive to itself */
__CPROVER_ensures(SPEC_OPPOSITE(__CPROVER_return_value) == d_ && __CPROVER_return_value != d_);

static surface_t SurfaceSelector_corresponding_side_of_next_device(surface_t d)
__CPROVER_requires(g_exc == EXC_NONE)
__CPROVER_assigns(g_exc, g_exc_by_pointer)
__CPROVER_ensures(d <= UINT_MAX - 2u ==> (g_exc == EXC_NONE && __CPROVER_return_value == d + 2u))
__CPROVER_ensures(d > UINT_MAX - 2u ==> g_exc != EXC_NONE);

static surface_t SurfaceSelector_next(surface_t d_)
__CPROVER_requires(g_exc == EXC_NONE)
__CPROVER_assigns(g_exc, g_exc_by_pointer)
__CPROVER_ensures(d_ != UINT_MAX ==> (g_exc == EXC_NONE && __CPROVER_return_value == d_ + 1u))
__CPROVER_ensures(d_ == UINT_MAX ==> g_exc != EXC_NONE);

static surface_t SurfaceSelector_prev(surface_t d_)
__CPROVER_requires(g_exc == EXC_NONE)
__CPROVER_assigns(g_exc, g_exc_by_pointer)
__CPROVER_ensures(d_ != 0 ==> (g_exc == EXC_NONE && __CPROVER_return_value == d_ - 1u))
__CPROVER_ensures(d_ == 0 ==> g_exc != EXC_NONE);

/* fits(i, n): i and its opposite side are free, and i, i+2, ..., i+2(n-1) are free and exist */
static bool check_sequence_fits(surface_t i, const size_t to_do, struct occ_fn *occupied)
__CPROVER_requires(g_exc == EXC_NONE && i <= UINT_MAX - 2u && g_i0 == i)
__CPROVER_assigns(g_exc, g_exc_by_pointer, g_cf_witness)
__CPROVER_ensures(g_exc == EXC_NONE)
__CPROVER_ensures(__CPROVER_return_value ==>
                  (!g_occ[i] && !g_occ[SPEC_OPPOSITE(i)] &&
                   to_do <= (1ul << 31) &&
                   (g_k < to_do ==> ((unsigned long)i + 2ul * g_k < UINT_MAX - 1ul && !g_occ[i + 2u * (unsigned)g_k]))))
__CPROVER_ensures(!__CPROVER_return_value ==>
                  ((g_cf_witness == i && g_occ[SPEC_OPPOSITE(i)]) ||
                   (g_occ[g_cf_witness] && (
                                            (g_cf_witness >= i && (g_cf_witness - i) % 2u == 0 && (g_cf_witness - i) / 2u < (to_do == 0 ? 1 : to_do)))) ||
                   to_do > (1ul << 31) || (unsigned long)i + 2ul * to_do >= UINT_MAX + 1ul));
#endif
