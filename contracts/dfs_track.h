/* Contracts: CRC-16/CCITT (crc16.cc), bit-stream access and MFM byte decoding (track.h, track_mfm.cc).
 * CRC definition: CRC-16/CCITT, polynomial 0x1021, MSB first (doc/dfs.1 INF format -> AUG p.348; IBM System 34
 * ID/data field CRC with initial value 0xFFFF). */
#ifndef VERIF_CONTRACTS_DFS_TRACK_H
#define VERIF_CONTRACTS_DFS_TRACK_H

/* one bit-serial step with a zero data bit already folded into the top bit */
#define SPEC_CRC_SHIFT(c) ((((c) & 0x8000ul) ? ((((c) << 1) ^ 0x1021ul)) : ((c) << 1)) & 0xFFFFul)

static unsigned long crc_cycle(unsigned long crc)
__CPROVER_requires(crc <= 0xFFFFul) __CPROVER_assigns()
__CPROVER_ensures(__CPROVER_return_value == SPEC_CRC_SHIFT(crc));

static void CRC16Base_update_bit(struct CRC16Base *self, bool bitval)
__CPROVER_requires(__CPROVER_is_fresh(self, sizeof(*self)) && self->crc_ <= 0xFFFFul)
__CPROVER_assigns(self->crc_)
__CPROVER_ensures(self->crc_ == SPEC_CRC_SHIFT(__CPROVER_old(self->crc_) ^ (bitval ? 0x8000ul : 0ul)));

/* update(): the state after the bytes [start, end) is the fold of the byte step over them, in order
   (h_crc_pref[i] = state after i bytes, defined by the harness with the bit-serial step) */
static void CRC16Base_update(struct CRC16Base *self, const uint8_t *start, const uint8_t *end)
__CPROVER_requires(__CPROVER_is_fresh(self, sizeof(*self)))
/* [start, end) is a segment of the logical stream h_crc_data, and the state on entry is the state after the bytes before it */
__CPROVER_requires(start >= h_crc_data && start <= h_crc_data + CRC_MAXLEN && end >= start && end <= h_crc_data + CRC_MAXLEN)
__CPROVER_requires(self->crc_ == h_crc_pref[start - h_crc_data])
__CPROVER_assigns(self->crc_, __CPROVER_object_whole(h_inner))
__CPROVER_ensures(self->crc_ == h_crc_pref[end - h_crc_data]);

static byte reverse_bit_order(byte in)
__CPROVER_assigns()
__CPROVER_ensures(((__CPROVER_return_value >> g_bit) & 1) == ((in >> (7 - g_bit)) & 1));

#define BS_OK(bs) (__CPROVER_is_fresh(bs, sizeof(struct BitStream)) && (bs)->input_ == h_track && (bs)->raw_bit_size_ <= 8 * TRACK_BYTES && \
                   (bs)->raw_bit_size_ % 8 == 0 && (bs)->stride_ == VERIF_STRIDE && (bs)->first_ <= 1)   /* stride 1 (HxC MFM) or 2 (HFE side interleave): one job each */
static size_t BitStream_raw_pos(const struct BitStream *self, size_t bitpos)
__CPROVER_requires(BS_OK(self) && bitpos <= (1ul << 32)) __CPROVER_assigns()
__CPROVER_ensures(__CPROVER_return_value == bitpos * self->stride_ + self->first_);

/* bits are stored LSB first within each byte */
static bool BitStream_rawbit(const struct BitStream *self, size_t raw_bitpos)
__CPROVER_requires(BS_OK(self) && raw_bitpos < self->raw_bit_size_) __CPROVER_assigns()
__CPROVER_ensures(__CPROVER_return_value == (((h_track[raw_bitpos / 8] >> (raw_bitpos % 8)) & 1) != 0));

static size_t BitStream_size(const struct BitStream *self)
__CPROVER_requires(BS_OK(self) && self->first_ <= self->raw_bit_size_) __CPROVER_assigns()
__CPROVER_ensures(__CPROVER_return_value == (self->raw_bit_size_ - self->first_) / self->stride_);

static bool BitStream_getbit(const struct BitStream *self, size_t bitpos)
__CPROVER_requires(BS_OK(self) && bitpos <= (1ul << 32) && bitpos * self->stride_ + self->first_ < self->raw_bit_size_) __CPROVER_assigns()
__CPROVER_ensures(__CPROVER_return_value == (((h_track[(bitpos * self->stride_ + self->first_) / 8] >> ((bitpos * self->stride_ + self->first_) % 8)) & 1) != 0));

/* MFM: 16 cells c7 d7 ... c0 d0; a byte is delivered only if EVERY clock bit obeys the MFM rule
   c_i = !(d_{i+1} | d_i) (C06: a cell with a wrong clock bit yields no byte); the byte is d7..d0 */
#ifndef CELL
#define CELL_IN(bs, p) ((p) * VERIF_STRIDE + (bs)->first_ < (bs)->raw_bit_size_)     /* BS_OK: stride_ == VERIF_STRIDE */
#define CELL(bs, p) (((h_track[((p) * VERIF_STRIDE + (bs)->first_) / 8] >> (((p) * VERIF_STRIDE + (bs)->first_) % 8)) & 1) != 0)
#endif
static struct opt_byte mfm_read_byte(const struct BitStream *bits, size_t *pos_)
__CPROVER_requires(BS_OK(bits) && __CPROVER_is_fresh(pos_, sizeof(*pos_)) && *pos_ >= 1 && *pos_ <= (1ul << 24) && bits->first_ <= bits->raw_bit_size_)
/* the cell before the byte is inside the stream (it is read before any length check: callers start after a sync mark) */
__CPROVER_requires(CELL_IN(bits, *pos_ - 1))
__CPROVER_requires(g_diag < 1000)
__CPROVER_assigns(*pos_, g_diag)
__CPROVER_ensures(g_diag <= __CPROVER_old(g_diag) + 1 && *pos_ >= __CPROVER_old(*pos_) && *pos_ <= __CPROVER_old(*pos_) + 16)
__CPROVER_ensures(__CPROVER_return_value.has ==> (*pos_ == __CPROVER_old(*pos_) + 16 && g_diag == __CPROVER_old(g_diag) && CELL_IN(bits, *pos_ - 1)))
__CPROVER_ensures(__CPROVER_return_value.has ==>
                  ((((__CPROVER_return_value.val >> (7 - g_bit)) & 1) != 0) == CELL(bits, __CPROVER_old(*pos_) + 2 * g_bit + 1) &&
                   CELL(bits, __CPROVER_old(*pos_) + 2 * g_bit) ==
                     !(CELL(bits, __CPROVER_old(*pos_) + 2 * g_bit - 1) || CELL(bits, __CPROVER_old(*pos_) + 2 * g_bit + 1))))
__CPROVER_ensures(!__CPROVER_return_value.has ==> g_diag > __CPROVER_old(g_diag));
#endif
