/* Contracts: the MFM track decoder (track_mfm.cc, track.cc, track.h) -- C06 first sentence.
 *
 *   BitStream::scan_for             the 64 cells ending at the reported position are the ones reported, and match
 *   copy_mfm_bytes                  n bytes, each decoded by read_byte from the next 16 cells, or failure
 *   check_crc_with_a1s              true iff CRC-16/CCITT (init 0xFFFF) over A1 A1 A1 ++ data is 0
 *   decode_sector_address_and_size  the ID field layout (mark FE, cylinder, head, record, size code 0..3)
 *   decode_mfm_track                the state machine; every result.push_back(sec) is checked by the monitor
 *
 * Types shared by the jobs: a std::vector<byte> is its size() n plus the storage h_vec_store for data()/operator[]
 * (in each of these functions at most one vector is in use at a time); `sync` is a ghost field. */
#ifndef VERIF_CONTRACTS_DFS_MFM_H
#define VERIF_CONTRACTS_DFS_MFM_H

#define h_vec_store (h_crc_data + 3)
#define DECVEC_CAP 1032           /* 1 + 1024 + 2 (mark, largest sector, CRC) rounded up */
struct opt_scan { _Bool has; size_t first; uint64_t second; };
struct decvec { size_t n; unsigned long sync; };    /* the elements live in h_vec_store (one vector is in use at a time) */
static void scan_pair(struct opt_scan *o, size_t first, uint64_t second) { o->first = first; o->second = second; }   /* std::make_pair */

/* ---- BitStream::scan_for ------------------------------------------------------------------------------------- */
static size_t g_p;                  /* ghost: an absolute (cooked) cell position */
static size_t g_q;                  /* ghost: a second position -- "the search was at g_q" */
static struct { uint64_t win, got; } g_scan_q;     /* ghost log (written by SCAN_GHOST_LOG): shifter and got when the search was at g_q */
#define SCAN_GHOST_LOG if (i_cooked == g_q) { g_scan_q.win = shifter; g_scan_q.got = got; }
#define SCAN_GOT_AT(start, q) (((q) - (start) >= 63) ? 0xFFFFFFFFFFFFFFFFull : ((1ull << (((q) - (start) + 1) & 63)) - 1ull))
static struct opt_scan BitStream_scan_for(const struct BitStream *self, size_t start, uint64_t val, uint64_t mask)
__CPROVER_requires(BS_OK(self) && start <= (1ul << 24) && self->first_ <= self->raw_bit_size_)
__CPROVER_assigns(g_scan_q)
/* FIRST match: at no earlier position g_q of this search did the word seen there match (that word is the cells that end
   at g_q, as many as the search had read: its bit g_q - g_p is cell g_p) */
__CPROVER_ensures((__CPROVER_return_value.has && g_q >= start && g_q < __CPROVER_return_value.first) ==>
                  (g_scan_q.got == SCAN_GOT_AT(start, g_q) &&
                   !((mask & g_scan_q.got) == mask && (mask & g_scan_q.win) == (mask & val)) &&
                   ((g_p >= start && g_p <= g_q && g_q - g_p < 64 && CELL_IN(self, g_q)) ==> ((((g_scan_q.win >> ((g_q - g_p) & 63)) & 1) != 0) == CELL(self, g_p)))))
/* found: a position at or after start, inside the stream ... */
__CPROVER_ensures(__CPROVER_return_value.has ==>
                  (__CPROVER_return_value.first >= start && __CPROVER_return_value.first < self->raw_bit_size_ &&
                   CELL_IN(self, __CPROVER_return_value.first)))
/* ... the reported word matches the pattern under the mask ... */
__CPROVER_ensures(__CPROVER_return_value.has ==> ((__CPROVER_return_value.second & mask) == (val & mask)))
/* ... and its bit k is the cell k places before the reported position, for every cell read (ghost position g_p) */
__CPROVER_ensures((__CPROVER_return_value.has && g_p >= start && g_p <= __CPROVER_return_value.first && __CPROVER_return_value.first - g_p < 64) ==>
                  ((((__CPROVER_return_value.second >> (__CPROVER_return_value.first - g_p)) & 1) != 0) == CELL(self, g_p)))
/* at least as many cells were read as the mask is wide */
__CPROVER_ensures((__CPROVER_return_value.has && __CPROVER_return_value.first - start < 63) ==> (mask >> ((__CPROVER_return_value.first - start + 1) & 63)) == 0)
/* a full 64-bit mask needs 64 cells */
__CPROVER_ensures((__CPROVER_return_value.has && mask == 0xFFFFFFFFFFFFFFFFull) ==> __CPROVER_return_value.first >= start + 63)
;

/* ---- copy_mfm_bytes -------------------------------------------------------------------------------------------- */
static size_t g_m;                  /* ghost: index of one copied byte */
#define DECVEC_OK(v) (__CPROVER_is_fresh(v, sizeof(struct decvec)) && (v)->n <= DECVEC_CAP)
static bool copy_mfm_bytes(const struct BitStream *bits, size_t *thisbit_, size_t n, struct decvec *out)
__CPROVER_requires(BS_OK(bits) && bits->first_ <= bits->raw_bit_size_ && __CPROVER_is_fresh(thisbit_, sizeof(*thisbit_)) && DECVEC_OK(out))
__CPROVER_requires(*thisbit_ >= 1 && *thisbit_ <= (1ul << 20) && CELL_IN(bits, *thisbit_ - 1) && n <= DECVEC_CAP && out->n + n <= DECVEC_CAP && g_diag < 100)
__CPROVER_assigns(*thisbit_, out->n, __CPROVER_object_whole(h_crc_data), g_diag)
__CPROVER_ensures(*thisbit_ >= __CPROVER_old(*thisbit_) && *thisbit_ <= __CPROVER_old(*thisbit_) + 16 * n)
__CPROVER_ensures(out->n >= __CPROVER_old(out->n) && out->n <= __CPROVER_old(out->n) + n)
/* success: exactly n bytes appended, 16 cells each ... */
__CPROVER_ensures(__CPROVER_return_value ==> (out->n == __CPROVER_old(out->n) + n && *thisbit_ == __CPROVER_old(*thisbit_) + 16 * n))
/* ... byte g_m of them is the data bits of cells [pos + 16 g_m, pos + 16 g_m + 16) (bit g_bit shown), whose clock bit obeys the MFM rule */
__CPROVER_ensures((__CPROVER_return_value && g_m < n) ==>
                  ((((h_vec_store[__CPROVER_old(out->n) + g_m] >> (7 - g_bit)) & 1) != 0) == CELL(bits, __CPROVER_old(*thisbit_) + 16 * g_m + 2 * g_bit + 1) &&
                   CELL(bits, __CPROVER_old(*thisbit_) + 16 * g_m + 2 * g_bit) ==
                     !(CELL(bits, __CPROVER_old(*thisbit_) + 16 * g_m + 2 * g_bit - 1) || CELL(bits, __CPROVER_old(*thisbit_) + 16 * g_m + 2 * g_bit + 1))))
/* failure is reported */
__CPROVER_ensures(!__CPROVER_return_value ==> g_diag > __CPROVER_old(g_diag))
__CPROVER_ensures(g_diag >= __CPROVER_old(g_diag) && g_diag <= __CPROVER_old(g_diag) + 1)
;

/* ---- check_crc_with_a1s ---------------------------------------------------------------------------------------- */
/* The logical CRC stream is h_crc_data = A1 A1 A1 ++ data (every vector's storage is h_vec_store = h_crc_data + 3);
   h_crc_pref[i] is the bit-serial CRC-16/CCITT state after i bytes of it, starting from 0xFFFF (filled by the harness of the
   job that enforces this contract).  Where the contract REPLACES a call (the state machine job, VERIF_CRC_ABSTRACT) the
   ghost table does not exist: its two set-up preconditions and the postcondition are left out, i.e. the verdict is
   unconstrained there -- assuming less is sound; the state machine's monitor records the verdict actually returned. */
static bool check_crc_with_a1s(const struct decvec *data)
__CPROVER_requires(__CPROVER_is_fresh(data, sizeof(*data)) && data->n <= CRC_MAXLEN - 3 && g_diag < 100)
#ifndef VERIF_CRC_ABSTRACT
__CPROVER_requires(h_crc_pref[0] == 0xFFFF && h_crc_data[0] == 0xA1 && h_crc_data[1] == 0xA1 && h_crc_data[2] == 0xA1)
#endif
__CPROVER_assigns(g_diag, __CPROVER_object_whole(h_inner))
__CPROVER_ensures(g_diag >= __CPROVER_old(g_diag) && g_diag <= __CPROVER_old(g_diag) + 1)
#ifndef VERIF_CRC_ABSTRACT
__CPROVER_ensures(__CPROVER_return_value == (h_crc_pref[3 + data->n] == 0))
#endif
;

/* ---- decode_sector_address_and_size ------------------------------------------------------------------------------ */
static bool decode_sector_address_and_size(const byte *header, struct SectorAddress *address, int *siz)
__CPROVER_requires(__CPROVER_is_fresh(header, 5) && __CPROVER_is_fresh(address, sizeof(*address)) && __CPROVER_is_fresh(siz, sizeof(*siz)) && g_diag < 100)
__CPROVER_assigns(*address, *siz, g_diag)
__CPROVER_ensures(g_diag >= __CPROVER_old(g_diag) && g_diag <= __CPROVER_old(g_diag) + 1)
/* IBM System 34 ID field: FE, cylinder, head, record, size code; sizes 128 << code for codes 0..3 */
__CPROVER_ensures(__CPROVER_return_value == (header[0] == id_address_mark && header[4] <= 3))
__CPROVER_ensures(__CPROVER_return_value ==>
                  (address->cylinder == header[1] && address->head == header[2] && address->record == header[3] && *siz == (128 << header[4])))
;

/* ================= FM (track_fm.cc) ================================================================================ */
struct opt_cd { _Bool has; unsigned char first, second; };      /* std::optional<std::pair<byte, byte>>: (clock, data) */
struct opt_uint { _Bool has; unsigned int val; };

/* FM: 16 cells c7 d7 ... c0 d0; read_byte returns the 8 clock cells and the 8 data cells, or nothing at the end */
static struct opt_cd fm_read_byte(const struct BitStream *bits, size_t *start_)
__CPROVER_requires(BS_OK(bits) && bits->first_ <= bits->raw_bit_size_ && __CPROVER_is_fresh(start_, sizeof(*start_)) && *start_ <= (1ul << 24))
__CPROVER_assigns(*start_)
__CPROVER_ensures(*start_ >= __CPROVER_old(*start_) && *start_ <= __CPROVER_old(*start_) + 16)
__CPROVER_ensures(__CPROVER_return_value.has ==> (*start_ == __CPROVER_old(*start_) + 16 && CELL_IN(bits, *start_ - 1)))
__CPROVER_ensures(__CPROVER_return_value.has ==>
                  ((((__CPROVER_return_value.first >> (7 - g_bit)) & 1) != 0) == CELL(bits, __CPROVER_old(*start_) + 2 * g_bit) &&
                   (((__CPROVER_return_value.second >> (7 - g_bit)) & 1) != 0) == CELL(bits, __CPROVER_old(*start_) + 2 * g_bit + 1)))
;

/* copy_fm_bytes: n bytes, each with the normal FM clock (all eight clock cells set), or failure */
static bool copy_fm_bytes(const struct BitStream *bits, size_t *thisbit_, size_t n, struct decvec *out)
__CPROVER_requires(BS_OK(bits) && bits->first_ <= bits->raw_bit_size_ && __CPROVER_is_fresh(thisbit_, sizeof(*thisbit_)) && DECVEC_OK(out))
__CPROVER_requires(*thisbit_ <= (1ul << 20) && n <= DECVEC_CAP && out->n + n <= DECVEC_CAP && g_diag < 100)
__CPROVER_assigns(*thisbit_, out->n, __CPROVER_object_whole(h_crc_data), g_diag)
__CPROVER_ensures(*thisbit_ >= __CPROVER_old(*thisbit_) && *thisbit_ <= __CPROVER_old(*thisbit_) + 16 * n)
__CPROVER_ensures(out->n >= __CPROVER_old(out->n) && out->n <= __CPROVER_old(out->n) + n)
__CPROVER_ensures(g_diag >= __CPROVER_old(g_diag) && g_diag <= __CPROVER_old(g_diag) + 1)
__CPROVER_ensures(__CPROVER_return_value ==> (out->n == __CPROVER_old(out->n) + n && *thisbit_ == __CPROVER_old(*thisbit_) + 16 * n))
__CPROVER_ensures((__CPROVER_return_value && g_m < n) ==>
                  ((((h_vec_store[__CPROVER_old(out->n) + g_m] >> (7 - g_bit)) & 1) != 0) == CELL(bits, __CPROVER_old(*thisbit_) + 16 * g_m + 2 * g_bit + 1) &&
                   CELL(bits, __CPROVER_old(*thisbit_) + 16 * g_m + 2 * g_bit)))
__CPROVER_ensures(!__CPROVER_return_value ==> g_diag > __CPROVER_old(g_diag))
;

/* get_crc: CRC-16/CCITT from 0xFFFF over the vector (stream segment starting at offset 3 of h_crc_data; the table is
   filled from there by the harness of the enforcing job; left out where the contract replaces a call) */
static unsigned long fm_get_crc(const struct decvec *data)
__CPROVER_requires(__CPROVER_is_fresh(data, sizeof(*data)) && data->n <= CRC_MAXLEN - 3)
#ifndef VERIF_CRC_ABSTRACT
__CPROVER_requires(h_crc_pref[3] == 0xFFFF)
#endif
__CPROVER_assigns(__CPROVER_object_whole(h_inner))
#ifndef VERIF_CRC_ABSTRACT
__CPROVER_ensures(__CPROVER_return_value == h_crc_pref[3 + data->n])
#endif
;

/* find_record_address_mark: the next data (F56F) or deleted-data (F56A) mark preceded by two FM zero bytes */
static struct opt_uint fm_find_record_address_mark(size_t *thisbit_, const struct BitStream *bits, size_t bits_avail)
__CPROVER_requires(BS_OK(bits) && bits->first_ <= bits->raw_bit_size_ && __CPROVER_is_fresh(thisbit_, sizeof(*thisbit_)))
__CPROVER_requires(*thisbit_ <= (1ul << 20) && bits_avail <= 8 * TRACK_BYTES)
__CPROVER_assigns(*thisbit_, g_scan_q)
__CPROVER_ensures(*thisbit_ >= __CPROVER_old(*thisbit_) && (*thisbit_ == __CPROVER_old(*thisbit_) || *thisbit_ <= 8 * TRACK_BYTES))
__CPROVER_ensures(__CPROVER_return_value.has ==>
                  ((__CPROVER_return_value.val == 0xF56A || __CPROVER_return_value.val == 0xF56F) &&
                   *thisbit_ > __CPROVER_old(*thisbit_) && CELL_IN(bits, *thisbit_ - 1)))
/* the 16 cells that end just before the new position are that mark (ghost cell g_p) */
__CPROVER_ensures((__CPROVER_return_value.has && g_p < *thisbit_ && *thisbit_ - 1 - g_p < 16 && g_p >= __CPROVER_old(*thisbit_)) ==>
                  ((((__CPROVER_return_value.val >> (*thisbit_ - 1 - g_p)) & 1) != 0) == CELL(bits, g_p)))
;
#endif
