/* Contracts on the extracted CatalogEntry / Volume::Access / sign_extend functions.
 * Postconditions from doc/dfs.1 (DFS FILE METADATA, SIGN EXTENSION OF ADDRESSES), the DFS catalogue
 * layout and the statements of C01, C02, C17. */
#ifndef VERIF_CONTRACTS_DFS_CATALOG_H
#define VERIF_CONTRACTS_DFS_CATALOG_H

#define CE_FRESH __CPROVER_is_fresh(self, sizeof(*self))
#define M(i) ((unsigned long)self->raw_metadata_[i])
/* the catalogue encoding: 16 low bits + 2 high bits taken from byte 6 */
#define SPEC_LOAD   (M(0) | (M(1) << 8) | (((M(6) >> 2) & 3ul) << 16))
#define SPEC_EXEC   (M(2) | (M(3) << 8) | (((M(6) >> 6) & 3ul) << 16))
#define SPEC_LENGTH (M(4) | (M(5) << 8) | (((M(6) >> 4) & 3ul) << 16))
#define SPEC_START  (M(7) | ((M(6) & 3ul) << 8))
#define SPEC_SECTORS_OF(len) (((len) + 255ul) / 256ul)       /* ceil(len/256) */

static unsigned short CatalogEntry_metadata_byte(const struct CatalogEntry *self, unsigned offset)
__CPROVER_requires(CE_FRESH && offset < 8)
__CPROVER_assigns()
__CPROVER_ensures(__CPROVER_return_value == self->raw_metadata_[offset]);

static unsigned short CatalogEntry_metadata_word(const struct CatalogEntry *self, unsigned offset)
__CPROVER_requires(CE_FRESH && offset < 7)
__CPROVER_assigns()
__CPROVER_ensures(__CPROVER_return_value == (M(offset) | (M(offset + 1) << 8)));

static unsigned long CatalogEntry_load_address(const struct CatalogEntry *self)
__CPROVER_requires(CE_FRESH) __CPROVER_assigns()
__CPROVER_ensures(__CPROVER_return_value == SPEC_LOAD);

static unsigned long CatalogEntry_exec_address(const struct CatalogEntry *self)
__CPROVER_requires(CE_FRESH) __CPROVER_assigns()
__CPROVER_ensures(__CPROVER_return_value == SPEC_EXEC);

static unsigned long CatalogEntry_file_length(const struct CatalogEntry *self)
__CPROVER_requires(CE_FRESH) __CPROVER_assigns()
__CPROVER_ensures(__CPROVER_return_value == SPEC_LENGTH);

static sector_count_type CatalogEntry_start_sector(const struct CatalogEntry *self)
__CPROVER_requires(CE_FRESH) __CPROVER_assigns()
__CPROVER_ensures(__CPROVER_return_value == SPEC_START);

static char CatalogEntry_directory(const struct CatalogEntry *self)
__CPROVER_requires(CE_FRESH) __CPROVER_assigns()
__CPROVER_ensures(__CPROVER_return_value == (char)(self->raw_name_[7] & 0x7F));

static bool CatalogEntry_is_locked(const struct CatalogEntry *self)
__CPROVER_requires(CE_FRESH) __CPROVER_assigns()
__CPROVER_ensures(__CPROVER_return_value == ((self->raw_name_[7] & 0x80) != 0));

static sector_count_type sector_count(long int x)
__CPROVER_requires(0 <= x && x <= (long)UINT_MAX)
__CPROVER_assigns()
__CPROVER_ensures(__CPROVER_return_value == (sector_count_type)x);

/* last sector occupied: start + ceil(len/256) - 1; for a zero-length file the code answers `start` */
static sector_count_type CatalogEntry_last_sector(const struct CatalogEntry *self)
__CPROVER_requires(CE_FRESH) __CPROVER_assigns()
__CPROVER_ensures(__CPROVER_return_value ==
                  (SPEC_LENGTH == 0 ? SPEC_START : SPEC_START + SPEC_SECTORS_OF(SPEC_LENGTH) - 1));

/* doc/dfs.1 SIGN EXTENSION OF ADDRESSES: bits 23..18 copy bit 17, bits 16..0 unchanged */
static unsigned long sign_extend(unsigned long address)
__CPROVER_requires(address < 0x40000ul)
__CPROVER_assigns()
__CPROVER_ensures(__CPROVER_return_value == ((address & 0x20000ul) ? (address | 0xFC0000ul) : address));

/* C17: a read at or beyond the end of the volume fails; otherwise it is the underlying read at
   origin + lba, inside [origin, origin + len) */
static opt_SectorBuffer VolumeAccess_read_block(struct VolumeAccess *self, unsigned long lba)
__CPROVER_requires(__CPROVER_is_fresh(self, sizeof(*self)) && self->underlying_ == &h_underlying)
__CPROVER_requires(self->origin_ <= (1ul << 40) && self->len_ <= (1ul << 40))
__CPROVER_assigns(g_rb_calls, g_rb_last_lba, g_rb_last_obj, g_rb_last_buf, g_rb_last_ok)
__CPROVER_ensures(lba >= self->len_ ==> (!__CPROVER_return_value.has && g_rb_calls == __CPROVER_old(g_rb_calls)))
__CPROVER_ensures(lba < self->len_ ==> (g_rb_calls == __CPROVER_old(g_rb_calls) + 1 && g_rb_last_obj == &h_underlying &&
                                         g_rb_last_lba == self->origin_ + lba &&
                                         __CPROVER_return_value.has == g_rb_last_ok));

/* C01: the file body is visited sector by sector: the k-th read asks for start+k, the k-th visit is given
   that buffer and min(256, len-256k) bytes, exactly ceil(len/256) reads and visits on success */
static bool CatalogEntry_visit_file_body_piecewise(const struct CatalogEntry *self, struct DataAccess *media, struct visitor *visitor)
__CPROVER_requires(CE_FRESH && media == &h_media && visitor == &h_visitor)
__CPROVER_requires(mv_on && mv_start == SPEC_START && mv_len == SPEC_LENGTH && mv_reads == 0 && mv_visits == 0)
__CPROVER_requires(g_exc == EXC_NONE && !mv_unreadable && !mv_stop)
__CPROVER_assigns(g_rb_calls, g_rb_last_lba, g_rb_last_obj, g_rb_last_buf, g_rb_last_ok, mv_reads, mv_visits, mv_unreadable, mv_stop, g_exc, g_exc_by_pointer)
__CPROVER_ensures(__CPROVER_return_value ==> (g_exc == EXC_NONE && mv_visits == SPEC_SECTORS_OF(mv_len) && mv_reads == mv_visits))
__CPROVER_ensures(g_exc != EXC_NONE ==> (g_exc == EXC_BadFileSystem && !g_exc_by_pointer && mv_unreadable && !__CPROVER_return_value))
__CPROVER_ensures((!__CPROVER_return_value && g_exc == EXC_NONE) ==> mv_stop)
__CPROVER_ensures(mv_reads <= SPEC_SECTORS_OF(mv_len));

#endif
