/* Contract for the used/free computation of `free` (C14). */
#ifndef VERIF_CONTRACTS_DFS_FREE_H
#define VERIF_CONTRACTS_DFS_FREE_H
#define E_LEN(e)   ((unsigned long)(e).raw_metadata_[4] | ((unsigned long)(e).raw_metadata_[5] << 8) | ((((unsigned long)(e).raw_metadata_[6] >> 4) & 3ul) << 16))
#define E_START(e) ((unsigned long)(e).raw_metadata_[7] | (((unsigned long)(e).raw_metadata_[6] & 3ul) << 8))
/* one past the last sector the file occupies; a zero-length file occupies none */
#define E_END(e)   (E_LEN(e) == 0 ? 0ul : E_START(e) + ((E_LEN(e) + 255ul) >> 8))

static void free_compute(const struct CatalogEntry *entries, size_t entries_n, const struct CatalogView *catalog, struct free_result *out)
__CPROVER_requires(entries_n <= 62 && entries == h_entries && __CPROVER_is_fresh(catalog, sizeof(*catalog)) && __CPROVER_is_fresh(out, sizeof(*out)))
__CPROVER_requires((catalog->catalog_sectors == 2 || catalog->catalog_sectors == 4) && (catalog->max_file_count == 31 || catalog->max_file_count == 62))
__CPROVER_requires(entries_n <= (size_t)catalog->max_file_count && catalog->total_sectors <= 2047)
__CPROVER_assigns(*out, g_used_witness)
/* used + free files = 31 / 62;  used + free sectors = the catalogue's total sector count */
__CPROVER_ensures(out->files_used + out->files_free == catalog->max_file_count && out->files_used == (int)entries_n)
__CPROVER_ensures(out->sectors_used + out->sectors_free == (int)catalog->total_sectors)
/* used = one past the highest sector any file occupies, the catalogue's own sectors when there is none */
__CPROVER_ensures(out->sectors_used >= (int)catalog->catalog_sectors)
__CPROVER_ensures(g_e < entries_n ==> (unsigned long)out->sectors_used >= E_END(h_entries[g_e]))
__CPROVER_ensures(out->sectors_used == (int)catalog->catalog_sectors ||
                  (g_used_witness < entries_n && (unsigned long)out->sectors_used == E_END(h_entries[g_used_witness])));
#endif
