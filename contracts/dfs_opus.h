/* Contracts: extents of Opus DDOS volumes (C17).  A volume occupies [start_sector, next) where next is the start of
 * the following volume (or the end of the disc): its length is next - start, never more. */
#ifndef VERIF_CONTRACTS_DFS_OPUS_H
#define VERIF_CONTRACTS_DFS_OPUS_H
static void VolumeLocation_set_next_sector(struct VolumeLocation *self, unsigned long next)
__CPROVER_requires(__CPROVER_is_fresh(self, sizeof(*self)) && next >= self->start_sector_)
__CPROVER_assigns(self->len_)
__CPROVER_ensures(self->start_sector_ + self->len_ == next && self->len_ <= next);

static unsigned long VolumeLocation_len(const struct VolumeLocation *self)
__CPROVER_requires(__CPROVER_is_fresh(self, sizeof(*self))) __CPROVER_assigns()
__CPROVER_ensures(__CPROVER_return_value == self->len_);

static unsigned long VolumeLocation_start_sector(const struct VolumeLocation *self)
__CPROVER_requires(__CPROVER_is_fresh(self, sizeof(*self))) __CPROVER_assigns()
__CPROVER_ensures(__CPROVER_return_value == self->start_sector_);
#endif
