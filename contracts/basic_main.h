/* Contracts on /repo/basic/decoder.c and /repo/basic/bbcbasic_to_text.c (C08, C09 iii, C11, C19). */
#ifndef VERIF_CONTRACTS_BASIC_MAIN_H
#define VERIF_CONTRACTS_BASIC_MAIN_H

#ifndef VERIF_ANY_DIALECT
#define VERIF_ANY_DIALECT 0
#endif

/* a decoder object as new_decoder builds it */
#define DECODER_OK(p) ((p)->dialect < NUM_DIALECTS)

struct decoder *new_decoder(enum Dialect d, int listo)
/* C08: the dialect is an index into the token tables -- it must be a valid, initialised value */
__CPROVER_requires(d >= MIN_DIALECT && d < NUM_DIALECTS)
__CPROVER_requires(VERIF_ANY_DIALECT || d == DIALECT)
__CPROVER_assigns()
__CPROVER_ensures(__CPROVER_return_value == NULL ||
                  (__CPROVER_is_fresh(__CPROVER_return_value, sizeof(struct decoder)) &&
                   __CPROVER_return_value->dialect == d && __CPROVER_return_value->listo == listo))
;

void destroy_decoder(struct decoder *p)
__CPROVER_requires(p == NULL || __CPROVER_is_freeable(p))
__CPROVER_assigns()
__CPROVER_frees(p)
;

bool decode_file(struct decoder *dec, const char *filename, FILE *f)
__CPROVER_requires(f != NULL && filename != NULL)        /* C08: a stream that was really opened */
__CPROVER_requires(__CPROVER_is_fresh(dec, sizeof(*dec)) && DECODER_OK(dec))
__CPROVER_requires(VERIF_ANY_DIALECT || (dec->dialect == DIALECT && mon_map == &dec->xmap && mon_listo == dec->listo))
__CPROVER_requires(VERIF_ANY_DIALECT || (fmon_on && mon_on))
/* the stream is positioned at the start of its file and the specification monitors are in their
   "new program" state.  At main level (VERIF_ANY_DIALECT) this is an environment assumption: every
   stream handed over is freshly opened, or is standard input named at most once (DESIGN.md C08). */
__CPROVER_requires(VERIF_ANY_DIALECT || (g_pos == 0 && g_len <= VERIF_FILE_MAX))
__CPROVER_requires(VERIF_ANY_DIALECT || (fmon_phase == FPH_START && fmon_lines == g_lines_listed && g_lines_listed < (1ul << 38)))
__CPROVER_requires(VERIF_ANY_DIALECT || (mon_indent_run == 0 && !g_read_error_happened))
__CPROVER_requires(G_DIAG_ROOM_L3)
__CPROVER_assigns(L3_GHOST_FRAME)
#if VERIF_ANY_DIALECT
L3_ENSURES_NOFF
#else
L3_ENSURES
#endif
#if VERIF_ANY_DIALECT
/* main-level bookkeeping (definitional): g_file_failures counts the input files whose decoding failed */
__CPROVER_ensures(g_file_failures == __CPROVER_old(g_file_failures) + (__CPROVER_return_value ? 0ul : 1ul))
#endif
;

static bool set_listo(const char *s, int *listo)
__CPROVER_requires(s != NULL)
__CPROVER_requires(__CPROVER_is_fresh(s, 16) && s[15] == 0)
__CPROVER_requires(__CPROVER_is_fresh(listo, sizeof(*listo)) && G_DIAG_ROOM)
__CPROVER_assigns(*listo, G)
__CPROVER_ensures(g_file_failures == __CPROVER_old(g_file_failures))
__CPROVER_ensures(g_diag >= __CPROVER_old(g_diag) && g_diag <= __CPROVER_old(g_diag) + 2)
__CPROVER_ensures(__CPROVER_return_value ==> (0 <= *listo && *listo <= 7 && g_diag == __CPROVER_old(g_diag)))
__CPROVER_ensures(!__CPROVER_return_value ==> (*listo == __CPROVER_old(*listo) && g_diag > __CPROVER_old(g_diag)))
__CPROVER_ensures(g_wfail == __CPROVER_old(g_wfail))
;

bool print_dialects(FILE *f, const char *default_dialect_name)
__CPROVER_requires(G_DIAG_ROOM && !mon_on)
__CPROVER_assigns(G)
__CPROVER_ensures(g_file_failures == __CPROVER_old(g_file_failures))
__CPROVER_ensures(g_diag >= __CPROVER_old(g_diag) && g_diag <= __CPROVER_old(g_diag) + 64)
/* C11: success implies every write was accepted */
__CPROVER_ensures((__CPROVER_return_value && f == stdout) ==> g_wfail == __CPROVER_old(g_wfail))
__CPROVER_ensures(f == stderr ==> g_wfail == __CPROVER_old(g_wfail))
__CPROVER_ensures(f == stdout ==> g_diag == __CPROVER_old(g_diag))
;

bool internal_dump_all_dialects(const char *file_name)
__CPROVER_requires(file_name != NULL)                   /* C08: handed to strcmp and fopen */
__CPROVER_requires(G_DIAG_ROOM && !mon_on)
__CPROVER_assigns(G)
__CPROVER_ensures(g_file_failures == __CPROVER_old(g_file_failures))
__CPROVER_ensures(g_diag >= __CPROVER_old(g_diag) && g_diag <= __CPROVER_old(g_diag) + 8)
__CPROVER_ensures(__CPROVER_return_value ==> g_wfail == __CPROVER_old(g_wfail))
__CPROVER_ensures(!__CPROVER_return_value ==> g_diag > __CPROVER_old(g_diag))
;

/* C08: exit status 0 or 1; non-zero comes with a diagnostic.  C11: 0 implies no write failed.
   g_argv_ok: argv[0..argc] are the harness' opaque strings. */
int wrapped_main(int argc, char *argv[])
__CPROVER_requires(argc >= 1 && argc <= VERIF_ARGC_MAX && argc == verif_argc && verif_optind == 1)
__CPROVER_requires(argv == h_argv)     /* harness: argv[i] -> 16-byte NUL-terminated unconstrained strings */
__CPROVER_requires(!mon_on && !fmon_on && g_diag < (1ul << 40) && g_file_failures < (1ul << 40))
__CPROVER_requires(g_len <= VERIF_FILE_MAX && g_lines_listed < (1ul << 30))
__CPROVER_assigns(G, GL, GF, verif_optind, verif_optarg, __CPROVER_object_whole(verif_optarg_obj))
__CPROVER_ensures(__CPROVER_return_value == 0 || __CPROVER_return_value == 1)
__CPROVER_ensures(g_diag >= __CPROVER_old(g_diag) && g_diag <= __CPROVER_old(g_diag) + 4096)
__CPROVER_ensures(__CPROVER_return_value == 1 ==> g_diag > __CPROVER_old(g_diag))
__CPROVER_ensures(__CPROVER_return_value == 0 ==> g_wfail == __CPROVER_old(g_wfail))
/* C09: exit status 0 only if every input file was opened, decoded and closed successfully */
__CPROVER_ensures(__CPROVER_return_value == 0 ==> g_file_failures == __CPROVER_old(g_file_failures))
;

int main(int argc, char *argv[])
__CPROVER_requires(argc >= 1 && argc <= VERIF_ARGC_MAX && argc == verif_argc && verif_optind == 1)
__CPROVER_requires(argv == h_argv)     /* harness: argv[i] -> 16-byte NUL-terminated unconstrained strings */
__CPROVER_requires(!mon_on && !fmon_on && g_diag < (1ul << 40) && g_file_failures < (1ul << 40))
__CPROVER_requires(g_len <= VERIF_FILE_MAX && g_lines_listed < (1ul << 30))
__CPROVER_assigns(G, GL, GF, verif_optind, verif_optarg, __CPROVER_object_whole(verif_optarg_obj))
__CPROVER_ensures(__CPROVER_return_value == 0 || __CPROVER_return_value == 1)
__CPROVER_ensures(__CPROVER_return_value != 0 ==> g_diag > __CPROVER_old(g_diag))
/* C11: exit status 0 implies that no write, including the final flush, has failed */
__CPROVER_ensures(__CPROVER_return_value == 0 ==> g_wfail == __CPROVER_old(g_wfail))
;
#endif
