/* Contract for the wildcard -> POSIX ERE translation, one wildcard character at a time (C15).
 * Axioms about POSIX.2 extended regular expressions (trusted; cross-checked against glibc regcomp/regexec
 * for every 7-bit character by setup.sh):
 *   A1  [c]      matches exactly the character c, for every c except '^' (and NUL)  -- "[^" opens a negated set
 *   A2  [Xx]     matches exactly X and x (letters)
 *   A3  [^.]     matches any one character except '.';  [^.]*  any run of such characters
 *   A4  \^       matches exactly '^';   ':' matches exactly ':'
 */
#ifndef VERIF_CONTRACTS_DFS_AFSP_H
#define VERIF_CONTRACTS_DFS_AFSP_H
#define IS_LETTER(c) (((c) >= 'A' && (c) <= 'Z') || ((c) >= 'a' && (c) <= 'z'))
#define FRAG1(v, a)             ((v)->n == 1 && (v)->d[0] == (a))
#define FRAG2(v, a, b)          ((v)->n == 2 && (v)->d[0] == (a) && (v)->d[1] == (b))
#define FRAG3(v, a, b, c)       ((v)->n == 3 && (v)->d[0] == (a) && (v)->d[1] == (b) && (v)->d[2] == (c))
#define FRAG4(v, a, b, c, e)    ((v)->n == 4 && (v)->d[0] == (a) && (v)->d[1] == (b) && (v)->d[2] == (c) && (v)->d[3] == (e))
#define FRAG5(v, a, b, c, e, f) ((v)->n == 5 && (v)->d[0] == (a) && (v)->d[1] == (b) && (v)->d[2] == (c) && (v)->d[3] == (e) && (v)->d[4] == (f))

static void wildcard_char_to_ere(char w, struct charvec *parts)
__CPROVER_requires(__CPROVER_is_fresh(parts, sizeof(*parts)) && parts->n == 0 && w > 0)   /* DFS names are 7-bit, non-NUL */
__CPROVER_assigns(*parts)
/* '#' any one character except '.';  '*' any run of characters except '.' (A3) */
__CPROVER_ensures(w == '#' ==> FRAG4(parts, '[', '^', '.', ']'))
__CPROVER_ensures(w == '*' ==> FRAG5(parts, '[', '^', '.', ']', '*'))
__CPROVER_ensures(w == ':' ==> FRAG1(parts, ':'))
/* letters match case-insensitively (A2) */
__CPROVER_ensures(IS_LETTER(w) ==> FRAG4(parts, '[', (char)verif_toupper(w), (char)verif_tolower(w), ']'))
/* every other character matches only itself, never acting as an operator (A1, A4) */
__CPROVER_ensures((w != '#' && w != '*' && w != ':' && !IS_LETTER(w) && w != '^') ==> FRAG3(parts, '[', w, ']'))
__CPROVER_ensures(w == '^' ==> FRAG2(parts, '\\', '^'));

static char afsp_up(char ch) __CPROVER_assigns()
__CPROVER_ensures(__CPROVER_return_value == ((ch >= 'a' && ch <= 'z') ? ch - 32 : ch));
static char afsp_down(char ch) __CPROVER_assigns()
__CPROVER_ensures(__CPROVER_return_value == ((ch >= 'A' && ch <= 'Z') ? ch + 32 : ch));
#endif
