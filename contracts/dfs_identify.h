/* Contracts for the file-system probes of identify.cc (C13). */
#ifndef VERIF_CONTRACTS_DFS_IDENTIFY_H
#define VERIF_CONTRACTS_DFS_IDENTIFY_H

#define SB_FRESH(p) __CPROVER_is_fresh(p, sizeof(SectorBuffer))
/* 10-bit start sector of catalogue entry e (0-based) in the second catalogue sector */
#define ENTRY_START10(buf, e) ((unsigned)(buf)->d[8 * (e) + 8 + 7] | (((unsigned)(buf)->d[8 * (e) + 8 + 6] & 3u) << 8))
#define ENTRY_COUNT(buf) ((unsigned)(buf)->d[5] / 8u)

static bool smells_like_hdfs(const SectorBuffer *sec1)
__CPROVER_requires(SB_FRESH(sec1)) __CPROVER_assigns()
/* HDFS by its flag bit: bit 3 of byte 6 of sector 1 */
__CPROVER_ensures(__CPROVER_return_value == ((sec1->d[6] & 8) != 0));

static sector_count_type get_dfs_sector_count(const SectorBuffer *sec1)
__CPROVER_requires(SB_FRESH(sec1)) __CPROVER_assigns()
__CPROVER_ensures(__CPROVER_return_value == ((unsigned)sec1->d[7] | (((unsigned)sec1->d[6] & 7u) << 8)));

static sector_count_type get_hdfs_sector_count(const SectorBuffer *sec1)
__CPROVER_requires(SB_FRESH(sec1)) __CPROVER_assigns()
__CPROVER_ensures(__CPROVER_return_value ==
                  (((unsigned)sec1->d[7] | (((unsigned)sec1->d[6] & 3u) << 8)) << ((sec1->d[6] & 4) ? 1 : 0)));

/* C13: Watford only when the 0xAA recognition bytes are in sector 2 and no catalogued file starts there
   (10-bit start sector); the only sector read is sector 2 (file bodies elsewhere cannot matter) */
static bool smells_like_watford(struct DataAccess *access, const SectorBuffer *buf1)
__CPROVER_requires(SB_FRESH(buf1) && access == &h_media)
__CPROVER_assigns(g_rb_calls, g_rb_last_lba, g_rb_last_obj, g_rb_last_buf, g_rb_last_ok, g_allof_result, g_witness_pos)
__CPROVER_ensures(g_rb_calls == __CPROVER_old(g_rb_calls) || (g_rb_calls == __CPROVER_old(g_rb_calls) + 1 && g_rb_last_lba == 2))
__CPROVER_ensures(__CPROVER_return_value ==>
                  (g_rb_calls == __CPROVER_old(g_rb_calls) + 1 && g_rb_last_ok &&
                   (g_k < 8 ==> g_rb_last_buf.d[g_k] == 0xAA) &&
                   (g_e < ENTRY_COUNT(buf1) ==> ENTRY_START10(buf1, g_e) != 2)))
__CPROVER_ensures(!__CPROVER_return_value ==>
                  ((g_rb_calls == __CPROVER_old(g_rb_calls) && g_witness_pos >= 8 && g_witness_pos % 8 == 0 &&
                    g_witness_pos / 8 - 1 < ENTRY_COUNT(buf1) && ENTRY_START10(buf1, g_witness_pos / 8 - 1) == 2) ||
                   (g_rb_calls == __CPROVER_old(g_rb_calls) + 1 && (!g_rb_last_ok || !g_allof_result))));
#endif
