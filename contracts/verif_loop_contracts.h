/* Loop contracts for the VERIF_LOOP(name) hooks in /repo/basic (guard BEEBTOOLS_VERIF).
 * A harness may pre-define VERIF_LOOP_<name> (e.g. as empty, when the loop is unwound with
 * unwinding assertions instead); the defaults below are the inductive contracts. */
#ifndef VERIF_LOOP_CONTRACTS_H
#define VERIF_LOOP_CONTRACTS_H

/* lines.c: count() --  n = occurrences of needle in haystack[0 .. consumed) */
#ifndef VERIF_LOOP_count
#define VERIF_LOOP_count \
  __CPROVER_assigns(len, p, n) \
  __CPROVER_loop_invariant(len <= __CPROVER_loop_entry(len)) \
  __CPROVER_loop_invariant(__CPROVER_same_object(p, haystack)) \
  __CPROVER_loop_invariant(p == (const unsigned char *)haystack + (__CPROVER_loop_entry(len) - len)) \
  __CPROVER_loop_invariant(n == (int)mon_cnt[MON_NEEDLE_INDEX(needle)][__CPROVER_loop_entry(len) - len]) \
  __CPROVER_decreases(len)
#endif

/* lines.c: decode_line() token loop -- the code's cursor equals the monitor's cursor */
#ifndef VERIF_LOOP_decode_line
#define VERIF_LOOP_decode_line \
  __CPROVER_assigns(p, len, in_string, file_pos, G) \
  __CPROVER_loop_invariant(mon_i <= orig_len && len == orig_len - mon_i) \
  __CPROVER_loop_invariant(p == (const unsigned char *)data + mon_i) \
  __CPROVER_loop_invariant(mon_on ==> (mon_phase == PH_TOKENS && in_string == mon_q)) \
  __CPROVER_loop_invariant(g_wfail == __CPROVER_loop_entry(g_wfail)) \
  __CPROVER_loop_invariant(g_diag == __CPROVER_loop_entry(g_diag)) \
  __CPROVER_loop_invariant(g_lines_listed == __CPROVER_loop_entry(g_lines_listed) && g_file_failures == __CPROVER_loop_entry(g_file_failures)) \
  __CPROVER_loop_invariant(orig_file_pos <= file_pos && file_pos <= orig_file_pos + (long)mon_i) \
  __CPROVER_decreases(len)
#endif

/* lines.c: the per-line loops of the two program decoders.  At the loop head the file cursor is at a
   line boundary of the framing automaton, every framed line has been listed, and the running indent
   is the specification's. */
#define VERIF_LOOP_DECODER_INVARIANT \
  __CPROVER_loop_invariant(g_pos <= g_len && empty == (g_pos == 0)) \
  __CPROVER_loop_invariant((fmon_phase == FPH_START && (g_pos == 0 || !(SPEC_BIG_ENDIAN))) || (fmon_phase == FPH_LINE_READY && g_pos > 0)) \
  __CPROVER_loop_invariant(g_lines_listed == fmon_lines && fmon_lines < (1ul << 38) + g_pos) \
  __CPROVER_loop_invariant(indent == mon_indent_run && -4 * (long)g_pos <= indent && indent <= 4 * (long)g_pos) \
  __CPROVER_loop_invariant(g_wfail == __CPROVER_loop_entry(g_wfail)) \
  __CPROVER_loop_invariant(!g_read_error_happened && g_file_failures == __CPROVER_loop_entry(g_file_failures)) \
  __CPROVER_decreases(g_len - g_pos)

#ifndef VERIF_LOOP_decode_le
#define VERIF_LOOP_decode_le \
  __CPROVER_assigns(L3_GHOST_FRAME, indent, empty, file_pos, __CPROVER_object_whole(buf)) \
  __CPROVER_loop_invariant(g_diag == __CPROVER_loop_entry(g_diag)) \
  VERIF_LOOP_DECODER_INVARIANT
#endif
#ifndef VERIF_LOOP_decode_be
#define VERIF_LOOP_decode_be \
  __CPROVER_assigns(L3_GHOST_FRAME, indent, empty, warned, file_pos, len, __CPROVER_object_whole(buf)) \
  __CPROVER_loop_invariant(g_diag == __CPROVER_loop_entry(g_diag) + (warned ? 1ul : 0ul)) \
  VERIF_LOOP_DECODER_INVARIANT
#endif
#ifndef VERIF_LOOP_bm_ascii
#define VERIF_LOOP_bm_ascii
#endif
#ifndef VERIF_LOOP_bm_identity
#define VERIF_LOOP_bm_identity
#endif
#ifndef VERIF_LOOP_bm_base
#define VERIF_LOOP_bm_base
#endif
#ifndef VERIF_LOOP_build_invalid_map
#define VERIF_LOOP_build_invalid_map
#endif
#ifndef VERIF_LOOP_set_dialect
#define VERIF_LOOP_set_dialect
#endif
#ifndef VERIF_LOOP_any_tokens_valid
#define VERIF_LOOP_any_tokens_valid
#endif
#ifndef VERIF_LOOP_dump_map
#define VERIF_LOOP_dump_map
#endif
#ifndef VERIF_LOOP_dump_all_dialects
#define VERIF_LOOP_dump_all_dialects
#endif
#ifndef VERIF_LOOP_print_dialects
#define VERIF_LOOP_print_dialects
#endif
/* bbcbasic_to_text.c: option loop and file loop of wrapped_main (no decreases clause on the option
   loop: its termination is getopt's contract, which is assumed) */
#ifndef VERIF_LOOP_main_options
#define VERIF_LOOP_main_options \
  __CPROVER_assigns(opt, listo, dialect, longindex, G, verif_optind, verif_optarg, __CPROVER_object_whole(verif_optarg_obj)) \
  __CPROVER_loop_invariant(1 <= verif_optind && verif_optind <= argc) \
  __CPROVER_loop_invariant(0 <= listo && listo <= 7) \
  __CPROVER_loop_invariant(dialect < NUM_DIALECTS) \
  __CPROVER_loop_invariant(g_wfail == __CPROVER_loop_entry(g_wfail) && g_diag == __CPROVER_loop_entry(g_diag) && g_file_failures == __CPROVER_loop_entry(g_file_failures))
#endif
#ifndef VERIF_LOOP_main_files
#define VERIF_LOOP_main_files \
  __CPROVER_assigns(verif_optind, exitval, G, GL, GF) \
  __CPROVER_loop_invariant(1 <= verif_optind && verif_optind <= argc) \
  __CPROVER_loop_invariant(exitval == 0 || exitval == 1) \
  __CPROVER_loop_invariant(exitval == 0 ==> (g_wfail == __CPROVER_loop_entry(g_wfail) && g_file_failures == __CPROVER_loop_entry(g_file_failures))) \
  __CPROVER_loop_invariant(g_file_failures <= __CPROVER_loop_entry(g_file_failures) + 2ul * (unsigned long)verif_optind) \
  __CPROVER_loop_invariant(exitval == 1 ==> g_diag > __CPROVER_loop_entry(g_diag)) \
  __CPROVER_loop_invariant(g_diag >= __CPROVER_loop_entry(g_diag) && g_diag <= __CPROVER_loop_entry(g_diag) + 32ul * (unsigned long)verif_optind) \
  __CPROVER_decreases(argc - verif_optind)
#endif
#endif
