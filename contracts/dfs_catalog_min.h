/* accessor contracts of contracts/dfs_catalog.h (same text) for harnesses that only extract the accessors */
#ifndef VERIF_CONTRACTS_DFS_CATALOG_MIN_H
#define VERIF_CONTRACTS_DFS_CATALOG_MIN_H
#define CE_FRESH __CPROVER_is_fresh(self, sizeof(*self))
#define M(i) ((unsigned long)self->raw_metadata_[i])
/* the catalogue encoding: 16 low bits + 2 high bits taken from byte 6 */
#define SPEC_LOAD   (M(0) | (M(1) << 8) | (((M(6) >> 2) & 3ul) << 16))
#define SPEC_EXEC   (M(2) | (M(3) << 8) | (((M(6) >> 6) & 3ul) << 16))
#define SPEC_LENGTH (M(4) | (M(5) << 8) | (((M(6) >> 4) & 3ul) << 16))
#define SPEC_START  (M(7) | ((M(6) & 3ul) << 8))
#define SPEC_SECTORS_OF(len) (((len) + 255ul) / 256ul)       /* ceil(len/256) */

static unsigned short CatalogEntry_metadata_byte(const struct CatalogEntry *self, unsigned offset)
__CPROVER_requires(CE_FRESH && offset < 8)
__CPROVER_assigns()
__CPROVER_ensures(__CPROVER_return_value == self->raw_metadata_[offset]);

static unsigned short CatalogEntry_metadata_word(const struct CatalogEntry *self, unsigned offset)
__CPROVER_requires(CE_FRESH && offset < 7)
__CPROVER_assigns()
__CPROVER_ensures(__CPROVER_return_value == (M(offset) | (M(offset + 1) << 8)));

static unsigned long CatalogEntry_load_address(const struct CatalogEntry *self)
__CPROVER_requires(CE_FRESH) __CPROVER_assigns()
__CPROVER_ensures(__CPROVER_return_value == SPEC_LOAD);

static unsigned long CatalogEntry_exec_address(const struct CatalogEntry *self)
__CPROVER_requires(CE_FRESH) __CPROVER_assigns()
__CPROVER_ensures(__CPROVER_return_value == SPEC_EXEC);

static unsigned long CatalogEntry_file_length(const struct CatalogEntry *self)
__CPROVER_requires(CE_FRESH) __CPROVER_assigns()
__CPROVER_ensures(__CPROVER_return_value == SPEC_LENGTH);

static sector_count_type CatalogEntry_start_sector(const struct CatalogEntry *self)
__CPROVER_requires(CE_FRESH) __CPROVER_assigns()
__CPROVER_ensures(__CPROVER_return_value == SPEC_START);

static sector_count_type sector_count(long int x)
__CPROVER_requires(0 <= x && x <= (long)UINT_MAX)
__CPROVER_assigns()
__CPROVER_ensures(__CPROVER_return_value == (sector_count_type)x);

/* last sector occupied: start + ceil(len/256) - 1; for a zero-length file the code answers `start` (same text as dfs_catalog.h) */
static sector_count_type CatalogEntry_last_sector(const struct CatalogEntry *self)
__CPROVER_requires(CE_FRESH) __CPROVER_assigns()
__CPROVER_ensures(__CPROVER_return_value ==
                  (SPEC_LENGTH == 0 ? SPEC_START : SPEC_START + SPEC_SECTORS_OF(SPEC_LENGTH) - 1));

#endif
