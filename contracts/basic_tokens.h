/* Contracts on /repo/basic/tokens.c.
 * L1 table lemma: the expansion_map built by the real build_mapping() agrees with the specification
 * table (spec/basic_spec_tables.h) at every byte: the same sentinel by identity where the spec has a
 * sentinel class, otherwise a string with the same contents as the spec keyword and not mistakable
 * for a sentinel.  Stated at ghost indices g_tb, g_te (unconstrained), hence for all 256 x 256. */
#ifndef VERIF_CONTRACTS_BASIC_TOKENS_H
#define VERIF_CONTRACTS_BASIC_TOKENS_H

static unsigned char g_tb, g_te;     /* ghost indices */

static _Bool spec_streq(const char *a, const char *b)
{
  unsigned k;
  for (k = 0; k < 16; ++k)
    {
      if (a[k] != b[k]) return 0;
      if (a[k] == 0) return 1;
    }
  return 0;
}

#define SPEC_SENTINEL_FOR(cl) ((cl) == CL_INVALID ? invalid : (cl) == CL_LINENUM ? line_num : \
                               (cl) == CL_FASTVAR ? fastvar : (cl) == CL_C6 ? ext_c6 : \
                               (cl) == CL_C7 ? ext_c7 : (cl) == CL_C8 ? ext_c8 : pdp_c8)
/* what lines.c can observe of an entry: sentinel identity, first char '_' (special handling), contents */
#define SPEC_BASE_ENTRY_OK(m, b) \
  ((m)->base[b] != NULL && \
   (SPEC_CLASS[b] != CL_KW ? (m)->base[b] == SPEC_SENTINEL_FOR(SPEC_CLASS[b]) \
                           : (((m)->base[b][0] != '_' || (b) == 0x5F) && spec_streq((m)->base[b], SPEC_MAP.base[b]))))
#define SPEC_EXT_ENTRY_OK(ext, specext, valid, e) \
  ((ext)[e] != NULL && ((valid)[e] ? (!((ext)[e][0] == '_' && (ext)[e][1] != 0) && spec_streq((ext)[e], (specext)[e])) \
                                   : (ext)[e] == invalid))

bool build_mapping(unsigned dialect, struct expansion_map *m)
__CPROVER_requires(dialect == DIALECT)
__CPROVER_requires(__CPROVER_is_fresh(m, sizeof(*m)))
__CPROVER_assigns(*m)
__CPROVER_ensures(__CPROVER_return_value)
#ifndef VERIF_BM_SHALLOW   /* callers that only need the result flag replace the call by the shallow contract:
                              assuming less is sound, and it avoids dereferencing havocked table cells */
__CPROVER_ensures(SPEC_BASE_ENTRY_OK(m, g_tb))
__CPROVER_ensures(SPEC_EXT_ENTRY_OK(m->c6, SPEC_MAP.c6, SPEC_C6V, g_te))
__CPROVER_ensures(SPEC_EXT_ENTRY_OK(m->c7, SPEC_MAP.c7, SPEC_C7V, g_te))
__CPROVER_ensures(SPEC_EXT_ENTRY_OK(m->c8, SPEC_MAP.c8, SPEC_C8V, g_te))
#endif
;

/* dfcc verifies a function for ANY value of non-const static data.  `dialects[]` is never written; the
   VERIF_CONST_DATA hook compiles it as const under BEEBTOOLS_VERIF, so its initialiser is what the proof sees. */
/* p is the string c0 c1 ... (up to 7 characters and the NUL; comparison stops at the first NUL of the literal) */
#define STR_IS_(p, c0, c1, c2, c3, c4, c5, c6, c7) \
  ((p)[0] == (c0) && ((c0) == 0 || ((p)[1] == (c1) && ((c1) == 0 || ((p)[2] == (c2) && ((c2) == 0 || ((p)[3] == (c3) && ((c3) == 0 || ((p)[4] == (c4) && \
   ((c4) == 0 || ((p)[5] == (c5) && ((c5) == 0 || ((p)[6] == (c6) && ((c6) == 0 || (p)[7] == (c7)))))))))))))))
#define STR_IS_6502(p) ((p)[0] == '6' && (p)[1] == '5' && (p)[2] == '0' && (p)[3] == '2' && (p)[4] == 0)

bool set_dialect(const char *name, enum Dialect *d)
__CPROVER_requires(__CPROVER_is_fresh(d, sizeof(*d)))
__CPROVER_requires(__CPROVER_is_fresh(name, 16) && name[15] == 0)
__CPROVER_assigns(*d)
/* C08: on success the result is a valid dialect (index into the tables) */
__CPROVER_ensures(__CPROVER_return_value ==> (*d >= MIN_DIALECT && *d < NUM_DIALECTS))
__CPROVER_ensures(!__CPROVER_return_value ==> *d == __CPROVER_old(*d))
/* the default dialect name is always known (C08/C19: the default must really be set) */
__CPROVER_ensures(STR_IS_6502(name) ==> (__CPROVER_return_value && *d == mos6502_32000))
/* C03: the ten dialect names (doc/bbcbasic_to_text.1 "BBC BASIC DIALECTS": 32000 is the same as 6502, 8086 the same as Z80,
   SDL and MacOSX are the Windows dialect; PDP11 is the tenth), each selecting its own dialect, and no other name is known */
__CPROVER_ensures(STR_IS_(name, '3','2','0','0','0',0,0,0) ==> (__CPROVER_return_value && *d == mos6502_32000))
__CPROVER_ensures(STR_IS_(name, 'P','D','P','1','1',0,0,0) ==> (__CPROVER_return_value && *d == PDP11))
__CPROVER_ensures(STR_IS_(name, 'Z','8','0',0,0,0,0,0) ==> (__CPROVER_return_value && *d == Z80_80x86))
__CPROVER_ensures(STR_IS_(name, '8','0','8','6',0,0,0,0) ==> (__CPROVER_return_value && *d == Z80_80x86))
__CPROVER_ensures(STR_IS_(name, 'A','R','M',0,0,0,0,0) ==> (__CPROVER_return_value && *d == ARM))
__CPROVER_ensures(STR_IS_(name, 'W','i','n','d','o','w','s',0) ==> (__CPROVER_return_value && *d == Windows))
__CPROVER_ensures(STR_IS_(name, 'S','D','L',0,0,0,0,0) ==> (__CPROVER_return_value && *d == Windows))
__CPROVER_ensures(STR_IS_(name, 'M','a','c','O','S','X',0,0) ==> (__CPROVER_return_value && *d == Windows))
__CPROVER_ensures(STR_IS_(name, 'M','a','c',0,0,0,0,0) ==> (__CPROVER_return_value && *d == Mac))
__CPROVER_ensures(__CPROVER_return_value ==>
                  (STR_IS_6502(name) || STR_IS_(name, '3','2','0','0','0',0,0,0) || STR_IS_(name, 'P','D','P','1','1',0,0,0) || STR_IS_(name, 'Z','8','0',0,0,0,0,0) ||
                   STR_IS_(name, '8','0','8','6',0,0,0,0) || STR_IS_(name, 'A','R','M',0,0,0,0,0) || STR_IS_(name, 'W','i','n','d','o','w','s',0) ||
                   STR_IS_(name, 'S','D','L',0,0,0,0,0) || STR_IS_(name, 'M','a','c','O','S','X',0,0) || STR_IS_(name, 'M','a','c',0,0,0,0,0)))
;
#endif
