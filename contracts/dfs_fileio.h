/* Contracts: FileView::read_block, safe_unsigned_multiply<unsigned long>, FilePresentedBlockwise::read_block
 * (C04 offset mapping, C17 take-window confinement).  Formula from the comment block in img_fileio.cc and
 * doc/dfs.1 DISC IMAGE FILES. */
#ifndef VERIF_CONTRACTS_DFS_FILEIO_H
#define VERIF_CONTRACTS_DFS_FILEIO_H

/* Operands are sector counts of one container (at most 2^25: the largest, a 511-slot MMB, has 408 832
   sectors): the product is exact and no exception is raised.  Discharged by the SMT back end (cvc5): the SAT
   back ends do not finish 64-bit multiplier/divider equivalences. */
static unsigned long safe_unsigned_multiply_ul(unsigned long a, unsigned long b)
__CPROVER_requires(g_exc == EXC_NONE && a <= (1ul << 25) && b <= (1ul << 25))
__CPROVER_assigns(g_exc, g_exc_by_pointer)
__CPROVER_ensures(g_exc == EXC_NONE && __CPROVER_return_value == a * b);

static opt_SectorBuffer FileView_read_block(struct FileView *self, unsigned long sector)
__CPROVER_requires(__CPROVER_is_fresh(self, sizeof(*self)) && self->media_ == &h_media && g_exc == EXC_NONE)
__CPROVER_requires(self->initial_skip_ <= (1ul << 40) && self->take_ <= (1u << 24) && self->leave_ <= (1u << 24) && self->total_ <= (1u << 24))
/* one job per (take, leave) pair the view constructors can produce (props/dfs_common.py GEOMETRIES): division by a
   symbolic sectors-per-track does not finish on any back end, by a constant it takes a fraction of a second */
__CPROVER_requires(self->take_ == 0 || (self->take_ == VERIF_TAKE && self->leave_ == VERIF_LEAVE))
/* ghost decomposition (unique): sector = track*take + s with s < take; stated division-free so that the
   obligation does not contain two copies of a divider circuit (which SAT cannot prove equal) */
__CPROVER_requires(g_s < VERIF_TAKE && g_t <= (1ul << 20) && sector == g_t * VERIF_TAKE + g_s)
__CPROVER_assigns(g_exc, g_exc_by_pointer, g_rb_calls, g_rb_last_lba, g_rb_last_obj, g_rb_last_buf, g_rb_last_ok)
/* C04: unformatted device or a read at/after the end of the surface fails, touching nothing */
__CPROVER_ensures((self->take_ == 0 || sector >= self->total_) ==>
                  (!__CPROVER_return_value.has && g_rb_calls == __CPROVER_old(g_rb_calls) && g_exc == EXC_NONE))
/* C04/C17: otherwise exactly one read of the container, at the documented position (doc/dfs.1 DISC IMAGE
   FILES: logical sector x = t*take + s is file sector skip + t*(take+leave) + s -- contiguous per side when
   leave == 0, alternating tracks when leave == take), which lies in this view's own take-window number x/take */
__CPROVER_ensures(g_exc == EXC_NONE)
__CPROVER_ensures((self->take_ != 0 && sector < self->total_) ==>
                  (g_rb_calls == __CPROVER_old(g_rb_calls) + 1 && g_rb_last_obj == &h_media &&
                   g_rb_last_lba == self->initial_skip_ + g_t * ((unsigned long)VERIF_TAKE + VERIF_LEAVE) + g_s &&
                   __CPROVER_return_value.has == g_rb_last_ok))
;

static opt_SectorBuffer FilePresentedBlockwise_read_block(struct FilePresentedBlockwise *self, unsigned long lba)
__CPROVER_requires(__CPROVER_is_fresh(self, sizeof(*self)) && lba <= (1ul << 48))
__CPROVER_assigns(g_fa_calls, g_fa_last_pos, g_fa_last_len, g_fa_last)
/* C04: sector lba of a container file is the 256 bytes at byte offset 256*lba; a short read is "no sector" */
__CPROVER_ensures(g_fa_calls == __CPROVER_old(g_fa_calls) + 1 && g_fa_last_pos == 256ul * lba && g_fa_last_len == 256)
__CPROVER_ensures(__CPROVER_return_value.has == (g_fa_last.n == 256))
__CPROVER_ensures((__CPROVER_return_value.has && g_k < 256) ==> __CPROVER_return_value.val.d[g_k] == g_fa_last.d[g_k]);
#endif
