/* C mirrors of the dfs classes whose member functions are extracted (fields as in the C++ headers). */
#ifndef VERIF_DFS_TYPES_H
#define VERIF_DFS_TYPES_H
#include "dfs_model.h"

/* dfs_catalog.h: class CatalogEntry { std::array<byte, 8> raw_name_; std::array<byte, 8> raw_metadata_; } */
struct CatalogEntry { byte raw_name_[8]; byte raw_metadata_[8]; };

/* dfs_volume.h: class Volume::Access { unsigned long origin_; unsigned long len_; DataAccess& underlying_; } */
struct VolumeAccess { unsigned long origin_; unsigned long len_; struct DataAccess *underlying_; };


/* img_fileio.h: class FileView { DataAccess& media_; ...; unsigned long initial_skip_; sector_count_type take_, leave_, total_; } */
struct FileView { struct DataAccess *media_; unsigned long initial_skip_; sector_count_type take_, leave_, total_; };

/* img_sdf.h: class FilePresentedBlockwise { FileAccess& f_; } */
struct FileAccess { int id; };
struct FilePresentedBlockwise { struct FileAccess *f_; };

/* what CommandFree::invoke reads from the mounted Catalog object (dfs_catalog.h accessors) */
struct CatalogView { sector_count_type catalog_sectors; int max_file_count; sector_count_type total_sectors; };
struct free_result { int files_free, files_used, sectors_free, sectors_used; };

/* img_hxcmfm.cc: struct Header, TrackDataKey, TrackData; class HxcMfmFile { Header header_; unique_ptr<FileAccess> file_; } */
struct HxcHeader { char signature[7]; unsigned int tracks, sides, rpm, bitrate, interface_type; unsigned long track_list_offset; };
struct opt_HxcHeader { _Bool has; struct HxcHeader val; };
struct TrackDataKey { unsigned int track_number, side_number; };
struct TrackData { unsigned long mfmtracksize, mfmtrackoffset; };
struct HxcMfmFile { struct HxcHeader header_; struct FileAccess *file_; };

/* crc.h: class CRC16Base { unsigned long crc_; } */
struct CRC16Base { unsigned long crc_; };
/* track.h: class BitStream { const std::vector<byte>& input_; size_t raw_bit_size_, first_, stride_; } -- the vector is
   its data pointer; raw_bit_size_ == 8 * size() is the class invariant established by the constructor */
struct BitStream { const byte *input_; size_t raw_bit_size_, first_, stride_; };
struct opt_byte { _Bool has; byte val; };

/* geometry.h: struct Geometry { int cylinders; int heads; sector_count_type sectors; optional<Encoding> encoding; } */
struct Geometry { int cylinders; int heads; sector_count_type sectors; };

/* opus_cat.h: struct OpusDiscCatalogue::VolumeLocation { int catalog_location_; unsigned long start_sector_, len_; char volume_; } */
struct VolumeLocation { int catalog_location_; unsigned long start_sector_; unsigned long len_; char volume_; };

/* track.h: struct SectorAddress { unsigned char cylinder, head, record; }; struct Sector { SectorAddress address; std::vector<unsigned char> data; ... } */
struct SectorAddress { unsigned char cylinder, head, record; };
struct TrackSector { struct SectorAddress address; size_t data_n; };      /* data_n = data.size() */

/* img_hfe.cc: struct PicTrack { unsigned short offset_, track_len_; };  the flux adapters (img_hfe.cc, img_hxcmfm.cc):
   class DataAccessAdapter { Geometry geom_; unsigned int side_; std::vector<Track::Sector> sectors_; } */
struct PicTrack { unsigned short offset_, track_len_; };
struct FluxSector { struct SectorAddress address; size_t data_n; byte data[256]; };     /* data_n = data.size() */
struct FluxAdapter { struct Geometry geom_; unsigned int side_; size_t sectors_n; struct FluxSector *sectors_; };
#endif
