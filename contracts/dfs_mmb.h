/* Contract for the slot loop of the MmbFile constructor (C04; doc/mmb.5).  The views are checked one by one by
 * mmb_add_view (harness): view number n (0..510) is slot n; its status byte is byte 15 of catalogue entry n+1,
 * i.e. byte 16*((n+1)%16)+15 of catalogue sector (n+1)/16; status 0x00 / 0x0F => a formatted view whose
 * sectors start at file sector 32 + 800*n (byte 8192 + 204800*n), 800 contiguous sectors; any other status =>
 * an unformatted view (every read fails). */
#ifndef VERIF_CONTRACTS_DFS_MMB_H
#define VERIF_CONTRACTS_DFS_MMB_H
static void MmbFile_ctor(struct DataAccess *blocks)
__CPROVER_requires(blocks == &h_media && g_exc == EXC_NONE && g_views == 0 && g_diag < 1000)
__CPROVER_assigns(g_exc, g_exc_by_pointer, g_views, g_diag, g_rb_calls, g_rb_last_lba, g_rb_last_obj, g_rb_last_buf, g_rb_last_ok)
__CPROVER_ensures(g_exc == EXC_NONE ==> g_views == 511)                    /* exactly 511 slots */
__CPROVER_ensures(g_exc != EXC_NONE ==> (g_exc == EXC_BadFileSystem && !g_exc_by_pointer && !g_rb_last_ok));
#endif
