/* Contracts: CatalogEntry::name and the host-file-name construction of extract-files (C12). */
#ifndef VERIF_CONTRACTS_DFS_EXTRACT_H
#define VERIF_CONTRACTS_DFS_EXTRACT_H
#define NAME_CH(self, i) ((char)((self)->raw_name_[i] & 0x7F))
#define NAME_STOP(self, i) (NAME_CH(self, i) == ' ' || NAME_CH(self, i) == 0)

/* the 7 name bytes, 7-bit, up to the first space or NUL */
static struct cstr CatalogEntry_name(const struct CatalogEntry *self)
__CPROVER_requires(CE_FRESH) __CPROVER_assigns()
__CPROVER_ensures(__CPROVER_return_value.n <= 7)
__CPROVER_ensures(g_k < __CPROVER_return_value.n ==> (__CPROVER_return_value.d[g_k] == NAME_CH(self, g_k) && !NAME_STOP(self, g_k)))
__CPROVER_ensures(__CPROVER_return_value.n < 7 ==> NAME_STOP(self, __CPROVER_return_value.n));

/* C12: whatever bytes the catalogue holds, a file is only ever created directly inside the destination:
   the created path is dest_dir + base with base non-empty, free of '/', and neither "." nor ".."
   (checked by mon_create_file at the one place a file is created); otherwise the entry is refused
   with a diagnostic */
static bool extract_files_basename(const struct CatalogEntry *entry, char current_directory, struct cstr dest_dir)
__CPROVER_requires(__CPROVER_is_fresh(entry, sizeof(*entry)) && g_creates == 0 && g_diag < 1000)
__CPROVER_assigns(g_creates, g_diag)
__CPROVER_ensures(__CPROVER_return_value ==> (g_creates == 1 && g_diag == __CPROVER_old(g_diag)))
__CPROVER_ensures(!__CPROVER_return_value ==> (g_creates == 0 && g_diag > __CPROVER_old(g_diag)));
#endif
