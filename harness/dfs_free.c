/* Proof harness: the used/free arithmetic of CommandFree::invoke (extracted statement region). */
#include "dfs_types.h"
static struct DataAccess h_media, h_underlying;
struct visitor { int id; };
static struct visitor h_visitor;
static void mon_read_block(struct DataAccess *obj, unsigned long lba) { (void)obj; (void)lba; }
static void mon_read_result(struct DataAccess *obj, _Bool ok) { (void)obj; (void)ok; }
static bool visitor_call(struct visitor *v, const byte *b, const byte *e) { (void)v; (void)b; (void)e; return nondet_bool(); }
static _Bool mv_on; static unsigned long mv_start, mv_len, mv_reads, mv_visits; static _Bool mv_unreadable, mv_stop;
#define VISIT_LOOP_CONTRACT
static size_t g_e, g_used_witness;
static struct CatalogEntry h_entries[62];
#define E_LEN_(e)   ((unsigned long)(e).raw_metadata_[4] | ((unsigned long)(e).raw_metadata_[5] << 8) | ((((unsigned long)(e).raw_metadata_[6] >> 4) & 3ul) << 16))
#define E_START_(e) ((unsigned long)(e).raw_metadata_[7] | (((unsigned long)(e).raw_metadata_[6] & 3ul) << 8))
#define E_END_(e)   (E_LEN_(e) == 0 ? 0ul : E_START_(e) + ((E_LEN_(e) + 255ul) >> 8))
#define FREE_LOOP_CONTRACT \
  __CPROVER_assigns(ei, sectors_used, g_used_witness) \
  __CPROVER_loop_invariant(ei <= entries_n && sectors_used >= (int)catalog->catalog_sectors && sectors_used <= 4096) \
  __CPROVER_loop_invariant((g_e < ei) ==> (unsigned long)sectors_used >= E_END_(h_entries[g_e])) \
  __CPROVER_loop_invariant(sectors_used == (int)catalog->catalog_sectors || (g_used_witness < ei && (unsigned long)sectors_used == E_END_(h_entries[g_used_witness]))) \
  __CPROVER_decreases(entries_n - ei)
#include "sector_count.inc"
#include "CatalogEntry_metadata_byte.inc"
#include "CatalogEntry_metadata_word.inc"
#include "CatalogEntry_file_length.inc"
#include "CatalogEntry_start_sector.inc"
#include "free_compute.inc"
#include "dfs_catalog_min.h"
#include "dfs_free.h"

void h_free(void)
{
  struct CatalogView *cv; struct free_result *out;
  g_e = nondet_size_t();
  free_compute(h_entries, nondet_size_t(), cv, out);
  VERIF_COVER(out->sectors_used == 900, "used 900 sectors");
  VERIF_COVER(out->sectors_used == 4 && out->files_used == 3, "only empty files on a Watford disc");
}
