/* Proof harnesses: view parameters of the sector-dump containers (img_sdf.cc). */
#include "dfs_types.h"
static void mon_read_block(struct DataAccess *obj, unsigned long lba) { (void)obj; (void)lba; }
static void mon_read_result(struct DataAccess *obj, _Bool ok) { (void)obj; (void)ok; }
static unsigned g_views, g_mode, g_C, g_S;     /* views created; 0 = non-interleaved, 1 = interleaved; geometry */
static void view_add(unsigned long skip, sector_count_type take, sector_count_type leave, sector_count_type total)
{
  const unsigned h = g_views;                   /* this view is side h */
  __CPROVER_assert(h < 2, "C04: at most two sides");
  __CPROVER_assert(total == g_C * g_S, "C04: a surface has C*S sectors (reads beyond it fail)");
  if (g_mode == 0)
    {
      __CPROVER_assert(skip == (unsigned long)h * g_C * g_S, "C04: non-interleaved side h starts at file sector h*C*S");
      __CPROVER_assert(take == g_C * g_S && leave == 0, "C04: non-interleaved sides are contiguous");
    }
  else
    {
      __CPROVER_assert(skip == (unsigned long)h * g_S, "C04: interleaved side h starts with the track at file sector h*S");
      __CPROVER_assert(take == g_S && leave == g_S, "C04: interleaved files alternate tracks by side");
    }
  g_views++;
}
#define SIDES_LOOP_CONTRACT \
  __CPROVER_assigns(surface_num, skip, g_views) \
  __CPROVER_loop_invariant(0 <= surface_num && surface_num <= geometry.heads && g_views == (unsigned)surface_num && skip == (unsigned)surface_num * side_len) \
  __CPROVER_decreases(geometry.heads - surface_num)
#include "sector_count.inc"
#include "Geometry_total_sectors.inc"
#include "noninterleaved_views.inc"
#include "interleaved_views.inc"
#include "dfs_catalog_min.h"
#include "dfs_sdf.h"
void h_total_sectors(void) { struct Geometry *g; Geometry_total_sectors(g); }
void h_noninterleaved(void) { struct Geometry g; g.cylinders = nondet_int(); g.heads = nondet_int(); g.sectors = nondet_uint(); g_views = 0; g_mode = 0; g_C = (unsigned)g.cylinders; g_S = g.sectors; noninterleaved_views(g); VERIF_COVER(g_views == 2, "two sides"); }
void h_interleaved(void) { struct Geometry g; g.cylinders = nondet_int(); g.heads = nondet_int(); g.sectors = nondet_uint(); g_views = 0; g_mode = 1; g_C = (unsigned)g.cylinders; g_S = g.sectors; interleaved_views(g); VERIF_COVER(g_views == 2, "two sides"); }
