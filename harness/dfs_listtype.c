/* Proof harnesses: the `list` and `type` renderings (C01): CR -> newline; numbered lines; --binary unchanged. */
#include "dfs_types.h"
#ifndef BODY_MAX
#define BODY_MAX (1ul << 18)
#endif
#define BYTEBUF_CAP BODY_MAX
#include "ostream_events.h"
static void mon_read_block(struct DataAccess *obj, unsigned long lba) { (void)obj; (void)lba; }
static void mon_read_result(struct DataAccess *obj, _Bool ok) { (void)obj; (void)ok; }
static struct ostream cout_obj;
static byte h_body[BODY_MAX];
static struct { size_t len; } MLC;
static struct { size_t i; _Bool sol; unsigned long line; _Bool numbered; } ML;   /* list monitor: cursor, at start of line, next number */
static _Bool mt_binary; static unsigned mt_writes;
static void mon_out(struct ostream *os, const struct out_ev *e)
{
  (void)os;
  __CPROVER_assert(ML.i < MLC.len, "C01 list: nothing is printed after the last byte");
  if (ML.sol && !ML.numbered)
    {
      __CPROVER_assert(e->kind == EV_NUM && e->num == ML.line && e->width == 4 && e->fill == ' ' && e->base == 10, "C01 list: each line starts with its number, right-aligned in 4 columns, counting from 1");
      ML.numbered = 1; ML.line++;
    }
  else if (ML.sol)
    {
      __CPROVER_assert(e->kind == EV_CHR && e->chr == ' ', "C01 list: a space follows the line number");
      ML.sol = 0; ML.numbered = 0;
    }
  else
    {
      const byte b = h_body[ML.i];
      __CPROVER_assert(e->kind == EV_CHR && e->chr == (b == 0x0D ? '\n' : (char)b), "C01 list: CR becomes newline, every other byte is copied");
      if (b == 0x0D) ML.sol = 1;
      ML.i++;
    }
}
static void mon_write(struct ostream *os, const byte *p, size_t n)
{
  (void)os;
  __CPROVER_assert(mt_writes == 0, "C01 type: the body is written exactly once");
  __CPROVER_assert(n == MLC.len, "C01 type: exactly the catalogued number of bytes is written");
  if (mt_binary)
    __CPROVER_assert(g_k2 >= n || p[g_k2] == h_body[g_k2], "C01 type --binary: bytes are written unchanged");
  else
    __CPROVER_assert(g_k2 >= n || p[g_k2] == (h_body[g_k2] == '\r' ? (byte)'\n' : h_body[g_k2]), "C01 type: CR becomes newline, every other byte is copied");
  mt_writes++;
}
#define LIST_LOOP_CONTRACT \
  __CPROVER_assigns(p, line_number, start_of_line, cout_obj, ML) \
  __CPROVER_loop_invariant(__CPROVER_same_object(p, body_start) && __CPROVER_POINTER_OFFSET(p) <= MLC.len) \
  __CPROVER_loop_invariant(__CPROVER_loop_entry(cout_obj.bad) ==> cout_obj.bad) \
  __CPROVER_loop_invariant(cout_obj.bad || (ML.i == __CPROVER_POINTER_OFFSET(p) && ML.sol == start_of_line && !ML.numbered && \
                                             (unsigned long)line_number == ML.line && cout_obj.fill == ' ' && cout_obj.base == 10 && ML.line <= ML.i + 1)) \
  __CPROVER_loop_invariant(line_number >= 1 && (unsigned long)line_number <= __CPROVER_POINTER_OFFSET(p) + 1) \
  __CPROVER_decreases(MLC.len - __CPROVER_POINTER_OFFSET(p))
#define TYPE_LOOP_CONTRACT \
  __CPROVER_assigns(di_, __CPROVER_object_whole(g_bytebuf_store)) \
  __CPROVER_loop_invariant(di_ <= data.n) \
  __CPROVER_loop_invariant((g_k2 < data.n) ==> (g_bytebuf_store[g_k2] == ((g_k2 < di_ && h_body[g_k2] == '\r') ? (byte)'\n' : h_body[g_k2]))) \
  __CPROVER_decreases(data.n - di_)
#include "list_body.inc"
#include "type_body.inc"

static bool list_body(const byte *body_start, const byte *body_end)
__CPROVER_requires(body_start == h_body && body_end >= body_start && body_end <= h_body + BODY_MAX && MLC.len == (size_t)(body_end - body_start))
__CPROVER_requires(!cout_obj.bad && ML.i == 0 && ML.sol && !ML.numbered && ML.line == 1)
__CPROVER_assigns(cout_obj, ML)
__CPROVER_ensures(!cout_obj.bad ==> (ML.i == MLC.len && !ML.numbered));

static bool type_body(bool binary, const byte *body_start, const byte *body_end)
__CPROVER_requires(body_start == h_body && body_end >= body_start && body_end <= h_body + BODY_MAX && MLC.len == (size_t)(body_end - body_start))
__CPROVER_requires(!cout_obj.bad && mt_writes == 0 && mt_binary == binary)
__CPROVER_assigns(cout_obj, mt_writes, __CPROVER_object_whole(g_bytebuf_store))
/* true exactly when the complete body was accepted by the stream (C11: a failed write is reported to the caller) */
__CPROVER_ensures(__CPROVER_return_value == (!cout_obj.bad && mt_writes == 1))
__CPROVER_ensures(cout_obj.bad || mt_writes == 1);

void h_list(void)
{
  size_t n = nondet_size_t(); __CPROVER_assume(n <= BODY_MAX);
  MLC.len = n; ML.i = 0; ML.sol = 1; ML.numbered = 0; ML.line = 1; os_init(&cout_obj);
  bool r = list_body(h_body, h_body + n);
  VERIF_COVER(!cout_obj.bad && ML.line == 4, "three lines listed");
}
void h_type(void)
{
  size_t n = nondet_size_t(); __CPROVER_assume(n <= BODY_MAX);
  MLC.len = n; mt_writes = 0; mt_binary = nondet_bool(); g_k2 = nondet_size_t(); os_init(&cout_obj);
  bool r = type_body(mt_binary, h_body, h_body + n);
  VERIF_COVER(r && !mt_binary, "text mode written");
  VERIF_COVER(!r, "write failed");
}
