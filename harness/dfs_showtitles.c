/* Proof harness: the per-drive loop of `show-titles` (cmd_show_titles.cc).  C07: "A non-zero status is always accompanied by a
 * diagnostic on standard error": a drive whose title cannot be shown because it cannot be mounted (not connected, unformatted,
 * unreadable) is reported with the reason show_title was given; when it is standard output that failed, main's tail reports
 * that (harness/dfs_main.c). */
#include "dfs_types.h"
static void mon_read_block(struct DataAccess *obj, unsigned long lba) { (void)obj; (void)lba; }
static void mon_read_result(struct DataAccess *obj, _Bool ok) { (void)obj; (void)ok; }
static struct { unsigned long calls, failures, mount_failures, reported; _Bool error_set, cout_bad; } ST;
/* show_title(storage, surface, error): false with the reason in `error` when the drive cannot be mounted; false with `error`
   untouched when writing the title failed (std::cout no longer good); true otherwise */
static _Bool show_title_model(size_t i)
{
  __CPROVER_assert(i == ST.calls, "C02: every requested drive is shown, in order, once");
  if (ST.calls < (1ul << 40)) ST.calls++;
  if (nondet_bool()) return 1;
  ST.failures++;
  if (nondet_bool()) { ST.error_set = 1; ST.mount_failures++; } else ST.cout_bad = 1;
  return 0;
}
static void error_report(void)
{
  __CPROVER_assert(ST.error_set, "C07: the diagnostic printed is a reason that was actually given");
  ST.reported++;
}
#define SHOW_TITLES_LOOP_CONTRACT \
  __CPROVER_assigns(ti_, ok, ST) \
  __CPROVER_loop_invariant(ti_ <= todo_n && ST.calls == ti_ && ST.failures <= ti_ && ST.mount_failures <= ST.failures && ok == (ST.failures == 0)) \
  __CPROVER_loop_invariant(ST.reported == ST.mount_failures && (ST.cout_bad || ST.failures == ST.mount_failures)) \
  __CPROVER_decreases(todo_n - ti_)
#include "show_titles_loop.inc"
static bool show_titles_loop(size_t todo_n)
__CPROVER_requires(todo_n <= (1ul << 30) && ST.calls == 0 && ST.failures == 0 && ST.mount_failures == 0 && ST.reported == 0 && !ST.cout_bad)
__CPROVER_assigns(ST)
__CPROVER_ensures(ST.calls == todo_n && __CPROVER_return_value == (ST.failures == 0))
/* every drive that could not be mounted was reported with its reason; a failure without a report means standard output failed */
__CPROVER_ensures(ST.reported == ST.mount_failures)
__CPROVER_ensures(!__CPROVER_return_value ==> (ST.reported > 0 || ST.cout_bad));
void h_show_titles(void) { ST.calls = 0; ST.failures = 0; ST.mount_failures = 0; ST.reported = 0; ST.cout_bad = 0; ST.error_set = nondet_bool(); show_titles_loop(nondet_size_t()); }
