/* Proof harnesses for /repo/basic/tokens.c (the REAL translation unit is #included). */
#include <stddef.h>
#include <limits.h>
#include "basic_stdio.h"
#include "decoder.h"
#include "tokens.h"
#include "tokens.c"                      /* REAL code under contract */
#include "basic_spec_tables.h"
#include "basic_line_monitor.h"
#include "basic_file_monitor.h"
#include "basic_tokens.h"                /* contracts (re-declarations after the definitions: CBMC merges them) */

void h_build_mapping(void)
{
  g_tb = nondet_uchar();
  g_te = nondet_uchar();
  struct expansion_map *m;
  bool r = build_mapping(DIALECT, m);
  VERIF_COVER(r && SPEC_CLASS[g_tb] == CL_KW && g_tb >= 0x80, "keyword entry");
  VERIF_COVER(r && SPEC_CLASS[g_tb] == CL_INVALID, "invalid entry");
}

void h_set_dialect(void)
{
  enum Dialect *d; const char *name;
  bool r = set_dialect(name, d);
  VERIF_COVER(r && *d == PDP11, "PDP11 selected");
  VERIF_COVER(!r, "unknown name");
}
