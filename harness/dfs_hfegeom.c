/* Proof harness: the end of HfeFile::read_all_sectors (img_hfe.cc): the geometry is built from the header and the
 * per-track sector count.  C07: arbitrary header bytes (number_of_track may be 0) -- no undefined behaviour, only an
 * exception by value; C19: nothing depends on an assert. */
#include "dfs_types.h"
static void mon_read_block(struct DataAccess *obj, unsigned long lba) { (void)obj; (void)lba; }
static void mon_read_result(struct DataAccess *obj, _Bool ok) { (void)obj; (void)ok; }
#include "hfe_encodings.inc"
enum { Encoding_FM = 1, Encoding_MFM = 2 };                        /* geometry.h: enum class Encoding */
struct picfileformatheader_ { unsigned char number_of_track, number_of_side, track_encoding; };
struct HfeFileM { struct picfileformatheader_ header_; int g_cyl, g_heads; unsigned g_sectors; int g_enc; _Bool geom_set; };
struct opt_uint_ { _Bool has; unsigned val; };
static unsigned opt_deref_(struct opt_uint_ o) { __CPROVER_assert(o.has, "C07: dereferencing an empty std::optional is undefined"); return o.val; }
#define OPT_DEREF(o) opt_deref_(o)
static void geom_set(struct HfeFileM *f, int c, int h, unsigned s, int e) { f->g_cyl = c; f->g_heads = h; f->g_sectors = s; f->g_enc = e; f->geom_set = 1; }
#include "hfe_geometry_tail.inc"

static void hfe_geometry_tail(struct HfeFileM *self, struct opt_uint_ sectors_per_track)
__CPROVER_requires(__CPROVER_is_fresh(self, sizeof(*self)) && g_exc == EXC_NONE && !g_exc_by_pointer && !self->geom_set)
/* what the track loop before it guarantees: a sector count is known exactly when there was at least one track */
__CPROVER_requires(sectors_per_track.has == (self->header_.number_of_track > 0))
__CPROVER_assigns(g_exc, g_exc_by_pointer, self->g_cyl, self->g_heads, self->g_sectors, self->g_enc, self->geom_set)
__CPROVER_ensures(!g_exc_by_pointer)
/* either an exception by value, or the geometry (tracks, sides, sectors per track, FM for encodings 2/3, MFM for 0/1) */
__CPROVER_ensures(g_exc == EXC_NONE ==>
                  (self->geom_set && self->header_.number_of_track > 0 && self->g_cyl == self->header_.number_of_track && self->g_heads == self->header_.number_of_side &&
                   self->g_sectors == sectors_per_track.val &&
                   self->g_enc == ((self->header_.track_encoding == 0 || self->header_.track_encoding == 1) ? Encoding_MFM : Encoding_FM) && self->header_.track_encoding <= 3))
__CPROVER_ensures(g_exc != EXC_NONE ==> !self->geom_set);

void h_hfe_geometry(void)
{
  struct HfeFileM *f; struct opt_uint_ spt;
  spt.has = nondet_bool(); spt.val = nondet_uint();
  g_exc = EXC_NONE; g_exc_by_pointer = 0;
  hfe_geometry_tail(f, spt);
}
