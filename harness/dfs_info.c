/* Proof harness: the `info` line (operator<< for CatalogEntry) against the documented layout (doc/dfs.1 "info"):
 *   D.NAME____ L__ LLLLLL EEEEEE SSSSSS TTT    dir '.' name(left, 8) ' ' lock(left, 3) load exec length start
 * load/exec 18 bits shown sign-extended to 24 (6 upper-case hex digits), length 18 bits (6 digits), start sector
 * 10 bits (3 digits). */
#include "dfs_types.h"
#include "ostream_events.h"
static void mon_read_block(struct DataAccess *obj, unsigned long lba) { (void)obj; (void)lba; }
static void mon_read_result(struct DataAccess *obj, _Bool ok) { (void)obj; (void)ok; }
static struct ostream os_obj;
static const struct CatalogEntry *mi_entry;
static unsigned mi_step;
static size_t g_k;
#define VISIT_LOOP_CONTRACT
#define MI(i) ((unsigned long)mi_entry->raw_metadata_[i])
#define SPEC_SX(a) (((a) & 0x20000ul) ? ((a) | 0xFC0000ul) : (a))
#define SPEC_LOAD_   (MI(0) | (MI(1) << 8) | (((MI(6) >> 2) & 3ul) << 16))
#define SPEC_EXEC_   (MI(2) | (MI(3) << 8) | (((MI(6) >> 6) & 3ul) << 16))
#define SPEC_LENGTH_ (MI(4) | (MI(5) << 8) | (((MI(6) >> 4) & 3ul) << 16))
#define SPEC_START_  (MI(7) | ((MI(6) & 3ul) << 8))
#define IS_STR1(e, c) ((e)->kind == EV_STR && (e)->str[0] == (c) && (e)->str[1] == 0)
#define HEXFIELD(e, v, w) ((e)->kind == EV_NUM && (e)->num == (v) && (e)->width == (w) && (e)->fill == '0' && (e)->base == 16 && (e)->upper && !(e)->left)
static void mon_out(struct ostream *os, const struct out_ev *e)
{
  (void)os;
  switch (mi_step)
    {
    case 0: __CPROVER_assert(e->kind == EV_CHR && e->chr == (char)(mi_entry->raw_name_[7] & 0x7F), "C02 info: directory character"); break;
    case 1: __CPROVER_assert(IS_STR1(e, '.'), "C02 info: '.' after the directory"); break;
    case 2: __CPROVER_assert(e->kind == EV_CSTR && e->width == 8 && e->fill == ' ' && e->left, "C02 info: name left-aligned in 8 columns");
            __CPROVER_assert(g_ev_cstr.n <= 7 && (g_k >= g_ev_cstr.n || g_ev_cstr.d[g_k] == (char)(mi_entry->raw_name_[g_k] & 0x7F)), "C02 info: the name is the catalogue's name bytes (7-bit)"); break;
    case 3: case 6: case 8: case 10: __CPROVER_assert(IS_STR1(e, ' '), "C02 info: single space between fields"); break;
    case 4: __CPROVER_assert(e->kind == EV_STR && e->width == 3 && e->fill == ' ' && e->left &&
                             ((mi_entry->raw_name_[7] & 0x80) ? (e->str[0] == 'L' && e->str[1] == 0) : e->str[0] == 0), "C02 info: lock flag 'L' (left-aligned in 3 columns) exactly when the top bit of the directory byte is set"); break;
    case 5: __CPROVER_assert(HEXFIELD(e, SPEC_SX(SPEC_LOAD_), 6), "C02 info: load address, 18 bits sign-extended to 24, 6 upper-case hex digits"); break;
    case 7: __CPROVER_assert(HEXFIELD(e, SPEC_SX(SPEC_EXEC_), 6), "C02 info: execution address, 18 bits sign-extended to 24, 6 upper-case hex digits"); break;
    case 9: __CPROVER_assert(HEXFIELD(e, SPEC_LENGTH_, 6), "C02 info: length, 18 bits, 6 hex digits"); break;
    case 11: __CPROVER_assert(HEXFIELD(e, SPEC_START_, 3), "C02 info: start sector, 10 bits, 3 hex digits"); break;
    default: __CPROVER_assert(0, "C02 info: nothing after the start sector"); break;
    }
  mi_step++;
}
#include "sector_count.inc"
#include "byte_to_ascii7.inc"
#include "CatalogEntry_metadata_byte.inc"
#include "CatalogEntry_metadata_word.inc"
#include "CatalogEntry_load_address.inc"
#include "CatalogEntry_exec_address.inc"
#include "CatalogEntry_file_length.inc"
#include "CatalogEntry_start_sector.inc"
#include "CatalogEntry_directory.inc"
#include "CatalogEntry_is_locked.inc"
#include "CatalogEntry_name.inc"
#include "sign_extend.inc"
#include "info_line.inc"

/* every field of the line, in order, exactly once (the in-memory ostringstream cannot fail; the model's
   nondeterministic failure is excluded by the harness for this stream) */
static void info_line(const struct CatalogEntry *entry)
__CPROVER_requires(__CPROVER_is_fresh(entry, sizeof(*entry)) && mi_entry == entry && mi_step == 0)
__CPROVER_assigns(os_obj, mi_step, g_ev_cstr)
__CPROVER_ensures(os_obj.bad || mi_step == 12);

void h_info_line(void)
{
  struct CatalogEntry *e;
  g_k = nondet_size_t(); mi_step = 0;      /* mi_entry: unconstrained; the contract's requires ties it to the entry */
  info_line(e);
}
