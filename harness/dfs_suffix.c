/* Proof harness: stringutil::ends_with and stringutil::remove_suffix (stringutil.cc).  C10 (i): the hints for X.gz are the hints
 * for X -- the ".gz" is taken off the END of the name and nothing else of the name changes (a ".gz" elsewhere in the path is not
 * the compression suffix).  Strings are std::string of at most 15 characters (struct cstr); std::equal over reversed ranges,
 * std::string::find and std::string::erase are exact models with their preconditions as assertions. */
#include "dfs_types.h"
static void mon_read_block(struct DataAccess *obj, unsigned long lba) { (void)obj; (void)lba; }
static void mon_read_result(struct DataAccess *obj, _Bool ok) { (void)obj; (void)ok; }
static size_t g_k;
#define NPOS_ ((size_t)-1)
/* std::equal(a.rbegin(), a.rend(), b.rbegin()): a read back to front against b read back to front (needs |a| <= |b|) */
static _Bool rev_equal_model(const struct cstr *a, const struct cstr *b)
{
  unsigned i;
  __CPROVER_assert(a->n <= b->n, "C07: std::equal reads |a| elements of b: b is at least as long");
  for (i = 0; i < 15; ++i)
    if (i < a->n && a->d[a->n - 1 - i] != b->d[(b->n - 1 - i) & 15]) return 0;
  return 1;
}
/* std::string::find(t): position of the first occurrence, npos if none */
static size_t cstr_find_model(const struct cstr *s, const struct cstr *t)
{
  unsigned p, i;
  for (p = 0; p < 16; ++p)
    {
      _Bool ok = p + t->n <= s->n;
      for (i = 0; i < 15; ++i) if (ok && i < t->n && s->d[(p + i) & 15] != t->d[i]) ok = 0;
      if (ok) return p;
    }
  return NPOS_;
}
/* std::string::erase(pos, len): removes min(len, size - pos) characters from pos; pos > size throws out_of_range */
static void cstr_erase_model(struct cstr *s, size_t pos, size_t len)
{
  unsigned i; size_t cut;
  if (pos > s->n) { VERIF_THROW(Other, 0); return; }
  cut = len < s->n - pos ? len : s->n - pos;
  for (i = 0; i < 15; ++i) if (i >= pos && i + cut < 16) s->d[i] = (i + cut < s->n) ? s->d[(i + cut) & 15] : 0;
  s->n -= cut;
}
#include "su_ends_with.inc"
#include "su_remove_suffix.inc"
#define CSTR_OK_(s) (__CPROVER_is_fresh(s, sizeof(struct cstr)) && (s)->n <= 15)
#define TAIL_EQ_(s, n_, t, k) ((k) >= (t)->n || (s)->d[((n_) - (t)->n + (k)) & 15] == (t)->d[(k) & 15])
#define ENDS_(s, n_, t) ((t)->n <= (n_) && TAIL_EQ_(s, n_, t, 0) && TAIL_EQ_(s, n_, t, 1) && TAIL_EQ_(s, n_, t, 2) && TAIL_EQ_(s, n_, t, 3) && TAIL_EQ_(s, n_, t, 4) && \
                         TAIL_EQ_(s, n_, t, 5) && TAIL_EQ_(s, n_, t, 6) && TAIL_EQ_(s, n_, t, 7))
static bool su_ends_with(const struct cstr *s_, const struct cstr *suffix_)
__CPROVER_requires(CSTR_OK_(s_) && CSTR_OK_(suffix_) && suffix_->n <= 8)
__CPROVER_assigns()
__CPROVER_ensures(__CPROVER_return_value == ENDS_(s_, s_->n, suffix_));
static bool su_remove_suffix(struct cstr *s, const struct cstr *suffix_)
__CPROVER_requires(CSTR_OK_(s) && CSTR_OK_(suffix_) && suffix_->n <= 8 && g_exc == EXC_NONE)
__CPROVER_assigns(*s, g_exc, g_exc_by_pointer)
__CPROVER_ensures(g_exc == EXC_NONE)
/* exactly when the string ends with the suffix, the suffix is taken off its end -- and every character before it stays */
#define OLD_TAIL_EQ_(k) ((k) >= suffix_->n || __CPROVER_old(s->d[(s->n - suffix_->n + (k)) & 15]) == suffix_->d[(k) & 15])
__CPROVER_ensures(__CPROVER_return_value == (suffix_->n <= __CPROVER_old(s->n) && OLD_TAIL_EQ_(0) && OLD_TAIL_EQ_(1) && OLD_TAIL_EQ_(2) && OLD_TAIL_EQ_(3) &&
                                             OLD_TAIL_EQ_(4) && OLD_TAIL_EQ_(5) && OLD_TAIL_EQ_(6) && OLD_TAIL_EQ_(7)))
__CPROVER_ensures(__CPROVER_return_value ==> s->n == __CPROVER_old(s->n) - suffix_->n)
__CPROVER_ensures(!__CPROVER_return_value ==> s->n == __CPROVER_old(s->n))
__CPROVER_ensures(g_k < s->n ==> s->d[g_k & 15] == __CPROVER_old(s->d[g_k & 15]));
void h_ends_with(void) { const struct cstr *a, *b; su_ends_with(a, b); }
void h_remove_suffix(void) { struct cstr *a; const struct cstr *b; g_k = nondet_size_t(); __CPROVER_assume(g_k < 15); g_exc = EXC_NONE; su_remove_suffix(a, b); }
