/* Proof harness: OsFile::read (img_fileio.cc), the FileAccess of an uncompressed image file.  C10 (i) / C07: read(pos, len)
 * returns exactly the bytes that exist -- min(len, size - pos), none at or beyond the end -- so that the compressed copy
 * (DecompressedFile::read, harness/dfs_gzread.c: the same statement) and the plain file give the same answer; a real I/O error
 * (errno set) is an exception by value.  std::ifstream is a model: seekg may fail; read(n) delivers what is there and sets
 * eofbit|failbit when that is less than n; an I/O error sets badbit and errno. */
#include "dfs_types.h"
static void mon_read_block(struct DataAccess *obj, unsigned long lba) { (void)obj; (void)lba; }
static void mon_read_result(struct DataAccess *obj, _Bool ok) { (void)obj; (void)ok; }
struct rvec { unsigned long n; };                    /* std::vector<byte>: its size (contents: what read() put there) */
static int g_errno;
static unsigned long g_size;                         /* ghost: size of the file */
static struct { _Bool fail, eof, bad; unsigned long gcount, at; _Bool seek_failed, io_error; unsigned long reads; } F;
static _Bool ifs_not(void *f) { (void)f; return F.fail || F.bad; }                      /* operator! : fail() */
static _Bool ifs_good(void *f) { (void)f; return !F.fail && !F.bad && !F.eof; }
static void ifs_clear(void *f) { (void)f; F.fail = 0; F.bad = 0; F.eof = 0; }
static _Bool ifs_seekg(void *f, unsigned long pos)
{
  (void)f;
  if (F.fail || F.bad) return 0;
  if (nondet_bool()) { F.fail = 1; F.seek_failed = 1; g_errno = nondet_bool() ? 5 : 0; return 0; }
  F.at = pos; return 1;
}
static void ifs_read(void *f, unsigned long room, unsigned long n)
{
  unsigned long there = F.at >= g_size ? 0 : (g_size - F.at < n ? g_size - F.at : n);
  (void)f;
  __CPROVER_assert(room >= n, "C07: istream::read(p, n) writes n bytes: the buffer has that many");
  F.reads++;
  if (F.fail || F.bad) { F.gcount = 0; return; }
  if (nondet_bool()) { F.bad = 1; F.io_error = 1; g_errno = 5; F.gcount = nondet_ulong(); __CPROVER_assume(F.gcount <= there); return; }
  F.gcount = there; F.at += there;
  if (there < n) { F.eof = 1; F.fail = 1; }
}
#include "OsFile_read.inc"
#define EXPECT_(pos, len) ((pos) >= g_size ? 0ul : (g_size - (pos) < (len) ? g_size - (pos) : (len)))
static struct rvec OsFile_read(unsigned long pos, unsigned long len)
__CPROVER_requires(g_exc == EXC_NONE && !g_exc_by_pointer && !F.fail && !F.bad && !F.eof && !F.seek_failed && !F.io_error && g_diag < 1000 && len <= (1ul << 40) && g_size <= (1ul << 40))
__CPROVER_assigns(F, g_errno, g_diag, g_exc, g_exc_by_pointer)
__CPROVER_ensures(!g_exc_by_pointer)
/* no error: exactly the bytes that exist */
__CPROVER_ensures((!F.seek_failed && !F.io_error) ==> (g_exc == EXC_NONE && __CPROVER_return_value.n == EXPECT_(pos, len)))
/* a real I/O error is raised; the stream is usable again afterwards in every case */
__CPROVER_ensures(F.io_error ==> g_exc != EXC_NONE)
__CPROVER_ensures(!F.fail && !F.bad && !F.eof);
void h_osfile_read(void) { F.fail = 0; F.bad = 0; F.eof = 0; F.seek_failed = 0; F.io_error = 0; g_exc = EXC_NONE; g_exc_by_pointer = 0; g_diag = 0; OsFile_read(nondet_ulong(), nondet_ulong()); }
