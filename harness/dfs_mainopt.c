/* Proof harness: one step of the option loop of dfs's main (main.cc) and its option table.  C16: "for any sequence of --file,
 * --drive-first and --drive-physical options ... with the allocation policy switched at any point in the sequence": each
 * --file is attached under the policy in force at that point of the command line, --drive-first / --drive-physical set it and
 * change nothing else, and no other option touches it.  (That getopt_long hands the options over in command-line order is
 * the C library's contract, assumed.) */
#include <limits.h>
#include "dfs_types.h"
static void mon_read_block(struct DataAccess *obj, unsigned long lba) { (void)obj; (void)lba; }
static void mon_read_result(struct DataAccess *obj, _Bool ok) { (void)obj; (void)ok; }
#define NULL ((void *)0)
struct option { const char *name; int has_arg; int *flag; int val; };          /* <getopt.h> */
#include "dfs_opt_table.inc"
enum { DriveAllocation_FIRST = 1, DriveAllocation_PHYSICAL = 2 };              /* storage.h: enum class DriveAllocation */
struct VolSel { unsigned surface; _Bool has_sub; char sub; };
struct MainState { char current_directory; struct VolSel current_volume; int ui; int how; _Bool show_config, verbose; unsigned long files_n; };
struct ImageFileM { int id; };
struct opt_int_ { _Bool has; int val; };
static unsigned long g_diag;
/* what the models were asked to do (recorded so that the contract can speak about it) */
static struct { unsigned make_calls, connect_calls, help_calls; const char *make_arg; struct ImageFileM *made, *connected, *pushed; int connect_how; _Bool connect_ok;
                _Bool drive_ok; struct VolSel drive_val; struct opt_int_ ui; int help_rc; } MO;
static struct ImageFileM h_file;
/* DFS::make_image_file(name, error): an image file object, or null with an error text, or an exception */
static struct ImageFileM *make_image_file_model(const char *name)
{
  MO.make_calls++; MO.make_arg = name;
  if (nondet_bool()) { g_exc = EXC_Other; MO.made = 0; return 0; }
  MO.made = nondet_bool() ? &h_file : (struct ImageFileM *)0;
  return MO.made;
}
/* AbstractImageFile::connect_drives(&storage, how, error): attaches the image's surfaces under policy `how` (its own contracts:
   harness/dfs_storage.c, dfs_viewfile.c); false (or an exception: same observable outcome here) = refused */
static _Bool connect_drives_model(struct ImageFileM *f, int how)
{
  MO.connect_calls++; MO.connected = f; MO.connect_how = how; MO.connect_ok = nondet_bool();
  return MO.connect_ok;
}
static void files_push_back(struct MainState *st, struct ImageFileM *f) { MO.pushed = f; st->files_n = st->files_n + 1; }
/* get_drive_number(optarg): parses a drive specifier; a refusal comes with a diagnostic */
static _Bool get_drive_number_model(const char *s, struct VolSel *out)
{
  (void)s;
  MO.drive_ok = nondet_bool();
  MO.drive_val.surface = nondet_uint(); MO.drive_val.has_sub = nondet_bool(); MO.drive_val.sub = nondet_char();
  if (!MO.drive_ok) { g_diag++; MO.drive_val.surface = 0; MO.drive_val.has_sub = 0; MO.drive_val.sub = 0; }
  *out = MO.drive_val;                        /* std::tie assigns the second member of the pair in both cases (VolumeSelector(0) on failure) */
  return MO.drive_ok;
}
static struct opt_int_ parse_ui_style_model(const char *s) { (void)s; MO.ui.has = nondet_bool(); MO.ui.val = nondet_int(); return MO.ui; }
static void DFSContext_assign(struct MainState *st, char dir, struct VolSel vol, int ui) { st->current_directory = dir; st->current_volume = vol; st->ui = ui; }
static int dfs_main_help_model(void) { MO.help_calls++; MO.help_rc = nondet_bool() ? 0 : 1; if (MO.help_rc) g_diag++; return MO.help_rc; }
#include "dfs_main_option.inc"

#define SAME_(f) (st->f == __CPROVER_old(st->f))
#define VOL_SAME_ (st->current_volume.surface == __CPROVER_old(st->current_volume.surface) && st->current_volume.has_sub == __CPROVER_old(st->current_volume.has_sub) && \
                   st->current_volume.sub == __CPROVER_old(st->current_volume.sub))
static int dfs_main_option(int opt, struct MainState *st, const char *optarg_, size_t optarg_len)
__CPROVER_requires(__CPROVER_is_fresh(st, sizeof(*st)) && __CPROVER_is_fresh(optarg_, 2) && g_exc == EXC_NONE && g_diag < 1000 && st->files_n < 1000)
__CPROVER_requires(MO.make_calls == 0 && MO.connect_calls == 0 && MO.help_calls == 0)
__CPROVER_requires(st->how == DriveAllocation_FIRST || st->how == DriveAllocation_PHYSICAL)
__CPROVER_assigns(*st, MO, g_diag, g_exc)
__CPROVER_ensures(__CPROVER_return_value == -1 || __CPROVER_return_value == 0 || __CPROVER_return_value == 1)
__CPROVER_ensures(g_exc == EXC_NONE)
/* the two policy options: set the policy, touch nothing else, go on */
__CPROVER_ensures(opt == OPT_ALLOCATE_FIRST ==> (st->how == DriveAllocation_FIRST && __CPROVER_return_value == -1))
__CPROVER_ensures(opt == OPT_ALLOCATE_PHYSICAL ==> (st->how == DriveAllocation_PHYSICAL && __CPROVER_return_value == -1))
/* no other option changes the policy */
__CPROVER_ensures((opt != OPT_ALLOCATE_FIRST && opt != OPT_ALLOCATE_PHYSICAL) ==> SAME_(how))
/* --file: the image named by the argument is created and attached under the policy in force NOW; a refusal at either step
   ends the program with status 1 and a diagnostic; an attached image is kept */
__CPROVER_ensures(opt == OPT_IMAGE_FILE ==> (MO.make_calls == 1 && MO.make_arg == optarg_))
__CPROVER_ensures((opt == OPT_IMAGE_FILE && MO.made != 0) ==> (MO.connect_calls == 1 && MO.connected == MO.made && MO.connect_how == __CPROVER_old(st->how)))
__CPROVER_ensures(opt == OPT_IMAGE_FILE ==> ((__CPROVER_return_value == -1) == (MO.made != 0 && MO.connect_ok)))
__CPROVER_ensures((opt == OPT_IMAGE_FILE && __CPROVER_return_value == -1) ==> (st->files_n == __CPROVER_old(st->files_n) + 1 && MO.pushed == MO.made))
__CPROVER_ensures((opt == OPT_IMAGE_FILE && __CPROVER_return_value != -1) ==> (__CPROVER_return_value == 1 && g_diag > __CPROVER_old(g_diag)))
__CPROVER_ensures(opt != OPT_IMAGE_FILE ==> (MO.make_calls == 0 && MO.connect_calls == 0 && SAME_(files_n)))
/* --dir takes exactly one character; --drive what get_drive_number accepts (C15: the defaults for omitted parts) */
__CPROVER_ensures(opt == OPT_CWD ==> ((__CPROVER_return_value == -1) == (optarg_len == 1) &&
                                      (optarg_len == 1 ? st->current_directory == optarg_[0] : (__CPROVER_return_value == 1 && g_diag > __CPROVER_old(g_diag)))))
__CPROVER_ensures(opt == OPT_DRIVE ==> ((__CPROVER_return_value == -1) == MO.drive_ok && (MO.drive_ok ==> (st->current_volume.surface == MO.drive_val.surface &&
                                        st->current_volume.has_sub == MO.drive_val.has_sub && st->current_volume.sub == MO.drive_val.sub)) &&
                                        (!MO.drive_ok ==> (__CPROVER_return_value == 1 && g_diag > __CPROVER_old(g_diag)))))
__CPROVER_ensures((opt != OPT_CWD) ==> SAME_(current_directory))
__CPROVER_ensures((opt != OPT_DRIVE) ==> VOL_SAME_)
/* --show-config, --verbose, --ui */
__CPROVER_ensures(opt == OPT_SHOW_CONFIG ==> (st->show_config && __CPROVER_return_value == -1))
__CPROVER_ensures(opt != OPT_SHOW_CONFIG ==> SAME_(show_config))
__CPROVER_ensures(opt == OPT_VERBOSE ==> (st->verbose && __CPROVER_return_value == -1))
__CPROVER_ensures(opt == OPT_UI_STYLE ==> ((__CPROVER_return_value == -1) == MO.ui.has && (MO.ui.has ? st->ui == MO.ui.val : (__CPROVER_return_value == 1 && g_diag > __CPROVER_old(g_diag)))))
__CPROVER_ensures(opt != OPT_UI_STYLE ==> SAME_(ui))
/* --help ends the program with the help command's verdict; an unknown option (getopt has complained) with status 1 */
__CPROVER_ensures(opt == OPT_HELP ==> (MO.help_calls == 1 && __CPROVER_return_value == MO.help_rc))
__CPROVER_ensures(opt == '?' ==> __CPROVER_return_value == 1);

void h_main_option(void)
{
  struct MainState *st; const char *arg;
  g_exc = EXC_NONE; MO.make_calls = 0; MO.connect_calls = 0; MO.help_calls = 0;
  dfs_main_option(nondet_int(), st, arg, nondet_size_t());
}

/* the option table: every name leads to its own signifier, with the argument requirement the loop relies on */
static int str_eq_(const char *a, const char *b) { unsigned i; for (i = 0; i < 16; ++i) { if (a[i] != b[i]) return 0; if (!a[i]) return 1; } return 0; }
static int table_find_(const char *name)
{
  unsigned i; int found = -1; unsigned n = 0;
  for (i = 0; i < 16 && global_opts[i].name != 0; ++i)
    if (str_eq_(global_opts[i].name, name)) { found = (int)i; n++; }
  return n == 1 ? found : -1;
}
#define CHECK_OPT_(nm, arg, v) do { int k_ = table_find_(nm); \
  __CPROVER_assert(k_ >= 0 && global_opts[k_ < 0 ? 0 : k_].has_arg == (arg) && global_opts[k_ < 0 ? 0 : k_].flag == 0 && global_opts[k_ < 0 ? 0 : k_].val == (v), \
                   "C16: option --" nm " is in the table once, with its own signifier and argument requirement"); } while (0)
void h_opt_table(void)
{
  CHECK_OPT_("file", 1, OPT_IMAGE_FILE); CHECK_OPT_("dir", 1, OPT_CWD); CHECK_OPT_("drive", 1, OPT_DRIVE);
  CHECK_OPT_("drive-first", 0, OPT_ALLOCATE_FIRST); CHECK_OPT_("drive-physical", 0, OPT_ALLOCATE_PHYSICAL);
  CHECK_OPT_("show-config", 0, OPT_SHOW_CONFIG); CHECK_OPT_("help", 0, OPT_HELP); CHECK_OPT_("ui", 1, OPT_UI_STYLE); CHECK_OPT_("verbose", 0, OPT_VERBOSE);
  /* the signifiers are pairwise distinct and none is '?' or -1 (what getopt_long itself returns) */
  __CPROVER_assert(OPT_IMAGE_FILE < OPT_CWD && OPT_CWD < OPT_DRIVE && OPT_DRIVE < OPT_SHOW_CONFIG && OPT_SHOW_CONFIG < OPT_ALLOCATE_PHYSICAL &&
                   OPT_ALLOCATE_PHYSICAL < OPT_ALLOCATE_FIRST && OPT_ALLOCATE_FIRST < OPT_UI_STYLE && OPT_UI_STYLE < OPT_VERBOSE && OPT_VERBOSE < OPT_HELP && OPT_HELP < -1,
                   "C16: option signifiers are distinct and differ from getopt's own return values");
}
