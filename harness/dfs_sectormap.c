/* Proof harness: FileSystem::get_sector_map (dfs_filesystem.cc).  C14: sector-map and extract-unused see every volume's catalogue
 * and files (Volume::map_sectors: harness/dfs_volctor.c, Catalog::map_sectors: dfs_space.c) and, on an Opus DDOS disc -- however
 * many volumes it has -- the disc catalogue in sectors 16 and 17. */
#include "dfs_types.h"
static void mon_read_block(struct DataAccess *obj, unsigned long lba) { (void)obj; (void)lba; }
static void mon_read_result(struct DataAccess *obj, _Bool ok) { (void)obj; (void)ok; }
enum { Format_HDFS, Format_DFS, Format_WDFS, Format_OpusDDOS };          /* dfs_format.h: enum class Format */
#define VOLS_MAX 8
struct VolSelS { unsigned int surface; _Bool has_sub; char sub; };
struct FileSystemS { int format; size_t volumes_n; };
static struct { _Bool has_letter; char letter; } h_vols[VOLS_MAX];     /* std::map<std::optional<char>, unique_ptr<Volume>>, in key order */
static size_t g_v;                                                    /* ghost index of one volume */
static struct { unsigned news; _Bool multi; unsigned long vol_calls; _Bool in_order; struct VolSelS sel_at_v; unsigned opus_calls; } SM;
static void sector_map_new(_Bool multiple_catalogs) { SM.news++; SM.multi = multiple_catalogs; }
static void volume_map_sectors_model(size_t vi, struct VolSelS sel) { if (vi != SM.vol_calls) SM.in_order = 0; if (vi == g_v) SM.sel_at_v = sel; if (SM.vol_calls < 1000) SM.vol_calls++; }
static void opus_disc_catalogue_map_model(void) { SM.opus_calls++; }
#define SECTOR_MAP_LOOP_CONTRACT \
  __CPROVER_assigns(vi_, SM.vol_calls, SM.in_order, SM.sel_at_v) \
  __CPROVER_loop_invariant(vi_ <= self->volumes_n && SM.vol_calls == vi_ && SM.in_order) \
  __CPROVER_loop_invariant(g_v < vi_ ==> (SM.sel_at_v.surface == surface && SM.sel_at_v.has_sub == h_vols[g_v & 7].has_letter && \
                                          (SM.sel_at_v.has_sub ==> SM.sel_at_v.sub == h_vols[g_v & 7].letter))) \
  __CPROVER_decreases(self->volumes_n - vi_)
#include "get_sector_map.inc"
static void get_sector_map(const struct FileSystemS *self, unsigned int surface)
__CPROVER_requires(__CPROVER_is_fresh(self, sizeof(*self)) && self->volumes_n <= VOLS_MAX && SM.news == 0 && SM.vol_calls == 0 && SM.in_order && SM.opus_calls == 0)
__CPROVER_assigns(SM)
/* one map; it distinguishes volumes when there is more than one */
__CPROVER_ensures(SM.news == 1 && SM.multi == (self->volumes_n > 1))
/* every volume maps its sectors, once, in order, under its own selector (this surface, plus its letter if it has one) */
__CPROVER_ensures(SM.vol_calls == self->volumes_n && SM.in_order)
__CPROVER_ensures(g_v < self->volumes_n ==> (SM.sel_at_v.surface == surface && SM.sel_at_v.has_sub == h_vols[g_v & 7].has_letter &&
                                              (SM.sel_at_v.has_sub ==> SM.sel_at_v.sub == h_vols[g_v & 7].letter)))
/* the Opus disc catalogue (sectors 16, 17) is in the map exactly for an Opus DDOS disc */
__CPROVER_ensures(SM.opus_calls == (self->format == Format_OpusDDOS ? 1 : 0));
void h_get_sector_map(void)
{
  const struct FileSystemS *f;
  g_v = nondet_size_t(); __CPROVER_assume(g_v < VOLS_MAX);
  SM.news = 0; SM.vol_calls = 0; SM.in_order = 1; SM.opus_calls = 0;
  /* canonical _Bool values (an unconstrained static _Bool may hold any byte) */
  h_vols[0].has_letter = nondet_bool(); h_vols[1].has_letter = nondet_bool(); h_vols[2].has_letter = nondet_bool(); h_vols[3].has_letter = nondet_bool();
  h_vols[4].has_letter = nondet_bool(); h_vols[5].has_letter = nondet_bool(); h_vols[6].has_letter = nondet_bool(); h_vols[7].has_letter = nondet_bool();
  get_sector_map(f, nondet_uint());
}
