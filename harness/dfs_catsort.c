/* Proof harness: the ordering of `dfs cat` (cmd_cat.cc): the comparator handed to std::sort and its helper mapdir.
 * C02: "lists every file ... (current directory first, then by directory and name, case-insensitively)". */
#include "dfs_types.h"
static void mon_read_block(struct DataAccess *obj, unsigned long lba) { (void)obj; (void)lba; }
static void mon_read_result(struct DataAccess *obj, _Bool ok) { (void)obj; (void)ok; }
struct CatEnt { char dir; struct cstr name; };
/* stringutil::case_insensitive_less(a, b): a deterministic relation on names; which names it is asked about, in which
   order, is what matters here */
static struct { const struct cstr *a, *b; _Bool result; unsigned calls; } CI;
static bool ci_less_model(const struct cstr *a, const struct cstr *b) { CI.a = a; CI.b = b; CI.calls++; return CI.result; }
#include "cat_mapdir.inc"
#include "cat_compare_entries.inc"

/* the directory key: the current directory (compared exactly as given by --dir) sorts before everything else; other
   directories compare by their lower-case letter */
#define SPEC_MAPDIR(cur, d) ((d) == (cur) ? (char)0 : (char)verif_tolower((unsigned char)(d)))
static char cat_mapdir(char ctx_current_directory, char dir)
__CPROVER_assigns()
__CPROVER_ensures(__CPROVER_return_value == SPEC_MAPDIR(ctx_current_directory, dir));

static bool cat_compare_entries(char ctx_current_directory, const struct CatEnt *l, const struct CatEnt *r)
__CPROVER_requires(__CPROVER_is_fresh(l, sizeof(*l)) && __CPROVER_is_fresh(r, sizeof(*r)) && CI.calls == 0)
__CPROVER_assigns(CI)
/* by directory key first; within one directory by name, case-insensitively, l against r */
__CPROVER_ensures(SPEC_MAPDIR(ctx_current_directory, l->dir) < SPEC_MAPDIR(ctx_current_directory, r->dir) ==> __CPROVER_return_value)
__CPROVER_ensures(SPEC_MAPDIR(ctx_current_directory, r->dir) < SPEC_MAPDIR(ctx_current_directory, l->dir) ==> !__CPROVER_return_value)
__CPROVER_ensures(SPEC_MAPDIR(ctx_current_directory, l->dir) == SPEC_MAPDIR(ctx_current_directory, r->dir) ==>
                  (CI.calls == 1 && CI.a == &l->name && CI.b == &r->name && __CPROVER_return_value == CI.result));

void h_cat_mapdir(void) { cat_mapdir(nondet_char(), nondet_char()); }
void h_cat_compare(void) { const struct CatEnt *l, *r; CI.calls = 0; cat_compare_entries(nondet_char(), l, r); }
