/* Proof harness: the name hints of make_candidate_list (identify.cc).  C10 (i): "the gzip-compressed copy (same name plus
 * .gz) gives byte-identical standard output ... File-type hints are taken from the file name": the hints for X.gz must be
 * the hints for X.  A file name is modelled by what matters here: its image extension and whether ".gz" follows it. */
#include "dfs_types.h"
static void mon_read_block(struct DataAccess *obj, unsigned long lba) { (void)obj; (void)lba; }
static void mon_read_result(struct DataAccess *obj, _Bool ok) { (void)obj; (void)ok; }
enum { EXT_OTHER, EXT_SSD, EXT_SDD, EXT_DSD, EXT_DDD };
enum { Encoding_FM = 1, Encoding_MFM = 2 };                       /* geometry.h: enum class Encoding */
struct NameM { int ext; _Bool gz; };                              /* "<stem>.<ext>" or "<stem>.<ext>.gz" */
struct opt_int { _Bool has; int val; };
struct hints { struct opt_int encoding, interleaving, sides; };
static int lit_ext(const char *lit)                               /* which suffix literal is being asked about */
{
  if (lit[0] != '.') return -1;
  if (lit[1] == 'g' && lit[2] == 'z' && lit[3] == 0) return 100;
  if (lit[4] != 0) return -1;
  if (lit[1] == 's' && lit[2] == 's' && lit[3] == 'd') return EXT_SSD;
  if (lit[1] == 's' && lit[2] == 'd' && lit[3] == 'd') return EXT_SDD;
  if (lit[1] == 'd' && lit[2] == 's' && lit[3] == 'd') return EXT_DSD;
  if (lit[1] == 'd' && lit[2] == 'd' && lit[3] == 'd') return EXT_DDD;
  return -1;
}
/* stringutil::ends_with(s, suffix) on the modelled name */
static bool ends_with_model(const struct NameM *s, const char *lit)
{
  int k = lit_ext(lit);
  __CPROVER_assert(k >= 0, "model: one of the five known suffixes");
  if (k == 100) return s->gz;
  return !s->gz && s->ext == k;
}
/* stringutil::remove_suffix(&s, suffix): removes it if present */
static bool remove_suffix_model(struct NameM *s, const char *lit)
{
  int k = lit_ext(lit);
  __CPROVER_assert(k == 100, "model: only \".gz\" is removed");
  if (s->gz) { s->gz = 0; return 1; }
  return 0;
}
#include "candidate_hints.inc"

static void candidate_hints(struct NameM name, struct hints *out)
__CPROVER_requires(__CPROVER_is_fresh(out, sizeof(*out)) && name.ext >= EXT_OTHER && name.ext <= EXT_DDD)
__CPROVER_assigns(*out)
/* .ssd/.sdd: not interleaved, one or two sides; .dsd/.ddd: interleaved, two sides; .ssd/.dsd: FM; .sdd/.ddd: MFM -- for the
   image's own extension, whether or not ".gz" follows it */
__CPROVER_ensures(out->interleaving.has == (name.ext != EXT_OTHER) && (out->interleaving.has ==> out->interleaving.val == (name.ext == EXT_DSD || name.ext == EXT_DDD)))
__CPROVER_ensures(out->sides.has == (name.ext == EXT_DSD || name.ext == EXT_DDD) && (out->sides.has ==> out->sides.val == 2))
__CPROVER_ensures(out->encoding.has == (name.ext != EXT_OTHER) &&
                  (out->encoding.has ==> out->encoding.val == ((name.ext == EXT_SSD || name.ext == EXT_DSD) ? Encoding_FM : Encoding_MFM)));

void h_candidate_hints(void)
{
  struct NameM n; struct hints *h;
  n.ext = nondet_int(); n.gz = nondet_bool();
  candidate_hints(n, h);
}
