/* Proof harness: the .inf line written by extract-files (create_inf_file) against doc/dfs.1 "INF STANDARD ARCHIVE FILE
 * FORMAT":  D.NAME LLLLLL EEEEEE SSSSSS [Locked ]CRC=XXXX\n  -- load/exec sign-extended to 24 bits, 6 upper-case hex
 * digits each, length 6 hex digits (not sign-extended), CRC 4 hex digits; and C11: true only if the stream is still good
 * after close(). */
#include "dfs_types.h"
#include "ostream_events.h"
static void mon_read_block(struct DataAccess *obj, unsigned long lba) { (void)obj; (void)lba; }
static void mon_read_result(struct DataAccess *obj, _Bool ok) { (void)obj; (void)ok; }
static struct ostream os_obj;
static const struct CatalogEntry *mi_entry;
static unsigned mi_step;
static size_t g_k;
#define VISIT_LOOP_CONTRACT
#define MI(i) ((unsigned long)mi_entry->raw_metadata_[i])
#define SPEC_SX(a) (((a) & 0x20000ul) ? ((a) | 0xFC0000ul) : (a))
#define SPEC_LOAD_   (MI(0) | (MI(1) << 8) | (((MI(6) >> 2) & 3ul) << 16))
#define SPEC_EXEC_   (MI(2) | (MI(3) << 8) | (((MI(6) >> 6) & 3ul) << 16))
#define SPEC_LENGTH_ (MI(4) | (MI(5) << 8) | (((MI(6) >> 4) & 3ul) << 16))
#define SPEC_START_  (MI(7) | ((MI(6) & 3ul) << 8))
#define IS_STR1(e, c) ((e)->kind == EV_STR && (e)->str[0] == (c) && (e)->str[1] == 0)
#define HEXFIELD(e, v, w) ((e)->kind == EV_NUM && (e)->num == (v) && (e)->width == (w) && (e)->fill == '0' && (e)->base == 16 && (e)->upper && !(e)->left)
static _Bool inf_closed;
static unsigned long mi_crc;
static void inf_open(struct ostream *os) { inf_closed = 0; if (nondet_bool()) os->bad = 1; }
static void inf_close(struct ostream *os) { inf_closed = 1; if (!os->bad && nondet_bool()) os->bad = 1;   /* the final flush may fail */ }
static void mon_write(struct ostream *os, const byte *p, size_t n) { (void)os; (void)p; (void)n; }
#define IS_STR(e, lit) ((e)->kind == EV_STR && spec_streq_((e)->str, (lit)))
static _Bool spec_streq_(const char *a, const char *b) { unsigned k; for (k = 0; k < 8; ++k) { if (a[k] != b[k]) return 0; if (!a[k]) return 1; } return 0; }
static void mon_out(struct ostream *os, const struct out_ev *e)
{
  (void)os;
  switch (mi_step)
    {
    case 0: __CPROVER_assert(e->kind == EV_CHR && e->chr == (char)(mi_entry->raw_name_[7] & 0x7F), "C02 .inf: directory character"); break;
    case 1: __CPROVER_assert(e->kind == EV_CHR && e->chr == '.', "C02 .inf: '.' after the directory"); break;
    case 2: __CPROVER_assert(e->kind == EV_CSTR && e->width == 0, "C02 .inf: the name, unpadded");
            __CPROVER_assert(g_ev_cstr.n <= 7 && (g_k >= g_ev_cstr.n || g_ev_cstr.d[g_k] == (char)(mi_entry->raw_name_[g_k] & 0x7F)), "C02 .inf: the name is the catalogue's name bytes (7-bit)"); break;
    case 3: __CPROVER_assert(e->kind == EV_CHR && e->chr == ' ', "C02 .inf: space after the name"); break;
    case 4: __CPROVER_assert(HEXFIELD(e, SPEC_SX(SPEC_LOAD_), 6), "C02 .inf: load address, sign-extended, 6 upper-case hex digits"); break;
    case 5: case 7: case 9: __CPROVER_assert(IS_STR(e, " "), "C02 .inf: single space between fields"); break;
    case 6: __CPROVER_assert(HEXFIELD(e, SPEC_SX(SPEC_EXEC_), 6), "C02 .inf: execution address, sign-extended, 6 upper-case hex digits"); break;
    case 8: __CPROVER_assert(HEXFIELD(e, SPEC_LENGTH_, 6), "C02 .inf: length, 18 bits, 6 hex digits, not sign-extended"); break;
    case 10: __CPROVER_assert((mi_entry->raw_name_[7] & 0x80) ? IS_STR(e, "Locked ") : IS_STR(e, ""), "C02 .inf: \"Locked \" exactly when the lock bit is set"); break;
    case 11: __CPROVER_assert(IS_STR(e, "CRC="), "C02 .inf: CRC= label"); break;
    case 12: __CPROVER_assert(HEXFIELD(e, mi_crc, 4), "C02 .inf: the CRC of the body, 4 upper-case hex digits"); break;
    case 13: __CPROVER_assert(IS_STR(e, "\n"), "C02 .inf: the line ends with a newline"); break;
    default: __CPROVER_assert(0, "C02 .inf: nothing after the newline"); break;
    }
  mi_step++;
}
#include "sector_count.inc"
#include "byte_to_ascii7.inc"
#include "CatalogEntry_metadata_byte.inc"
#include "CatalogEntry_metadata_word.inc"
#include "CatalogEntry_load_address.inc"
#include "CatalogEntry_exec_address.inc"
#include "CatalogEntry_file_length.inc"
#include "CatalogEntry_start_sector.inc"
#include "CatalogEntry_directory.inc"
#include "CatalogEntry_is_locked.inc"
#include "CatalogEntry_name.inc"
#include "sign_extend.inc"
#include "create_inf_file.inc"

static bool create_inf_file(unsigned long crc, const struct CatalogEntry *entry)
__CPROVER_requires(__CPROVER_is_fresh(entry, sizeof(*entry)) && mi_entry == entry && mi_step == 0 && mi_crc == crc && crc <= 0xFFFF && g_diag < 1000)
__CPROVER_assigns(os_obj, mi_step, g_ev_cstr, g_diag, inf_closed)
/* true: every field was written, in order, exactly once, and the stream was still good after close() */
__CPROVER_ensures(__CPROVER_return_value ==> (mi_step == 14 && inf_closed && !os_obj.bad))
__CPROVER_ensures(!__CPROVER_return_value ==> os_obj.bad);

void h_inf(void)
{
  struct CatalogEntry *e;
  g_k = nondet_size_t(); mi_step = 0; g_diag = 0; mi_crc = nondet_ulong();
  bool r = create_inf_file(mi_crc, e);
  VERIF_COVER(r, "inf file written");
  VERIF_COVER(!r, "failure");
}
