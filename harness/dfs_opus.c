/* Proof harnesses: Opus DDOS volume extents (opus_cat.h). */
#include <limits.h>
#include "dfs_types.h"
static void mon_read_block(struct DataAccess *obj, unsigned long lba) { (void)obj; (void)lba; }
static void mon_read_result(struct DataAccess *obj, _Bool ok) { (void)obj; (void)ok; }
#define LOCS_MAX 8
struct OpusCatM { unsigned long total_disc_sectors_; size_t locations_n; unsigned int sectors_per_track_; };      /* locations_ is the harness array h_locs */
static struct VolumeLocation h_locs[LOCS_MAX + 1];     /* one spare element: the contracts name element g_e + 1 */
static size_t g_e;                 /* ghost index of one volume */
#include "VolumeLocation_set_next_sector.inc"
#include "VolumeLocation_len.inc"
#include "VolumeLocation_start_sector.inc"
#include "dfs_opus.h"
/* the extent loop walks the (sorted) volumes from the last to the first */
#define LOC_IDX (self->locations_n - 1 - ri_)
#define OPUS_EXTENT_LOOP_CONTRACT \
  __CPROVER_assigns(ri_, next_sector, __CPROVER_object_whole(h_locs)) \
  __CPROVER_loop_invariant(ri_ <= self->locations_n && g_exc == EXC_NONE && next_sector <= total_disc_sectors_) \
  __CPROVER_loop_invariant(next_sector == (ri_ == 0 ? total_disc_sectors_ : h_locs[self->locations_n - ri_].start_sector_)) \
  __CPROVER_loop_invariant((g_e < self->locations_n && g_e >= self->locations_n - ri_) ==> \
     (h_locs[g_e].start_sector_ + h_locs[g_e].len_ == (g_e == self->locations_n - 1 ? total_disc_sectors_ : h_locs[g_e + 1].start_sector_) && \
      h_locs[g_e].len_ <= total_disc_sectors_ && h_locs[g_e].start_sector_ + h_locs[g_e].len_ <= total_disc_sectors_)) \
  __CPROVER_loop_invariant((g_e < self->locations_n) ==> h_locs[g_e].start_sector_ == __CPROVER_loop_entry(h_locs[g_e].start_sector_)) \
  __CPROVER_loop_invariant((g_e + 1 < self->locations_n) ==> h_locs[g_e + 1].start_sector_ == __CPROVER_loop_entry(h_locs[g_e + 1].start_sector_)) \
  __CPROVER_decreases(self->locations_n - ri_)
#include "opus_volume_extents.inc"

/* C17: when the constructor does not raise, every volume ends where the next one (by start sector) begins, the last one
   at the end of the disc: the volumes are pairwise disjoint, in order, and lie inside [0, total_disc_sectors) */
static void opus_volume_extents(struct OpusCatM *self)
__CPROVER_requires(__CPROVER_is_fresh(self, sizeof(*self)) && self->locations_n <= LOCS_MAX && self->total_disc_sectors_ <= 0xFFFF && g_exc == EXC_NONE && !g_exc_by_pointer)
__CPROVER_assigns(g_exc, g_exc_by_pointer, __CPROVER_object_whole(h_locs))
__CPROVER_ensures(!g_exc_by_pointer)
__CPROVER_ensures((g_exc == EXC_NONE && g_e < self->locations_n) ==>
                  (h_locs[g_e].start_sector_ == __CPROVER_old(h_locs[g_e].start_sector_) &&
                   h_locs[g_e].start_sector_ + h_locs[g_e].len_ == (g_e == self->locations_n - 1 ? self->total_disc_sectors_ : h_locs[g_e + 1].start_sector_) &&
                   h_locs[g_e].start_sector_ + h_locs[g_e].len_ <= self->total_disc_sectors_));
/* ---- what the constructor takes from sector 16 (C13 "a self-consistent volume table", C17 where each volume starts, C07) ---- */
#include "sector_count.inc"
#include "Geometry_total_sectors.inc"
#include "safe_unsigned_multiply_u.inc"
#include "VolumeLocation_ctor.inc"
static void locs_emplace_back(struct OpusCatM *self, int cat, unsigned long start, unsigned long end, char vol)
{
  __CPROVER_assert(self->locations_n < LOCS_MAX, "model: at most 8 volumes");
  if (self->locations_n < LOCS_MAX) { VolumeLocation_ctor(&h_locs[self->locations_n], cat, start, end, vol); self->locations_n = self->locations_n + 1; }
}
/* ghost: the number of leading table entries that are present (first zero start track at slot h_P, or 8) */
static unsigned h_P;
#define TRK_(k) (sector16->d[8 + 2 * (k)])
#define OPUS_TABLE_LOOP_CONTRACT \
  __CPROVER_assigns(i, label, offset, self->locations_n, g_exc, g_exc_by_pointer, __CPROVER_object_whole(h_locs)) \
  __CPROVER_loop_invariant(0 <= i && i <= 8 && g_exc == EXC_NONE && !g_exc_by_pointer && self->locations_n == ((unsigned)i < h_P ? (unsigned)i : h_P) && offset == 8 + 2 * (unsigned)self->locations_n) \
  __CPROVER_loop_invariant((g_e < self->locations_n) ==> (h_locs[g_e].start_sector_ == (unsigned long)TRK_(g_e) * sectors_per_track_ && h_locs[g_e].len_ == 0 && \
                                                         h_locs[g_e].catalog_location_ == 2 * (int)g_e && h_locs[g_e].volume_ == 'A' + (int)g_e && \
                                                         (geom == 0 || TRK_(g_e) < (unsigned)geom->cylinders))) \
  __CPROVER_decreases(8 - i)
#include "opus_ctor_head.inc"
#include "opus_volume_table.inc"

static sector_count_type sector_count(long int x)
__CPROVER_requires(0 <= x && x <= (long)UINT_MAX) __CPROVER_assigns()
__CPROVER_ensures(__CPROVER_return_value == (sector_count_type)x);
static sector_count_type Geometry_total_sectors(const struct Geometry *self)
__CPROVER_requires(self->cylinders >= 0 && self->cylinders <= 255 && self->heads >= 0 && self->heads <= 2 && self->sectors <= 255)
__CPROVER_assigns()
__CPROVER_ensures(__CPROVER_return_value == (unsigned)self->cylinders * (unsigned)self->heads * self->sectors);

static void VolumeLocation_ctor(struct VolumeLocation *self, int catalog_sector, unsigned long start, unsigned long end, char vol)
__CPROVER_requires(__CPROVER_is_fresh(self, sizeof(*self)) && end >= start && end <= UINT_MAX)
__CPROVER_assigns(*self)
__CPROVER_ensures(self->catalog_location_ == catalog_sector && self->start_sector_ == start && self->len_ == end - start && self->volume_ == vol);

/* sector 16: bytes 1-2 total sectors (big-endian), byte 3 sectors per track; with a geometry at hand both must agree with it */
static void opus_ctor_head(struct OpusCatM *self, const SectorBuffer *sector16, const struct Geometry *geom)
__CPROVER_requires(__CPROVER_is_fresh(self, sizeof(*self)) && __CPROVER_is_fresh(sector16, sizeof(*sector16)) && g_exc == EXC_NONE && !g_exc_by_pointer)
__CPROVER_requires(geom == 0 || (__CPROVER_is_fresh(geom, sizeof(*geom)) && geom->cylinders >= 0 && geom->cylinders <= 255 && geom->heads >= 0 && geom->heads <= 2 && geom->sectors <= 255))
__CPROVER_assigns(self->total_disc_sectors_, self->sectors_per_track_, g_exc, g_exc_by_pointer)
__CPROVER_ensures(self->total_disc_sectors_ == (unsigned long)((sector16->d[1] << 8) | sector16->d[2]) && self->sectors_per_track_ == sector16->d[3] && !g_exc_by_pointer)
__CPROVER_ensures((g_exc == EXC_NONE) == (geom == 0 || (self->total_disc_sectors_ == (unsigned)geom->cylinders * (unsigned)geom->heads * geom->sectors &&
                                                       self->sectors_per_track_ == geom->sectors)));

/* the volume table: slot k (k = 0..7, volume 'A'+k) is byte 8+2k of sector 16, the volume's first track, 0 = absent.  For the
   leading present slots (k < h_P) the volume starts at track x sectors-per-track, its catalogue is at sector 2k, and -- with a
   geometry at hand -- a start track at or beyond the number of cylinders is refused.  What becomes of slots after an absent
   one is NOT stated (the code stops looking there; the repository does not say whether DDOS allows such tables). */
static void opus_volume_table(struct OpusCatM *self, const SectorBuffer *sector16, const struct Geometry *geom)
__CPROVER_requires(__CPROVER_is_fresh(self, sizeof(*self)) && __CPROVER_is_fresh(sector16, sizeof(*sector16)) && g_exc == EXC_NONE && !g_exc_by_pointer)
__CPROVER_requires(geom == 0 || (__CPROVER_is_fresh(geom, sizeof(*geom)) && geom->cylinders >= 0 && geom->cylinders <= 255))
__CPROVER_requires(self->locations_n == 0 && self->sectors_per_track_ <= 255 && h_P <= 8)
/* h_P is what its name says: slots 0..h_P-1 are present, slot h_P (if there is one) is absent */
#define PRESENT_(k) ((k) < h_P ==> TRK_(k) != 0)
__CPROVER_requires(PRESENT_(0) && PRESENT_(1) && PRESENT_(2) && PRESENT_(3) && PRESENT_(4) && PRESENT_(5) && PRESENT_(6) && PRESENT_(7) && (h_P < 8 ==> TRK_(h_P) == 0))
__CPROVER_assigns(self->locations_n, g_exc, g_exc_by_pointer, __CPROVER_object_whole(h_locs))
__CPROVER_ensures(!g_exc_by_pointer && self->locations_n <= 8)
__CPROVER_ensures(g_exc == EXC_NONE ==> self->locations_n >= h_P)
__CPROVER_ensures((g_exc == EXC_NONE && g_e < h_P) ==>
                  (h_locs[g_e].start_sector_ == (unsigned long)TRK_(g_e) * self->sectors_per_track_ && h_locs[g_e].catalog_location_ == 2 * (int)g_e &&
                   h_locs[g_e].volume_ == 'A' + (int)g_e && (geom == 0 || TRK_(g_e) < (unsigned)geom->cylinders)))
/* with a geometry, a present leading slot beyond the last cylinder is refused */
__CPROVER_ensures((geom != 0 && g_e < h_P && TRK_(g_e) >= (unsigned)geom->cylinders) ==> g_exc != EXC_NONE);

void h_vl_ctor(void) { struct VolumeLocation *v; VolumeLocation_ctor(v, nondet_int(), nondet_ulong(), nondet_ulong(), nondet_char()); }
void h_ctor_head(void) { struct OpusCatM *c; const SectorBuffer *s; const struct Geometry *g; g_exc = EXC_NONE; g_exc_by_pointer = 0; opus_ctor_head(c, s, g); }
void h_table(void)
{
  struct OpusCatM *c; const SectorBuffer *s; const struct Geometry *g;
  g_e = nondet_size_t(); __CPROVER_assume(g_e < LOCS_MAX); h_P = nondet_uint();
  g_exc = EXC_NONE; g_exc_by_pointer = 0;
  opus_volume_table(c, s, g);
}
/* OpusDiscCatalogue::map_sectors (C14): on an Opus DDOS disc sector 16 (the disc catalogue) and sector 17 (reserved, the last
   sector of track 0) belong to no volume and are labelled as such -- those two and no other */
static struct { unsigned calls; unsigned long first, second; } AO;
static void add_other_model(unsigned long sector) { if (AO.calls == 0) AO.first = sector; else AO.second = sector; if (AO.calls < 1000) AO.calls++; }
#include "opus_disc_map_sectors.inc"
static void opus_disc_map_sectors(const struct OpusCatM *self)
__CPROVER_requires(__CPROVER_is_fresh(self, sizeof(*self)) && AO.calls == 0)
__CPROVER_assigns(AO)
__CPROVER_ensures(AO.calls == 2 && AO.first == 16 && AO.second == 17);
void h_disc_map(void) { const struct OpusCatM *c; AO.calls = 0; opus_disc_map_sectors(c); }
void h_set_next(void) { struct VolumeLocation *v; VolumeLocation_set_next_sector(v, nondet_ulong()); }
void h_len(void) { struct VolumeLocation *v; VolumeLocation_len(v); }
void h_start(void) { struct VolumeLocation *v; VolumeLocation_start_sector(v); }
void h_extents(void) { struct OpusCatM *c; g_e = nondet_size_t(); __CPROVER_assume(g_e < LOCS_MAX); g_exc = EXC_NONE; g_exc_by_pointer = 0; opus_volume_extents(c); }
