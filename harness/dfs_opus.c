/* Proof harnesses: Opus DDOS volume extents (opus_cat.h). */
#include "dfs_types.h"
static void mon_read_block(struct DataAccess *obj, unsigned long lba) { (void)obj; (void)lba; }
static void mon_read_result(struct DataAccess *obj, _Bool ok) { (void)obj; (void)ok; }
#define LOCS_MAX 8
struct OpusCatM { unsigned long total_disc_sectors_; size_t locations_n; };      /* locations_ is the harness array h_locs */
static struct VolumeLocation h_locs[LOCS_MAX + 1];     /* one spare element: the contracts name element g_e + 1 */
static size_t g_e;                 /* ghost index of one volume */
#include "VolumeLocation_set_next_sector.inc"
#include "VolumeLocation_len.inc"
#include "VolumeLocation_start_sector.inc"
#include "dfs_opus.h"
/* the extent loop walks the (sorted) volumes from the last to the first */
#define LOC_IDX (self->locations_n - 1 - ri_)
#define OPUS_EXTENT_LOOP_CONTRACT \
  __CPROVER_assigns(ri_, next_sector, __CPROVER_object_whole(h_locs)) \
  __CPROVER_loop_invariant(ri_ <= self->locations_n && g_exc == EXC_NONE && next_sector <= total_disc_sectors_) \
  __CPROVER_loop_invariant(next_sector == (ri_ == 0 ? total_disc_sectors_ : h_locs[self->locations_n - ri_].start_sector_)) \
  __CPROVER_loop_invariant((g_e < self->locations_n && g_e >= self->locations_n - ri_) ==> \
     (h_locs[g_e].start_sector_ + h_locs[g_e].len_ == (g_e == self->locations_n - 1 ? total_disc_sectors_ : h_locs[g_e + 1].start_sector_) && \
      h_locs[g_e].len_ <= total_disc_sectors_ && h_locs[g_e].start_sector_ + h_locs[g_e].len_ <= total_disc_sectors_)) \
  __CPROVER_loop_invariant((g_e < self->locations_n) ==> h_locs[g_e].start_sector_ == __CPROVER_loop_entry(h_locs[g_e].start_sector_)) \
  __CPROVER_loop_invariant((g_e + 1 < self->locations_n) ==> h_locs[g_e + 1].start_sector_ == __CPROVER_loop_entry(h_locs[g_e + 1].start_sector_)) \
  __CPROVER_decreases(self->locations_n - ri_)
#include "opus_volume_extents.inc"

/* C17: when the constructor does not raise, every volume ends where the next one (by start sector) begins, the last one
   at the end of the disc: the volumes are pairwise disjoint, in order, and lie inside [0, total_disc_sectors) */
static void opus_volume_extents(struct OpusCatM *self)
__CPROVER_requires(__CPROVER_is_fresh(self, sizeof(*self)) && self->locations_n <= LOCS_MAX && self->total_disc_sectors_ <= 0xFFFF && g_exc == EXC_NONE && !g_exc_by_pointer)
__CPROVER_assigns(g_exc, g_exc_by_pointer, __CPROVER_object_whole(h_locs))
__CPROVER_ensures(!g_exc_by_pointer)
__CPROVER_ensures((g_exc == EXC_NONE && g_e < self->locations_n) ==>
                  (h_locs[g_e].start_sector_ == __CPROVER_old(h_locs[g_e].start_sector_) &&
                   h_locs[g_e].start_sector_ + h_locs[g_e].len_ == (g_e == self->locations_n - 1 ? self->total_disc_sectors_ : h_locs[g_e + 1].start_sector_) &&
                   h_locs[g_e].start_sector_ + h_locs[g_e].len_ <= self->total_disc_sectors_));
void h_set_next(void) { struct VolumeLocation *v; VolumeLocation_set_next_sector(v, nondet_ulong()); }
void h_len(void) { struct VolumeLocation *v; VolumeLocation_len(v); }
void h_start(void) { struct VolumeLocation *v; VolumeLocation_start_sector(v); }
void h_extents(void) { struct OpusCatM *c; g_e = nondet_size_t(); __CPROVER_assume(g_e < LOCS_MAX); g_exc = EXC_NONE; g_exc_by_pointer = 0; opus_volume_extents(c); }
