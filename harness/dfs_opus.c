/* Proof harnesses: Opus DDOS volume extents (opus_cat.h). */
#include "dfs_types.h"
static void mon_read_block(struct DataAccess *obj, unsigned long lba) { (void)obj; (void)lba; }
static void mon_read_result(struct DataAccess *obj, _Bool ok) { (void)obj; (void)ok; }
#include "VolumeLocation_set_next_sector.inc"
#include "VolumeLocation_len.inc"
#include "VolumeLocation_start_sector.inc"
#include "dfs_opus.h"
void h_set_next(void) { struct VolumeLocation *v; VolumeLocation_set_next_sector(v, nondet_ulong()); }
void h_len(void) { struct VolumeLocation *v; VolumeLocation_len(v); }
void h_start(void) { struct VolumeLocation *v; VolumeLocation_start_sector(v); }
