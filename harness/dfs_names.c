/* Proof harness: case-insensitive name comparison (stringutil.cc) and CatalogEntry::has_name (dfs_catalog.cc).
 * C15: `type`, `list`, `dump` find a file by directory and name with case-insensitive comparison of the name. */
#include <stdio.h>
#include "dfs_types.h"
static void mon_read_block(struct DataAccess *obj, unsigned long lba) { (void)obj; (void)lba; }
static void mon_read_result(struct DataAccess *obj, _Bool ok) { (void)obj; (void)ok; }
static size_t g_k;
static unsigned g_creates;            /* named by contracts/dfs_extract.h (extract-files), unused here */
struct ParsedFileNameM { char dir; struct cstr name; };
/* <cctype> tolower(int): defined for EOF and the values of unsigned char only (C11 7.4p1) */
static int tolower_chk(int c)
{
  __CPROVER_assert(c == EOF || (c >= 0 && c <= 255), "C07: tolower() on a value that is neither EOF nor an unsigned char is undefined");
  return verif_tolower(c);
}
static bool ci_comp(const unsigned char lhs, const unsigned char rhs);
/* std::mismatch(l.begin, l.end, r.begin, r.end, pred): the first position where pred fails or a range ends (trusted) */
struct mismatch_result { unsigned first, second; };
static struct mismatch_result mismatch_model(const struct cstr *l, const struct cstr *r)
{
  struct mismatch_result m; unsigned i;
  m.first = 0;
  for (i = 0; i < 16; ++i)
    if (m.first == i && i < l->n && i < r->n && i < 15 && ci_comp((unsigned char)l->d[i], (unsigned char)r->d[i])) m.first = i + 1;
  m.second = m.first;
  return m;
}
static char cstr_deref(const struct cstr *s, unsigned i)      /* *it for an iterator that is not end() */
{
  __CPROVER_assert(i < s->n, "C07: dereferencing an iterator inside the string");
  return i < 15 ? s->d[i] : 0;
}
#define CSTR_DEREF(s, i) cstr_deref((s), (i))
#include "ci_comp.inc"
#include "case_insensitive_less.inc"
#include "case_insensitive_equal.inc"
#include "byte_to_ascii7.inc"
#include "CatalogEntry_directory.inc"
#include "CatalogEntry_name.inc"
#include "CatalogEntry_has_name.inc"
#include "dfs_catalog_min.h"
static char CatalogEntry_directory(const struct CatalogEntry *self)
__CPROVER_requires(CE_FRESH) __CPROVER_assigns()
__CPROVER_ensures(__CPROVER_return_value == (char)(self->raw_name_[7] & 0x7F));
#define VISIT_LOOP_CONTRACT
#include "dfs_extract.h"

#define LOW(c) ((unsigned char)verif_tolower((unsigned char)(c)))
static bool ci_comp(const unsigned char lhs, const unsigned char rhs)
__CPROVER_assigns() __CPROVER_ensures(__CPROVER_return_value == (LOW(lhs) == LOW(rhs)));

#define CSTR_OK(s) (__CPROVER_is_fresh(s, sizeof(struct cstr)) && (s)->n <= 15)
/* spec: lexicographic order of the lower-cased strings, a proper prefix being smaller (loop-free: 15 positions) */
static _Bool spec_ci_less(const struct cstr *a, const struct cstr *b)
{
  unsigned i;
  for (i = 0; i < 15; ++i)
    {
      if (i >= b->n) return 0;
      if (i >= a->n) return 1;
      if (LOW(a->d[i]) != LOW(b->d[i])) return LOW(a->d[i]) < LOW(b->d[i]);
    }
  return 0;
}
static _Bool spec_ci_equal(const struct cstr *a, const struct cstr *b)
{
  unsigned i;
  if (a->n != b->n) return 0;
  for (i = 0; i < 15; ++i) if (i < a->n && LOW(a->d[i]) != LOW(b->d[i])) return 0;
  return 1;
}
static bool case_insensitive_less(const struct cstr *left, const struct cstr *right)
__CPROVER_requires(CSTR_OK(left) && CSTR_OK(right)) __CPROVER_assigns()
__CPROVER_ensures(__CPROVER_return_value == spec_ci_less(left, right));
static bool case_insensitive_equal(const struct cstr *left, const struct cstr *right)
__CPROVER_requires(CSTR_OK(left) && CSTR_OK(right)) __CPROVER_assigns()
/* equal iff same length and the same letters up to case */
__CPROVER_ensures(__CPROVER_return_value == spec_ci_equal(left, right));

/* a catalogue entry is the wanted file iff the directory is the same character and the name (7-bit, up to the first
   space or NUL) equals the wanted name up to case */
static bool CatalogEntry_has_name(const struct CatalogEntry *self, const struct ParsedFileNameM *wanted)
__CPROVER_requires(CE_FRESH && __CPROVER_is_fresh(wanted, sizeof(*wanted)) && wanted->name.n <= 15)
__CPROVER_assigns()
__CPROVER_ensures(__CPROVER_return_value ==> wanted->dir == (char)(self->raw_name_[7] & 0x7F))
__CPROVER_ensures(__CPROVER_return_value ==> (wanted->name.n <= 7 && (g_k >= wanted->name.n || (LOW(wanted->name.d[g_k]) == LOW(NAME_CH(self, g_k)) && !NAME_STOP(self, g_k)))))
__CPROVER_ensures(__CPROVER_return_value ==> (wanted->name.n == 7 || NAME_STOP(self, wanted->name.n)))
/* ... and conversely (C01/C15: a catalogued file is found under its own directory and name, whatever the case of the letters in
   the NAME; the directory character must be the same character): written out for the seven name positions */
#define HN_M_(k) ((k) >= wanted->name.n || (LOW(wanted->name.d[k]) == LOW(NAME_CH(self, k)) && !NAME_STOP(self, k)))
__CPROVER_ensures((wanted->dir == (char)(self->raw_name_[7] & 0x7F) && wanted->name.n <= 7 && HN_M_(0) && HN_M_(1) && HN_M_(2) && HN_M_(3) && HN_M_(4) && HN_M_(5) && HN_M_(6) &&
                   (wanted->name.n == 7 || NAME_STOP(self, wanted->name.n))) ==> __CPROVER_return_value);

void h_ci_comp(void) { ci_comp(nondet_uchar(), nondet_uchar()); }
void h_ci_less(void) { const struct cstr *a, *b; case_insensitive_less(a, b); }
void h_ci_equal(void) { const struct cstr *a, *b; case_insensitive_equal(a, b); }
void h_has_name(void) { const struct CatalogEntry *e; const struct ParsedFileNameM *w; g_k = nondet_size_t(); __CPROVER_assume(g_k < 7); CatalogEntry_has_name(e, w); }
