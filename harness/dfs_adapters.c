/* Proof harnesses: sector lookup of the HFE and HxC MFM adapters (image-level clause of C05/C06), PicTrack::track_len. */
#include "dfs_types.h"
static void mon_read_block(struct DataAccess *obj, unsigned long lba) { (void)obj; (void)lba; }
static void mon_read_result(struct DataAccess *obj, _Bool ok) { (void)obj; (void)ok; }
#define FS_MAX 64
static struct FluxSector h_flux[FS_MAX];
static size_t g_k, g_e;               /* ghost byte index / ghost sector index */
static struct SectorAddress h_want;   /* the address looked for (harness-owned, unconstrained) */
static size_t g_hit;                  /* the list position the returned data came from */
static void flux_sector_copy(const struct FluxSector *s, SectorBuffer *buf)    /* std::copy(data.begin(), data.end(), buf.begin()) */
{
  __CPROVER_assert(s->data_n <= 256, "C07: sector data copied into a 256-byte buffer must not be longer than it");
  g_hit = (size_t)(s - h_flux);
  if (g_k < 256 && g_k < s->data_n) buf->d[g_k] = s->data[g_k];
}
#define ADDR_IS(s, c, h, r) ((s).address.cylinder == (c) && (s).address.head == (h) && (s).address.record == (r))
#define ADAPTER_LOOP_CONTRACT \
  __CPROVER_assigns(si_, g_hit) \
  __CPROVER_loop_invariant(si_ <= self->sectors_n) \
  __CPROVER_loop_invariant((g_e < si_) ==> !SectorAddress_eq_M(h_flux[g_e].address, addr)) \
  __CPROVER_decreases(self->sectors_n - si_)
#define SectorAddress_eq_M(a, b) ((a).cylinder == (b).cylinder && (a).head == (b).head && (a).record == (b).record)
/* std::lower_bound(first, last, want, [](s, a){ return s.address < a; }): the first element that is not before `want` (the
   standard's result for a list partitioned by the comparison; written as the linear definition) */
#define ADDR_LT_(a, b) ((a).cylinder < (b).cylinder || ((a).cylinder == (b).cylinder && ((a).head < (b).head || ((a).head == (b).head && (a).record < (b).record))))
static size_t flux_lower_bound_model(const struct FluxAdapter *self, const struct SectorAddress *want)
{
  size_t r = self->sectors_n; _Bool found = 0;
  /* written out for the FS_MAX = 64 positions (a loop here would be unwound after dfcc's instrumentation, which then flags its
     counter as a frame violation) */
#define LB1_(i) if ((size_t)(i) < self->sectors_n && !found && !ADDR_LT_(h_flux[i].address, *want)) { r = (i); found = 1; }
#define LB8_(b) LB1_((b) + 0) LB1_((b) + 1) LB1_((b) + 2) LB1_((b) + 3) LB1_((b) + 4) LB1_((b) + 5) LB1_((b) + 6) LB1_((b) + 7)
  LB8_(0) LB8_(8) LB8_(16) LB8_(24) LB8_(32) LB8_(40) LB8_(48) LB8_(56)
#undef LB8_
#undef LB1_
  return r;
}
#define FIND_LOOP_CONTRACT \
  __CPROVER_assigns(it) \
  __CPROVER_loop_invariant(it <= self->sectors_n) \
  __CPROVER_loop_invariant((g_e < it) ==> !SectorAddress_eq_M(h_flux[g_e].address, h_want)) \
  __CPROVER_decreases(self->sectors_n - it)
#include "SectorAddress_lt.inc"
#include "SectorAddress_eq.inc"
#include "sector_count.inc"
#include "Geometry_total_sectors.inc"
#include "PicTrack_track_len.inc"
#include "HxcAdapter_read_block.inc"
#include "HfeAdapter_find_sector.inc"
#include "HfeAdapter_read_block.inc"
#include "dfs_catalog_min.h"
static sector_count_type Geometry_total_sectors(const struct Geometry *self)
__CPROVER_requires(__CPROVER_is_fresh(self, sizeof(*self)) && self->cylinders >= 0 && self->cylinders <= 255 && self->heads >= 0 && self->heads <= 2 && self->sectors <= 255)
__CPROVER_assigns()
__CPROVER_ensures(__CPROVER_return_value == (unsigned)self->cylinders * (unsigned)self->heads * self->sectors);

static bool SectorAddress_lt(const struct SectorAddress *self, const struct SectorAddress *a_)
__CPROVER_requires(__CPROVER_r_ok(self, sizeof(*self)) && __CPROVER_r_ok(a_, sizeof(*a_))) __CPROVER_assigns()
/* lexicographic order on (cylinder, head, record) */
__CPROVER_ensures(__CPROVER_return_value == (self->cylinder < a_->cylinder || (self->cylinder == a_->cylinder && (self->head < a_->head || (self->head == a_->head && self->record < a_->record)))));
static bool SectorAddress_eq(const struct SectorAddress *self, const struct SectorAddress *a_)
__CPROVER_requires(__CPROVER_r_ok(self, sizeof(*self)) && __CPROVER_r_ok(a_, sizeof(*a_))) __CPROVER_assigns()
__CPROVER_ensures(__CPROVER_return_value == (self->cylinder == a_->cylinder && self->head == a_->head && self->record == a_->record));

/* HFE LUT: track length in bytes, rounded UP to a whole number of 512-byte blocks */
static unsigned long PicTrack_track_len(const struct PicTrack *self)
__CPROVER_requires(__CPROVER_is_fresh(self, sizeof(*self))) __CPROVER_assigns()
__CPROVER_ensures(__CPROVER_return_value % 512 == 0 && __CPROVER_return_value >= self->track_len_ && __CPROVER_return_value < (unsigned long)self->track_len_ + 512);

#define ADAPTER_OK(a) (__CPROVER_is_fresh(a, sizeof(struct FluxAdapter)) && (a)->sectors_ == h_flux && (a)->sectors_n <= FS_MAX && (a)->side_ <= 1 && \
                       (a)->geom_.heads == 1 && (a)->geom_.cylinders >= 0 && (a)->geom_.cylinders <= 80 && (a)->geom_.sectors <= 18 && \
                       (g_e >= FS_MAX || h_flux[g_e].data_n == 256))      /* every sector passed check_track_is_supported */
/* image-level clause (C05/C06): a read of logical sector lba = t*S + s of this side returns the data recorded under exactly
   the address (cylinder t, head = side, record s) -- the first such sector in the list -- or fails; never another sector's data */
#define ADAPTER_ENSURES \
  __CPROVER_ensures(__CPROVER_return_value.has ==> (self->geom_.sectors != 0 && g_hit < self->sectors_n && \
                    ADDR_IS(h_flux[g_hit], lba / self->geom_.sectors, self->side_, lba % self->geom_.sectors) && \
                    (g_k >= 256 || __CPROVER_return_value.val.d[g_k] == h_flux[g_hit].data[g_k]))) \
  __CPROVER_ensures((!__CPROVER_return_value.has && self->geom_.sectors != 0 && lba < (unsigned long)self->geom_.cylinders * self->geom_.sectors && g_e < self->sectors_n) ==> \
                    !ADDR_IS(h_flux[g_e], lba / self->geom_.sectors, self->side_, lba % self->geom_.sectors))
static opt_SectorBuffer HxcAdapter_read_block(struct FluxAdapter *self, unsigned long lba)
__CPROVER_requires(ADAPTER_OK(self))
__CPROVER_assigns(g_hit)
ADAPTER_ENSURES;

/* first position whose address equals *want, or sectors_n.  (In the job that ENFORCES this contract the address object is the
   harness-owned h_want, which the loop invariant names: dereferencing an is_fresh parameter inside a loop invariant does not
   work with this CBMC; callers may pass any readable address.) */
#ifdef VERIF_FIND_ENFORCE
#define FIND_WANT_OK(w) ((w) == &h_want)
#else
#define FIND_WANT_OK(w) __CPROVER_r_ok((w), sizeof(struct SectorAddress))
#endif
static size_t HfeAdapter_find_sector(const struct FluxAdapter *self, const struct SectorAddress *want)
__CPROVER_requires(ADAPTER_OK(self) && FIND_WANT_OK(want))
__CPROVER_assigns()
__CPROVER_ensures(__CPROVER_return_value <= self->sectors_n)
__CPROVER_ensures(__CPROVER_return_value < self->sectors_n ==> SectorAddress_eq_M(h_flux[__CPROVER_return_value].address, *want))
__CPROVER_ensures((g_e < __CPROVER_return_value) ==> !SectorAddress_eq_M(h_flux[g_e].address, *want));

static opt_SectorBuffer HfeAdapter_read_block(struct FluxAdapter *self, unsigned long lba)
/* HfeFile::read_all_sectors rejects an image unless every track yields the same number of sectors: the list is complete */
__CPROVER_requires(ADAPTER_OK(self) && self->sectors_n == (size_t)self->geom_.cylinders * self->geom_.sectors)
__CPROVER_assigns(g_hit)
ADAPTER_ENSURES;

void h_sa_lt(void) { struct SectorAddress x, y; SectorAddress_lt(&x, &y); }
void h_sa_eq(void) { struct SectorAddress x, y; SectorAddress_eq(&x, &y); }
void h_track_len(void) { struct PicTrack *t; PicTrack_track_len(t); }
static void h_all_256(void) { for (unsigned i = 0; i < FS_MAX; ++i) h_flux[i].data_n = 256; }
void h_hxc_read(void) { struct FluxAdapter *a; h_all_256(); g_k = nondet_size_t(); g_e = nondet_size_t(); opt_SectorBuffer r = HxcAdapter_read_block(a, nondet_ulong()); VERIF_COVER(r.has, "found"); VERIF_COVER(!r.has, "not found"); }
void h_hfe_find(void) { struct FluxAdapter *a; g_e = nondet_size_t(); HfeAdapter_find_sector(a, &h_want); }
void h_hfe_read(void) { struct FluxAdapter *a; h_all_256(); g_k = nondet_size_t(); g_e = nondet_size_t(); opt_SectorBuffer r = HfeAdapter_read_block(a, nondet_ulong()); VERIF_COVER(r.has && a->side_ == 1, "side 1 sector found"); }
