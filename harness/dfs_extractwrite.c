/* Proof harness: the host-file write path of extract-files (cmd_extract_files.cc).  C11: "If any write of a command's
 * output fails - ... or a host file being created by extract-files ... - dfs exits with non-zero status and reports the
 * failure on standard error." */
#include "dfs_types.h"
static void mon_read_block(struct DataAccess *obj, unsigned long lba) { (void)obj; (void)lba; }
static void mon_read_result(struct DataAccess *obj, _Bool ok) { (void)obj; (void)ok; }
/* std::ofstream model: open may fail (failbit); every write may fail (badbit); close() may fail (failbit: [fstream] "calls
   setstate(failbit)" when the filebuf's close -- the final flush -- fails); the bits are sticky; buffered data is only
   known to be accepted once close() has returned with the stream still good.  `bad` = failbit or badbit (what operator!
   and fail() test); `badbit` = what bad() tests */
static struct { _Bool is_open, bad, badbit, closed; unsigned long bytes; } ofs_obj;
#define ofs_t __typeof__(ofs_obj)
static void ofs_open(ofs_t *o) { o->closed = 0; o->bytes = 0; o->badbit = 0; if (nondet_bool()) { o->is_open = 0; o->bad = 1; } else { o->is_open = 1; o->bad = 0; } }
static _Bool ofs_ok(ofs_t *o) { return !o->bad; }
static _Bool ofs_badbit(ofs_t *o) { return o->badbit; }
static void ofs_write_n(ofs_t *o, const byte *p, size_t n)
{
  (void)p;
  __CPROVER_assert(!o->closed, "write after close");
  if (o->bad) return;
  if (nondet_bool()) { o->bad = 1; o->badbit = 1; return; }
  o->bytes += n;
}
static void ofs_close(ofs_t *o) { o->closed = 1; if (!o->bad && nondet_bool()) o->bad = 1;  /* the final flush may fail */ }
static void crc_update_model(const byte *b, const byte *e) { (void)b; (void)e; }
static byte h_chunk[256];
/* entry.visit_file_body_piecewise(data, visitor): calls the visitor for each piece, stops at the first false (its contract
   is enforced under C01); with the visitor's contract below, it returns true iff no write failed */
static _Bool visit_body_model(void)
{
  if (nondet_bool()) { ofs_obj.bad = 1; ofs_obj.badbit = 1; }       /* some write of some piece failed: the visitor said false */
  return !ofs_obj.bad;
}
#include "extract_files_visitor.inc"
#include "extract_files_write_body.inc"

static bool extract_files_visitor(const byte *begin, const byte *end)
__CPROVER_requires(begin == h_chunk && end >= begin && end <= h_chunk + 256 && !ofs_obj.closed && g_diag < 1000)
__CPROVER_assigns(ofs_obj, g_diag)
/* the piece is written; true iff the stream is still good afterwards, otherwise a diagnostic */
__CPROVER_ensures(__CPROVER_return_value == !ofs_obj.bad)
__CPROVER_ensures(!__CPROVER_return_value ==> g_diag > __CPROVER_old(g_diag))
__CPROVER_ensures(__CPROVER_return_value ==> ofs_obj.bytes == __CPROVER_old(ofs_obj.bytes) + (unsigned long)(end - begin));

static bool extract_files_write_body(void)
__CPROVER_requires(g_diag < 1000)
__CPROVER_assigns(ofs_obj, g_diag)
/* C11: going on (and finally exit status 0) implies the file was opened, every write succeeded, and the stream was still
   good AFTER close() -- the final flush; otherwise failure with a diagnostic */
__CPROVER_ensures(__CPROVER_return_value ==> (ofs_obj.is_open && ofs_obj.closed && !ofs_obj.bad))
__CPROVER_ensures((!__CPROVER_return_value && !ofs_obj.is_open) ==> g_diag > __CPROVER_old(g_diag));

void h_visitor(void) { size_t n = nondet_size_t(); __CPROVER_assume(n <= 256); ofs_obj.closed = 0; ofs_obj.bad = nondet_bool(); ofs_obj.badbit = ofs_obj.bad && nondet_bool(); g_diag = 0; extract_files_visitor(h_chunk, h_chunk + n); }
void h_write_body(void)
{
  g_diag = 0;
  bool r = extract_files_write_body();
  VERIF_COVER(r, "file written");
  VERIF_COVER(!r && ofs_obj.is_open, "write failure reported");
}
