/* Proof harness: the catalogue header (dfs_catalog.cc): convert_title and the field decoding of the CatalogFragment
 * constructor.  C02: "`cat` shows the 12-character title, cycle number, boot option"; C14: "the catalogue's total sector
 * count". */
#include <limits.h>
#include "dfs_types.h"
static void mon_read_block(struct DataAccess *obj, unsigned long lba) { (void)obj; (void)lba; }
static void mon_read_result(struct DataAccess *obj, _Bool ok) { (void)obj; (void)ok; }
static size_t g_k;
#define SB_FRESH_(p) __CPROVER_is_fresh(p, sizeof(SectorBuffer))
enum { Format_HDFS, Format_DFS, Format_WDFS, Format_OpusDDOS };          /* dfs_format.h: enum class Format */
enum { BootSetting_None, BootSetting_Load, BootSetting_Run, BootSetting_Exec };   /* dfs_catalog.h: enum class BootSetting */
struct CatalogFragmentM { int disc_format_; byte sequence_number_; unsigned short position_of_last_catalog_entry_; int boot_; sector_count_type total_sectors_; };
#include "sector_count.inc"
#include "byte_to_ascii7.inc"
#include "convert_title.inc"
#include "CatalogFragment_ctor.inc"
static sector_count_type sector_count(long int x)
__CPROVER_requires(0 <= x && x <= (long)UINT_MAX) __CPROVER_assigns()
__CPROVER_ensures(__CPROVER_return_value == (sector_count_type)x);

/* the title: bytes 0-7 of sector 0 then bytes 0-3 of sector 1, 7-bit, up to the first NUL, trailing spaces removed */
#define TITLE_BYTE(s0, s1, i) ((i) < 8 ? (s0)->d[i] : (s1)->d[(i) - 8])
static struct cstr convert_title(const SectorBuffer *s0, const SectorBuffer *s1)
__CPROVER_requires(SB_FRESH_(s0) && SB_FRESH_(s1))
__CPROVER_assigns()
__CPROVER_ensures(__CPROVER_return_value.n <= 12)
__CPROVER_ensures(g_k < __CPROVER_return_value.n ==> (__CPROVER_return_value.d[g_k] == (char)(TITLE_BYTE(s0, s1, g_k) & 0x7F) && TITLE_BYTE(s0, s1, g_k) != 0))
__CPROVER_ensures(__CPROVER_return_value.n > 0 ==> __CPROVER_return_value.d[__CPROVER_return_value.n - 1] != ' ');

static void CatalogFragment_ctor(struct CatalogFragmentM *self, const SectorBuffer *names, const SectorBuffer *metadata)
__CPROVER_requires(__CPROVER_is_fresh(self, sizeof(*self)) && SB_FRESH_(names) && SB_FRESH_(metadata))
__CPROVER_requires(self->disc_format_ >= Format_HDFS && self->disc_format_ <= Format_OpusDDOS)
__CPROVER_assigns(self->sequence_number_, self->position_of_last_catalog_entry_, self->boot_, self->total_sectors_)
/* cycle number, end of the entry list, boot option (bits 4-5 of byte 6: 0 none, 1 load, 2 run, 3 exec) */
__CPROVER_ensures(self->sequence_number_ == metadata->d[4] && self->position_of_last_catalog_entry_ == metadata->d[5])
__CPROVER_ensures(self->boot_ == ((metadata->d[6] >> 4) & 3))
/* total sectors: byte 7 + bits 0-1 of byte 6; on Watford DFS bit 2 of byte 6 is bit 10 (large discs) -- the count that
   identify.cc's get_dfs_sector_count uses to choose the geometry (HDFS: not constrained here) */
__CPROVER_ensures((self->disc_format_ == Format_DFS || self->disc_format_ == Format_OpusDDOS) ==>
                  self->total_sectors_ == ((unsigned)metadata->d[7] | (((unsigned)metadata->d[6] & 3u) << 8)))
__CPROVER_ensures(self->disc_format_ == Format_WDFS ==>
                  self->total_sectors_ == ((unsigned)metadata->d[7] | (((unsigned)metadata->d[6] & 7u) << 8)));

/* ---- CatalogFragment::valid, header part.  The entry list ends on an entry boundary inside the sector (at most 31 entries);
   a catalogue that shares the volume with the data (Acorn, Watford, HDFS) must describe more sectors than the catalogue
   itself takes; an Opus DDOS volume (catalogue in track 0, data elsewhere) is at least one track = 18 sectors ("The minimum
   size of a volume is 1 track", dfs_catalog.cc) -- so a one-track volume IS valid.  Every refusal sets the error text. ---- */
static unsigned g_errors;
static void error_set(void) { if (g_errors < 1000) g_errors++; }
#include "catalog_sectors_for_format.inc"
#include "data_sectors_reserved_for_catalog.inc"
#include "CatalogFragment_valid_head.inc"
static sector_count_type catalog_sectors_for_format(int f)
__CPROVER_assigns() __CPROVER_ensures(__CPROVER_return_value == (f == Format_WDFS ? 4u : 2u));
static sector_count_type data_sectors_reserved_for_catalog(int f)
__CPROVER_assigns() __CPROVER_ensures(__CPROVER_return_value == (f == Format_OpusDDOS ? 0u : f == Format_WDFS ? 4u : 2u));
#define HEAD_OK_(self) ((self)->position_of_last_catalog_entry_ % 8 == 0 && (self)->position_of_last_catalog_entry_ <= 31 * 8 && \
                        ((self)->disc_format_ == Format_OpusDDOS ? (self)->total_sectors_ >= 18 \
                                                                 : (self)->total_sectors_ > ((self)->disc_format_ == Format_WDFS ? 4u : 2u)))
static bool CatalogFragment_valid_head(const struct CatalogFragmentM *self, _Bool *go_on)
__CPROVER_requires(__CPROVER_is_fresh(self, sizeof(*self)) && __CPROVER_is_fresh(go_on, sizeof(*go_on)) && !*go_on && g_errors == 0)
__CPROVER_requires(self->disc_format_ >= Format_HDFS && self->disc_format_ <= Format_OpusDDOS)
__CPROVER_assigns(*go_on, g_errors)
__CPROVER_ensures(*go_on == HEAD_OK_(self))
__CPROVER_ensures(!*go_on ==> (!__CPROVER_return_value && g_errors == 1))
__CPROVER_ensures(*go_on ==> g_errors == 0);
void h_valid_head(void) { const struct CatalogFragmentM *f; _Bool *g; g_errors = 0; CatalogFragment_valid_head(f, g); }
/* ---- CatalogFragment::valid, the entry loop: the files must not overlap and (all but the first non-empty one, see below) must end
   inside the volume.  Entries are listed from the end of the disc towards its start; empty files occupy nothing and are
   skipped.  Specification tables built by the harness over the 31 entry slots:
     h_lastne[k]  index of the last non-empty entry among 1..k (0: none)
     h_okupto[k]  every non-empty entry j <= k that has a non-empty predecessor p = h_lastne[j-1] satisfies
                  last(j) < total sectors  and  last(j) < start(p)
   valid's loop accepts exactly when h_okupto holds for the whole list.  Taken from the code, not from a property: the FIRST
   non-empty entry is not compared with the volume's size (observation recorded in DESIGN.md). ---- */
struct EntryM { unsigned long len; sector_count_type start, last; };
struct opt_sc_ { _Bool has; sector_count_type val; };
static struct EntryM h_ent[32];
static unsigned char h_lastne[32];
static _Bool h_okupto[32];
static sector_count_type h_total;
static void h_fill_valid_tables(void)
{
  unsigned k;
  h_lastne[0] = 0; h_okupto[0] = 1;
  for (k = 1; k < 32; ++k)
    {
      const unsigned p = h_lastne[k - 1];
      const _Bool nonempty = h_ent[k].len != 0;
      h_okupto[k] = h_okupto[k - 1] && (!(nonempty && p != 0) || (h_ent[k].last < h_total && h_ent[k].last < h_ent[p].start));
      h_lastne[k] = nonempty ? (unsigned char)k : (unsigned char)p;
    }
}
static const struct EntryM *get_entry_model(unsigned pos)
{
  __CPROVER_assert(pos % 8 == 0 && pos >= 8 && pos <= 31 * 8, "C07: get_entry_at_offset is asked for an entry inside the catalogue sector");
  return &h_ent[(pos / 8) & 31];
}
#define VALID_LOOP_CONTRACT \
  __CPROVER_assigns(pos, last_file_start) \
  __CPROVER_loop_invariant(pos % 8 == 0 && pos >= 8 && pos <= last + 8 && g_errors == 0 && h_okupto[(pos / 8 - 1) & 31]) \
  __CPROVER_loop_invariant(last_file_start.has == (h_lastne[(pos / 8 - 1) & 31] != 0) && (last_file_start.has ==> last_file_start.val == h_ent[h_lastne[(pos / 8 - 1) & 31] & 31].start)) \
  __CPROVER_decreases(last + 8 - pos)
#include "CatalogFragment_valid_loop.inc"
static bool CatalogFragment_valid_loop(const struct CatalogFragmentM *self, unsigned short last)
__CPROVER_requires(__CPROVER_is_fresh(self, sizeof(*self)) && last % 8 == 0 && last <= 31 * 8 && g_errors == 0 && self->total_sectors_ == h_total)
__CPROVER_requires(h_lastne[0] == 0 && h_okupto[0])                 /* the tables were filled by the harness */
__CPROVER_assigns(g_errors)
__CPROVER_ensures(__CPROVER_return_value == h_okupto[(last / 8) & 31])
__CPROVER_ensures(g_errors == (__CPROVER_return_value ? 0 : 1));
void h_valid_loop(void)
{
  const struct CatalogFragmentM *f;
  g_errors = 0; h_fill_valid_tables();
  CatalogFragment_valid_loop(f, (unsigned short)nondet_uint());
}
void h_title(void) { const SectorBuffer *a, *b; g_k = nondet_size_t(); __CPROVER_assume(g_k < 12); convert_title(a, b); }
void h_fragment(void) { struct CatalogFragmentM *f; const SectorBuffer *a, *b; CatalogFragment_ctor(f, a, b); }
