/* Proof harness: check_track_is_supported (track.cc). */
#include "dfs_types.h"
static void mon_read_block(struct DataAccess *obj, unsigned long lba) { (void)obj; (void)lba; }
static void mon_read_result(struct DataAccess *obj, _Bool ok) { (void)obj; (void)ok; }
#define TS_MAX 64
static struct TrackSector h_sectors[TS_MAX];
static unsigned long g_diag;
static size_t g_k;
static size_t g_tc_witness;       /* index of the sector a refusal is about (set where the code builds its error text) */
#define ADDR_LT(a, b) ((a).cylinder < (b).cylinder || ((a).cylinder == (b).cylinder && ((a).head < (b).head || ((a).head == (b).head && (a).record < (b).record))))
#define TRACKCHECK_LOOP_CONTRACT \
  __CPROVER_assigns(si_, prev_rec_num, g_diag, g_tc_witness) \
  __CPROVER_loop_invariant(si_ <= track_sectors_n && g_diag == __CPROVER_loop_entry(g_diag)) \
  __CPROVER_loop_invariant(prev_rec_num.has == (si_ > 0) && (si_ > 0 ==> prev_rec_num.val == h_sectors[si_ - 1].address.record)) \
  __CPROVER_loop_invariant((g_k < si_) ==> (h_sectors[g_k].address.head == side && h_sectors[g_k].address.cylinder == track && h_sectors[g_k].data_n == sector_bytes)) \
  __CPROVER_loop_invariant((g_k < TS_MAX && g_k + 1 < si_) ==> (h_sectors[g_k + 1].address.record == h_sectors[g_k].address.record + 1)) \
  __CPROVER_decreases(track_sectors_n - si_)
#include "check_track_is_supported.inc"

/* C06 (iii) / C07: accepted only if every sector belongs to this track and side, record numbers increase by
   exactly one (no duplicates, no holes), and every sector has exactly sector_bytes bytes of data (the flux adapters
   copy sector data into a 256-byte buffer relying on this) */
static bool check_track_is_supported(const struct TrackSector *track_sectors, size_t track_sectors_n, unsigned int track, unsigned int side, unsigned int sector_bytes)
__CPROVER_requires(track_sectors == h_sectors && track_sectors_n <= TS_MAX && g_diag < 1000)
/* the callers sort the sectors by address first (the function asserts std::is_sorted) */
__CPROVER_requires((g_k < TS_MAX && g_k + 1 < track_sectors_n) ==> !ADDR_LT(h_sectors[g_k + 1].address, h_sectors[g_k].address))
__CPROVER_assigns(g_diag, g_tc_witness)
__CPROVER_ensures(__CPROVER_return_value ==> ((g_k < track_sectors_n) ==> (h_sectors[g_k].address.head == side && h_sectors[g_k].address.cylinder == track &&
                                                                            h_sectors[g_k].data_n == sector_bytes)))
__CPROVER_ensures(__CPROVER_return_value ==> ((g_k < TS_MAX && g_k + 1 < track_sectors_n) ==> h_sectors[g_k + 1].address.record == h_sectors[g_k].address.record + 1))
__CPROVER_ensures(!__CPROVER_return_value ==> g_diag > __CPROVER_old(g_diag))
/* ... and refused ONLY for such a reason (C05: a track whose sectors all belong to it, are 256 bytes long and are numbered
   consecutively -- whatever their physical order was, they arrive sorted -- is accepted): the refusal names a sector that is
   on the wrong side or track, has the wrong size, or does not follow its predecessor's record number by one */
#define W_ g_tc_witness
__CPROVER_ensures(!__CPROVER_return_value ==>
                  (W_ < track_sectors_n && W_ < TS_MAX &&
                   (h_sectors[W_].address.head != side || h_sectors[W_].address.cylinder != track || h_sectors[W_].data_n != sector_bytes ||
                    (W_ > 0 && h_sectors[W_].address.record != h_sectors[W_ - 1].address.record + 1))));

void h_trackcheck(void)
{
  g_k = nondet_size_t(); g_diag = nondet_ulong();
  bool r = check_track_is_supported(h_sectors, nondet_size_t(), nondet_uint(), nondet_uint(), 256);
  VERIF_COVER(r, "track accepted");
  VERIF_COVER(!r, "track rejected");
}
