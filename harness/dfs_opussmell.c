/* Proof harness: the decision structure of smells_like_opus_ddos (identify.cc).  C13: "Opus DDOS only when sector 16 holds a
 * self-consistent volume table".  The pieces it relies on have their own contracts: the OpusDiscCatalogue constructor
 * (harness/dfs_opus.c: what is taken from sector 16, the volume extents), Volume::Volume (dfs_volctor.c) and
 * CatalogFragment::valid (dfs_fragment.c); here they are recording models, and the contract says how the verdict is made of
 * their answers. */
#include <limits.h>
#include "dfs_types.h"
static struct DataAccess h_media;
#define LOCS_MAX 8
static struct VolumeLocation h_locs[LOCS_MAX];
/* what happened, as recorded by the models */
static struct {
  unsigned reads; unsigned long lba0, lba1; _Bool ok0, ok1; byte s16_1, s16_2, s16_3; const SectorBuffer *s16_seen;
  unsigned ctor_calls; _Bool ctor_ok; size_t n;
  unsigned valid_calls; _Bool all_valid, args_ok;
  unsigned eliminated;
} OS;
static void mon_read_block(struct DataAccess *obj, unsigned long lba)
{
  __CPROVER_assert(obj == &h_media, "C17: only the medium being probed is read");
  if (OS.reads == 0) OS.lba0 = lba; else OS.lba1 = lba;
}
static void mon_read_result(struct DataAccess *obj, _Bool ok)
{
  (void)obj;
  if (OS.reads == 0) { OS.ok0 = ok; OS.s16_1 = g_rb_last_buf.d[1]; OS.s16_2 = g_rb_last_buf.d[2]; OS.s16_3 = g_rb_last_buf.d[3]; } else OS.ok1 = ok;
  if (OS.reads < 1000) OS.reads++;
}
static void eliminated_model(void) { if (OS.eliminated < 1000) OS.eliminated++; }
/* OpusDiscCatalogue(sector16, nullopt) + get_volume_locations(): raises BadFileSystem or delivers up to 8 volumes, each starting
   at (first track >= 1) x (sectors per track = byte 3 of sector 16) -- contracts opus_ctor_head / opus_volume_table / extents */
static size_t opus_catalogue_model(const SectorBuffer *sector16)
{
  size_t n = nondet_size_t();
  OS.ctor_calls++; OS.s16_seen = sector16;
  __CPROVER_assert(sector16->d[1] == OS.s16_1 && sector16->d[2] == OS.s16_2 && sector16->d[3] == OS.s16_3, "C13: the volume table is taken from the sector 16 that was read");
  OS.ctor_ok = nondet_bool();
  if (!OS.ctor_ok) { g_exc = EXC_BadFileSystem; OS.n = 0; return 0; }
  __CPROVER_assume(n <= LOCS_MAX);
#define FILL_(k) do { h_locs[k].catalog_location_ = nondet_int(); h_locs[k].start_sector_ = nondet_ulong(); h_locs[k].len_ = nondet_ulong(); h_locs[k].volume_ = nondet_char(); \
                      __CPROVER_assume(h_locs[k].start_sector_ >= sector16->d[3] && h_locs[k].start_sector_ <= 255ul * 255ul); } while (0)
  FILL_(0); FILL_(1); FILL_(2); FILL_(3); FILL_(4); FILL_(5); FILL_(6); FILL_(7);
  OS.n = n;
  return n;
}
/* Volume(OpusDDOS, catalog_location, start, len, media).root().valid(error) */
static _Bool volume_root_valid_model(int cat, unsigned long start, unsigned long len, struct DataAccess *media)
{
  const unsigned k = OS.valid_calls;
  _Bool ok = nondet_bool();
  if (!(k < LOCS_MAX && k < OS.n && media == &h_media && cat == h_locs[k < LOCS_MAX ? k : 0].catalog_location_ &&
        start == h_locs[k < LOCS_MAX ? k : 0].start_sector_ && len == h_locs[k < LOCS_MAX ? k : 0].len_))
    OS.args_ok = 0;
  if (!ok) OS.all_valid = 0;
  if (OS.valid_calls < 1000) OS.valid_calls++;
  return ok;
}
#define OPUS_SMELL_LOOP_CONTRACT \
  __CPROVER_assigns(li_, OS.valid_calls, OS.all_valid, OS.args_ok) \
  __CPROVER_loop_invariant(li_ <= locations_n && OS.valid_calls == li_ && OS.all_valid && OS.args_ok) \
  __CPROVER_decreases(locations_n - li_)
#include "sector_count.inc"
#include "smells_like_opus_ddos.inc"

static sector_count_type sector_count(long int x)
__CPROVER_requires(0 <= x && x <= (long)UINT_MAX) __CPROVER_assigns()
__CPROVER_ensures(__CPROVER_return_value == (sector_count_type)x);

#define TOTAL_ ((unsigned)((OS.s16_1 << 8) | OS.s16_2))
static bool smells_like_opus_ddos(struct DataAccess *media, sector_count_type *sectors)
__CPROVER_requires(media == &h_media && __CPROVER_is_fresh(sectors, sizeof(*sectors)) && g_exc == EXC_NONE)
__CPROVER_requires(OS.reads == 0 && OS.ctor_calls == 0 && OS.valid_calls == 0 && OS.all_valid && OS.args_ok && OS.eliminated == 0 && OS.n == 0)
__CPROVER_assigns(*sectors, OS, g_exc, g_rb_calls, g_rb_last_lba, g_rb_last_obj, g_rb_last_buf, g_rb_last_ok, __CPROVER_object_whole(h_locs))
__CPROVER_ensures(g_exc == EXC_NONE)
/* the first thing read is sector 16 */
__CPROVER_ensures(OS.reads >= 1 && OS.lba0 == 16)
/* Opus DDOS exactly when: sector 16 is there, says 18 sectors per track, yields a volume table the constructor accepts, lists at
   least one volume, every listed volume's catalogue is valid, and the total sector count is 630, 720 or 1440 with the last of
   those sectors readable */
__CPROVER_ensures(__CPROVER_return_value ==
                  (OS.ok0 && OS.s16_3 == 18 && OS.ctor_calls == 1 && OS.ctor_ok && OS.n >= 1 && OS.valid_calls == OS.n && OS.all_valid &&
                   (TOTAL_ == 630 || TOTAL_ == 720 || TOTAL_ == 1440) && OS.reads == 2 && OS.lba1 == TOTAL_ - 1 && OS.ok1))
/* each listed volume is validated once, in order, with its own catalogue location and extent */
__CPROVER_ensures(OS.args_ok && OS.valid_calls <= OS.n)
/* the sector count handed back is the one in sector 16; a refusal is explained (once) */
__CPROVER_ensures(__CPROVER_return_value ==> (*sectors == TOTAL_ && OS.eliminated == 0))
__CPROVER_ensures(!__CPROVER_return_value ==> OS.eliminated == 1);

void h_opus_smell(void)
{
  sector_count_type *s;
  g_exc = EXC_NONE; OS.reads = 0; OS.ctor_calls = 0; OS.valid_calls = 0; OS.all_valid = 1; OS.args_ok = 1; OS.eliminated = 0; OS.n = 0;
  bool r = smells_like_opus_ddos(&h_media, s);
  VERIF_COVER(r && OS.n == 8, "an Opus disc with eight volumes");
  VERIF_COVER(!r && OS.valid_calls == 3, "third volume's catalogue invalid");
}
