/* Proof harness: dump-sector (cmd_dump.cc): the argument check get_arg and the sector address computation (C04: the
 * sector shown for (track t, sector s) is logical sector t*S + s of the surface; anything that is not a track / sector
 * number of the geometry is refused). */
#include "dfs_types.h"
static void mon_read_block(struct DataAccess *obj, unsigned long lba) { (void)obj; (void)lba; }
static void mon_read_result(struct DataAccess *obj, _Bool ok) { (void)obj; (void)ok; }
struct opt_long { _Bool has; long val; };
struct argstr { size_t n; };            /* a std::string argument: only its size() matters here */
/* std::stol(str, &end, 10): value and number of characters consumed; throws std::invalid_argument when no conversion
   can be performed and std::out_of_range when the value does not fit (trusted: [string.conversions]) */
static struct { long value; size_t end; _Bool out_of_range, invalid; } STOL;
static _Bool g_stol_out_of_range;
static long stol_model(const struct argstr *s, size_t *end, int base)
{
  __CPROVER_assert(base == 10, "C04: track and sector numbers are read as decimal (std::stol base 10)");
  __CPROVER_assume(STOL.end <= s->n && STOL.invalid == (STOL.end == 0));
  g_stol_out_of_range = 0;
  if (STOL.invalid) { VERIF_THROW(Other, 0); return 0; }             /* std::invalid_argument, by value */
  if (STOL.out_of_range) { g_stol_out_of_range = 1; return 0; }
  *end = STOL.end;
  return STOL.value;
}
#include "dump_get_arg.inc"
#include "dump_sector_addr.inc"

static struct opt_long dump_get_arg(const struct argstr *the_arg, const long int upper_limit)
__CPROVER_requires(__CPROVER_is_fresh(the_arg, sizeof(*the_arg)) && g_exc == EXC_NONE && !g_exc_by_pointer && g_diag < 1000)
__CPROVER_assigns(g_exc, g_exc_by_pointer, g_diag, g_stol_out_of_range)
/* accepted: the whole argument is a decimal number between 0 and the limit, and that number is returned */
__CPROVER_ensures(__CPROVER_return_value.has ==>
                  (g_exc == EXC_NONE && !STOL.invalid && !STOL.out_of_range && STOL.end == the_arg->n &&
                   STOL.value >= 0 && STOL.value <= upper_limit && __CPROVER_return_value.val == STOL.value))
/* such an argument is accepted */
__CPROVER_ensures((!STOL.invalid && !STOL.out_of_range && STOL.end == the_arg->n && STOL.value >= 0 && STOL.value <= upper_limit) ==> __CPROVER_return_value.has)
/* a refusal comes with a diagnostic or an exception thrown by value */
__CPROVER_ensures(!__CPROVER_return_value.has ==> (g_diag > __CPROVER_old(g_diag) || g_exc != EXC_NONE))
__CPROVER_ensures(!g_exc_by_pointer);

static sector_count_type dump_sector_addr(struct opt_long track, struct opt_long sector, const struct Geometry *geom_)
__CPROVER_requires(__CPROVER_is_fresh(geom_, sizeof(*geom_)) && geom_->cylinders >= 1 && geom_->cylinders <= 80 && geom_->sectors >= 1 && geom_->sectors <= 18)
/* what get_arg guarantees for its two results */
__CPROVER_requires(track.has && sector.has && track.val >= 0 && track.val <= geom_->cylinders - 1 && sector.val >= 0 && sector.val <= (long)(geom_->sectors - 1))
__CPROVER_assigns()
__CPROVER_ensures(__CPROVER_return_value == (sector_count_type)track.val * geom_->sectors + (sector_count_type)sector.val)
__CPROVER_ensures(__CPROVER_return_value < (sector_count_type)geom_->cylinders * geom_->sectors);

/* ---- the limits dump-sector checks its arguments against: the track (argument 2) against cylinders - 1, the sector (argument 3)
   against sectors-per-track - 1; either refusal ends the command ---- */
static struct { unsigned calls; int arg0, arg1; long lim0, lim1; struct opt_long r0, r1; } GA;
static struct opt_long get_arg_v(int argno, long upper_limit)
{
  struct opt_long r; r.has = nondet_bool(); r.val = nondet_long();
  if (GA.calls == 0) { GA.arg0 = argno; GA.lim0 = upper_limit; GA.r0 = r; } else { GA.arg1 = argno; GA.lim1 = upper_limit; GA.r1 = r; }
  if (GA.calls < 100) GA.calls++;
  return r;
}
#include "dump_sector_limits.inc"
static bool dump_sector_limits(const struct Geometry *geom_, struct opt_long *track_out, struct opt_long *sector_out)
__CPROVER_requires(__CPROVER_is_fresh(geom_, sizeof(*geom_)) && __CPROVER_is_fresh(track_out, sizeof(*track_out)) && __CPROVER_is_fresh(sector_out, sizeof(*sector_out)))
__CPROVER_requires(geom_->cylinders >= 1 && geom_->cylinders <= 80 && geom_->sectors >= 1 && geom_->sectors <= 18 && GA.calls == 0)
__CPROVER_assigns(*track_out, *sector_out, GA)
__CPROVER_ensures(GA.calls >= 1 && GA.arg0 == 2 && GA.lim0 == (long)geom_->cylinders - 1)
__CPROVER_ensures(GA.calls == (GA.r0.has ? 2 : 1))
__CPROVER_ensures(GA.calls == 2 ==> (GA.arg1 == 3 && GA.lim1 == (long)geom_->sectors - 1))
__CPROVER_ensures(__CPROVER_return_value == (GA.r0.has && GA.calls == 2 && GA.r1.has))
__CPROVER_ensures(__CPROVER_return_value ==> (track_out->has && track_out->val == GA.r0.val && sector_out->has && sector_out->val == GA.r1.val));
void h_dump_limits(void) { const struct Geometry *g; struct opt_long *t, *s; GA.calls = 0; dump_sector_limits(g, t, s); }
void h_get_arg(void)
{
  struct argstr *a;
  struct opt_long r;
  g_exc = EXC_NONE; g_exc_by_pointer = 0; g_diag = 0;
  r = dump_get_arg(a, nondet_long());
  VERIF_COVER(r.has && r.val == 9, "accepted 9");
  VERIF_COVER(!r.has && g_exc == EXC_NONE, "refused with a diagnostic");
}
void h_sector_addr(void)
{
  struct opt_long t, s; struct Geometry *g;
  t.has = nondet_bool(); t.val = nondet_long(); s.has = nondet_bool(); s.val = nondet_long();
  dump_sector_addr(t, s, g);
}
