/* Proof harnesses for the probes of identify.cc. */
#include "dfs_types.h"
static struct DataAccess h_media;
static size_t g_k;
static unsigned g_e;               /* ghost catalogue entry index */
static unsigned g_witness_pos;     /* set where the code reports "sector 2 is in use by a file" */
static void mon_read_block(struct DataAccess *obj, unsigned long lba) { (void)obj; (void)lba; }
static void mon_read_result(struct DataAccess *obj, _Bool ok) { (void)obj; (void)ok; }
#define ENTRY_START10_(buf, e) ((unsigned)(buf)->d[8 * (e) + 8 + 7] | (((unsigned)(buf)->d[8 * (e) + 8 + 6] & 3u) << 8))
#define WATFORD_LOOP_CONTRACT \
  __CPROVER_assigns(pos) \
  __CPROVER_loop_invariant(pos >= 8 && pos % 8 == 0 && pos <= (unsigned)last_catalog_entry_pos + 8) \
  __CPROVER_loop_invariant((8 * g_e + 8 < pos && g_e < 31) ==> ENTRY_START10_(buf1, g_e) != 2) \
  __CPROVER_decreases((unsigned)last_catalog_entry_pos + 8 - pos)
#include "smells_like_hdfs.inc"
#include "get_dfs_sector_count.inc"
#include "get_hdfs_sector_count.inc"
#include "smells_like_watford.inc"
#include "dfs_identify.h"

void h_hdfs(void) { const SectorBuffer *s; smells_like_hdfs(s); }
void h_dfs_count(void) { const SectorBuffer *s; get_dfs_sector_count(s); }
void h_hdfs_count(void) { const SectorBuffer *s; get_hdfs_sector_count(s); }
void h_watford(void)
{
  const SectorBuffer *b;
  g_k = nondet_size_t(); g_e = nondet_uint(); g_rb_calls = nondet_ulong() & 0xFFFF;
  bool r = smells_like_watford(&h_media, b);
  VERIF_COVER(r, "watford");
  VERIF_COVER(!r && g_rb_calls == 0, "file in sector 2");
}
