/* Proof harnesses for the probes of identify.cc. */
#include "dfs_types.h"
static struct DataAccess h_media;
static size_t g_k;
static unsigned g_e;               /* ghost catalogue entry index */
static unsigned g_witness_pos;     /* set where the code reports "sector 2 is in use by a file" */
static void mon_read_block(struct DataAccess *obj, unsigned long lba) { (void)obj; (void)lba; }
static void mon_read_result(struct DataAccess *obj, _Bool ok) { (void)obj; (void)ok; }
#define ENTRY_START10_(buf, e) ((unsigned)(buf)->d[8 * (e) + 8 + 7] | (((unsigned)(buf)->d[8 * (e) + 8 + 6] & 3u) << 8))
#define WATFORD_LOOP_CONTRACT \
  __CPROVER_assigns(pos) \
  __CPROVER_loop_invariant(pos >= 8 && pos % 8 == 0 && pos <= (unsigned)last_catalog_entry_pos + 8) \
  __CPROVER_loop_invariant((8 * g_e + 8 < pos && g_e < 31) ==> ENTRY_START10_(buf1, g_e) != 2) \
  __CPROVER_decreases((unsigned)last_catalog_entry_pos + 8 - pos)
#include "smells_like_hdfs.inc"
#include "get_dfs_sector_count.inc"
#include "get_hdfs_sector_count.inc"
#include "smells_like_watford.inc"
#include "dfs_identify.h"

void h_hdfs(void) { const SectorBuffer *s; smells_like_hdfs(s); }
void h_dfs_count(void) { const SectorBuffer *s; get_dfs_sector_count(s); }
void h_hdfs_count(void) { const SectorBuffer *s; get_hdfs_sector_count(s); }
void h_watford(void)
{
  const SectorBuffer *b;
  g_k = nondet_size_t(); g_e = nondet_uint(); g_rb_calls = nondet_ulong() & 0xFFFF;
  bool r = smells_like_watford(&h_media, b);
  VERIF_COVER(r, "watford");
  VERIF_COVER(!r && g_rb_calls == 0, "file in sector 2");
}


/* ---- probe order (C13) -------------------------------------------------------------------------------------------- */
enum { Format_HDFS, Format_DFS, Format_WDFS, Format_OpusDDOS };          /* dfs_format.h: enum class Format */
struct opt_format_count { _Bool has; int fmt; sector_count_type count; };
/* Every probe is called through a wrapper that records that it was called and what it answered -- at the level of
   probe_format (PFp) or, while smells_like_acorn_dfs runs, at its level (PFa).  The probes themselves are replaced by
   their contracts (hdfs, watford, acorn) or are unconstrained models (the Opus DDOS volume table and catalogue validity
   are outside the verified set), so the postconditions below speak about the recorded answers. */
static struct { _Bool hdfs_called, hdfs, watford_called, watford, opus_called, opus, acorn_called, acorn; sector_count_type opus_sectors; SectorBuffer sec1; } PFp;
static struct { _Bool watford_called, watford, opus_called, opus, valid_called, valid; } PFa;
static _Bool PF_in_acorn;
static _Bool PF_hdfs(const SectorBuffer *s) { PFp.hdfs_called = 1; PFp.sec1 = *s; PFp.hdfs = smells_like_hdfs(s); return PFp.hdfs; }   /* sector 1 as read */
static _Bool PF_watford(struct DataAccess *m, const SectorBuffer *s)
{
  _Bool r = smells_like_watford(m, s);
  if (PF_in_acorn) { PFa.watford_called = 1; PFa.watford = r; } else { PFp.watford_called = 1; PFp.watford = r; }
  return r;
}
static _Bool PF_opus(struct DataAccess *m, sector_count_type *n)
{
  _Bool r = nondet_bool(); sector_count_type k = nondet_uint();
  (void)m;
  if (r) *n = k;
  if (PF_in_acorn) { PFa.opus_called = 1; PFa.opus = r; } else { PFp.opus_called = 1; PFp.opus = r; PFp.opus_sectors = k; }
  return r;
}
static _Bool PF_valid_catalog(struct DataAccess *m, unsigned long where)
{ (void)m; __CPROVER_assert(where == 0, "C13: the Acorn catalogue is looked for at sector 0"); PFa.valid_called = 1; PFa.valid = nondet_bool(); return PFa.valid; }
#include "smells_like_acorn_dfs.inc"
static _Bool PF_acorn(struct DataAccess *m, const SectorBuffer *s)
{
  _Bool r;
  PF_in_acorn = 1; PFa.watford_called = 0; PFa.opus_called = 0; PFa.valid_called = 0;
  r = smells_like_acorn_dfs(m, s);
  PF_in_acorn = 0; PFp.acorn_called = 1; PFp.acorn = r;
  return r;
}
#include "probe_format.inc"

/* Acorn DFS only if: not the HDFS flag bit, not Watford, no Opus DDOS volume table, and a valid catalogue at sector 0 */
static bool smells_like_acorn_dfs(struct DataAccess *media, const SectorBuffer *sec1)
__CPROVER_requires(SB_FRESH(sec1) && media == &h_media && PF_in_acorn && !PFa.watford_called && !PFa.opus_called && !PFa.valid_called)
__CPROVER_assigns(PFa, g_rb_calls, g_rb_last_lba, g_rb_last_obj, g_rb_last_buf, g_rb_last_ok, g_allof_result, g_witness_pos)
__CPROVER_ensures(__CPROVER_return_value ==
                  ((sec1->d[6] & 8) == 0 && PFa.watford_called && !PFa.watford && PFa.opus_called && !PFa.opus && PFa.valid_called && PFa.valid))
/* nothing more is asked once the answer is known */
__CPROVER_ensures(((sec1->d[6] & 8) != 0) ==> (!PFa.watford_called && !PFa.opus_called && !PFa.valid_called))
__CPROVER_ensures((PFa.watford_called && PFa.watford) ==> (!PFa.opus_called && !PFa.valid_called));

static struct opt_format_count probe_format(struct DataAccess *access)
__CPROVER_requires(access == &h_media && !PF_in_acorn && !PFp.hdfs_called && !PFp.watford_called && !PFp.opus_called && !PFp.acorn_called && g_diag < 1000)
__CPROVER_assigns(PFp, PFa, PF_in_acorn, g_diag, g_rb_calls, g_rb_last_lba, g_rb_last_obj, g_rb_last_buf, g_rb_last_ok, g_allof_result, g_witness_pos)
/* C13: HDFS by its flag bit, else Watford by its marker, else Opus DDOS by its volume table, else Acorn DFS -- in that
   order, with the sector count that variant defines; otherwise no format and a diagnostic */
__CPROVER_ensures(__CPROVER_return_value.has ==> PFp.hdfs_called)
__CPROVER_ensures((PFp.hdfs_called && PFp.hdfs) ==> (__CPROVER_return_value.has && __CPROVER_return_value.fmt == Format_HDFS && !PFp.watford_called && !PFp.opus_called && !PFp.acorn_called))
__CPROVER_ensures((PFp.hdfs_called && !PFp.hdfs) ==> PFp.watford_called)
__CPROVER_ensures((PFp.watford_called && PFp.watford) ==> (__CPROVER_return_value.has && __CPROVER_return_value.fmt == Format_WDFS && !PFp.opus_called && !PFp.acorn_called))
__CPROVER_ensures((PFp.watford_called && !PFp.watford) ==> PFp.opus_called)
__CPROVER_ensures((PFp.opus_called && PFp.opus) ==> (__CPROVER_return_value.has && __CPROVER_return_value.fmt == Format_OpusDDOS && __CPROVER_return_value.count == PFp.opus_sectors && !PFp.acorn_called))
__CPROVER_ensures((PFp.opus_called && !PFp.opus) ==> PFp.acorn_called)
__CPROVER_ensures((PFp.acorn_called && PFp.acorn) ==> (__CPROVER_return_value.has && __CPROVER_return_value.fmt == Format_DFS))
__CPROVER_ensures((PFp.acorn_called && !PFp.acorn) ==> (!__CPROVER_return_value.has && g_diag > __CPROVER_old(g_diag)))
__CPROVER_ensures(!PFp.hdfs_called ==> (!__CPROVER_return_value.has && g_diag > __CPROVER_old(g_diag)))
/* the sector count each variant defines, from sector 1 as read: 10 bits + bit 2 of byte 6 (Acorn/Watford: 11 bits);
   HDFS: 10 bits per side, doubled when bit 2 of byte 6 says two sides */
#define PF_S1 (&PFp.sec1)
__CPROVER_ensures((__CPROVER_return_value.has && (__CPROVER_return_value.fmt == Format_DFS || __CPROVER_return_value.fmt == Format_WDFS)) ==>
                  __CPROVER_return_value.count == ((unsigned)PF_S1->d[7] | (((unsigned)PF_S1->d[6] & 7u) << 8)))
__CPROVER_ensures((__CPROVER_return_value.has && __CPROVER_return_value.fmt == Format_HDFS) ==>
                  __CPROVER_return_value.count == (((unsigned)PF_S1->d[7] | (((unsigned)PF_S1->d[6] & 3u) << 8)) << ((PF_S1->d[6] & 4) ? 1 : 0)));

void h_acorn(void)
{
  const SectorBuffer *b;
  g_k = nondet_size_t(); g_e = nondet_uint(); g_rb_calls = nondet_ulong() & 0xFFFF;
  PF_in_acorn = 1; PFa.watford_called = 0; PFa.opus_called = 0; PFa.valid_called = 0;
  smells_like_acorn_dfs(&h_media, b);
}
void h_probe_format(void)
{
  struct opt_format_count r;
  g_k = nondet_size_t(); g_e = nondet_uint(); g_rb_calls = nondet_ulong() & 0xFFFF; g_diag = 0;
  PF_in_acorn = 0; PFp.hdfs_called = 0; PFp.watford_called = 0; PFp.opus_called = 0; PFp.acorn_called = 0;
  r = probe_format(&h_media);
  VERIF_COVER(r.has && r.fmt == Format_WDFS, "Watford");
  VERIF_COVER(r.has && r.fmt == Format_DFS, "Acorn");
  VERIF_COVER(!r.has, "no format");
}
