/* Proof harness: Catalog::find_catalog_entry_for_name (dfs_catalog.cc): the catalogue fragments (one; two on a Watford 62-file
 * disc) are searched in order and the first fragment that knows the name answers.  C15/C01: a catalogued file is found whichever
 * fragment lists it -- also when an earlier fragment is empty.  (The search inside a fragment is std::find_if over has_name:
 * harness/dfs_names.c.) */
#include "dfs_types.h"
static void mon_read_block(struct DataAccess *obj, unsigned long lba) { (void)obj; (void)lba; }
static void mon_read_result(struct DataAccess *obj, _Bool ok) { (void)obj; (void)ok; }
struct opt_entry_ { _Bool has; int val; };
#define FRAGS_MAX 4
static unsigned short h_frag_last[FRAGS_MAX];      /* position_of_last_catalog_entry() of each fragment (0: the fragment is empty) */
static struct opt_entry_ h_frag_answer[FRAGS_MAX]; /* what each fragment answers for the name */
static struct { unsigned long calls; _Bool in_order; } CF;
static struct opt_entry_ fragment_find_model(size_t i)
{ if (i != CF.calls) CF.in_order = 0; if (CF.calls < 1000) CF.calls++; return h_frag_answer[i & 3]; }
#define CATFIND_LOOP_CONTRACT \
  __CPROVER_assigns(fi_, CF) \
  __CPROVER_loop_invariant(fi_ <= fragments_n && CF.calls == fi_ && CF.in_order) \
  __CPROVER_loop_invariant((fi_ > 0 ==> !h_frag_answer[0].has) && (fi_ > 1 ==> !h_frag_answer[1].has) && (fi_ > 2 ==> !h_frag_answer[2].has) && (fi_ > 3 ==> !h_frag_answer[3].has)) \
  __CPROVER_decreases(fragments_n - fi_)
#include "catalog_find_entry.inc"
#define FIRST_ (h_frag_answer[0].has ? 0 : (fragments_n > 1 && h_frag_answer[1].has) ? 1 : (fragments_n > 2 && h_frag_answer[2].has) ? 2 : (fragments_n > 3 && h_frag_answer[3].has) ? 3 : 4)
static struct opt_entry_ catalog_find_entry(size_t fragments_n)
__CPROVER_requires(fragments_n >= 1 && fragments_n <= FRAGS_MAX && CF.calls == 0 && CF.in_order)
__CPROVER_assigns(CF)
__CPROVER_ensures(CF.in_order)
/* found exactly when some fragment knows the name, and then it is the first such fragment's entry */
__CPROVER_ensures(__CPROVER_return_value.has == (FIRST_ < 4))
__CPROVER_ensures(__CPROVER_return_value.has ==> (__CPROVER_return_value.val == h_frag_answer[FIRST_ & 3].val && CF.calls == (unsigned long)FIRST_ + 1))
__CPROVER_ensures(!__CPROVER_return_value.has ==> CF.calls == fragments_n);
void h_catalog_find(void)
{
  CF.calls = 0; CF.in_order = 1;
  h_frag_answer[0].has = nondet_bool(); h_frag_answer[1].has = nondet_bool(); h_frag_answer[2].has = nondet_bool(); h_frag_answer[3].has = nondet_bool();
  catalog_find_entry(nondet_size_t());
}
