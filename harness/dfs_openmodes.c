/* Proof harness: how dfs opens image files (C12: "never alters an image"; "all other commands create no files").
 * The two places an image file is opened -- OsFile's std::ifstream member and the fopen() of the gzip reader -- must use
 * read-only modes: a mode with out / app / trunc (or "w", "a", "+") opens the image for writing and creates a missing one. */
#include "dfs_types.h"
static void mon_read_block(struct DataAccess *obj, unsigned long lba) { (void)obj; (void)lba; }
static void mon_read_result(struct DataAccess *obj, _Bool ok) { (void)obj; (void)ok; }
/* std::ios_base::openmode (libstdc++ bit values; only the distinction read-only / not matters) */
enum { IOS_app = 1, IOS_ate = 2, IOS_binary = 4, IOS_in = 8, IOS_out = 16, IOS_trunc = 32 };
static struct { unsigned calls; int mode; _Bool fopen_readonly; } OM;
static void ifstream_open_model(int mode) { OM.calls++; OM.mode = mode | IOS_in;   /* basic_ifstream adds in */ }
static void fopen_model(const char *mode)
{
  OM.calls++;
  OM.fopen_readonly = mode[0] == 'r' && (mode[1] == 0 || (mode[1] == 'b' && mode[2] == 0));
}
#include "OsFile_open.inc"
#include "gz_open_input.inc"
static void OsFile_open(void)
__CPROVER_requires(OM.calls == 0) __CPROVER_assigns(OM)
__CPROVER_ensures(OM.calls == 1 && (OM.mode & (IOS_out | IOS_app | IOS_trunc)) == 0);
static void gz_open_input(void)
__CPROVER_requires(OM.calls == 0) __CPROVER_assigns(OM)
__CPROVER_ensures(OM.calls == 1 && OM.fopen_readonly);
void h_osfile_open(void) { OM.calls = 0; OsFile_open(); }
void h_gz_open(void) { OM.calls = 0; gz_open_input(); }
