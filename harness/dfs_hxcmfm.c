/* Proof harnesses: HxC MFM header / track list parsing (img_hxcmfm.cc). */
#include <string.h>
#include "dfs_types.h"
static void mon_read_block(struct DataAccess *obj, unsigned long lba) { (void)obj; (void)lba; }
static void mon_read_result(struct DataAccess *obj, _Bool ok) { (void)obj; (void)ok; }
static unsigned long g_tm_entries, g_tm_max_size;
static struct TrackDataKey g_tm_last_key;       /* the key of the entry inserted last */
static void trackmap_insert(struct TrackDataKey k, struct TrackData td)
{
  g_tm_last_key = k;
  if (g_tm_entries < (1ul << 60)) g_tm_entries++;
  if (td.mfmtracksize > g_tm_max_size) g_tm_max_size = td.mfmtracksize;
}
#define max_track_bytes (1ul << 20)
#define TRACKLIST_LOOP_CONTRACT \
  __CPROVER_assigns(pos, g_tm_entries, g_tm_max_size, g_tm_last_key, g_exc, g_exc_by_pointer, __CPROVER_object_whole(g_dyn_store)) \
  __CPROVER_loop_invariant(pos >= 0x13 && pos <= g_flen + 11 + 0xFFFFFFFFul && g_exc == EXC_NONE && g_tm_max_size <= (1ul << 20)) \
  __CPROVER_loop_invariant(pos == self->header_.track_list_offset || g_tm_entries >= 1) \
  __CPROVER_decreases(g_flen + 22 + 0xFFFFFFFFul - pos)
#include "hxc_le_word.inc"
#include "hxc_le_quad.inc"
#include "hxc_read_and_verify_header.inc"
#include "hxc_get_track_metadata.inc"
#include "dfs_hxcmfm.h"

void h_le_word(void) { const byte *d; hxc_le_word(d); }
void h_le_quad(void) { const byte *d; hxc_le_quad(d); }
void h_header(void)
{
  static struct FileAccess f;
  g_flen = nondet_ulong(); g_diag = nondet_ulong();
  struct opt_HxcHeader r = hxc_read_and_verify_header(&f);
  VERIF_COVER(r.has, "header accepted");
  VERIF_COVER(!r.has && g_flen < 19, "short file rejected");
}
void h_track_metadata(void)
{
  struct HxcMfmFile *self;
  g_flen = nondet_ulong(); g_exc = EXC_NONE; g_tm_entries = 0; g_tm_max_size = 0;
  hxc_get_track_metadata(self);
  VERIF_COVER(g_exc == EXC_NONE && g_tm_entries == 3, "three entries then the terminating key");
  VERIF_COVER(g_exc != EXC_NONE, "truncated list");
}
