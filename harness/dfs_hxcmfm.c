/* Proof harnesses: HxC MFM header / track list parsing (img_hxcmfm.cc). */
#include <string.h>
#include "dfs_types.h"
static void mon_read_block(struct DataAccess *obj, unsigned long lba) { (void)obj; (void)lba; }
static void mon_read_result(struct DataAccess *obj, _Bool ok) { (void)obj; (void)ok; }
static unsigned long g_tm_entries, g_tm_max_size;
static struct TrackDataKey g_tm_last_key;       /* the key of the entry inserted last */
static void trackmap_insert(struct TrackDataKey k, struct TrackData td)
{
  g_tm_last_key = k;
  if (g_tm_entries < (1ul << 60)) g_tm_entries++;
  if (td.mfmtracksize > g_tm_max_size) g_tm_max_size = td.mfmtracksize;
}
#define max_track_bytes (1ul << 20)
#define TRACKLIST_LOOP_CONTRACT \
  __CPROVER_assigns(pos, g_tm_entries, g_tm_max_size, g_tm_last_key, g_exc, g_exc_by_pointer, __CPROVER_object_whole(g_dyn_store)) \
  __CPROVER_loop_invariant(pos >= 0x13 && pos <= g_flen + 11 + 0xFFFFFFFFul && g_exc == EXC_NONE && g_tm_max_size <= (1ul << 20)) \
  __CPROVER_loop_invariant(pos == self->header_.track_list_offset || g_tm_entries >= 1) \
  __CPROVER_decreases(g_flen + 22 + 0xFFFFFFFFul - pos)
#include "hxc_le_word.inc"
#include "hxc_le_quad.inc"
#include "hxc_read_and_verify_header.inc"
#include "hxc_get_track_metadata.inc"
#include "dfs_hxcmfm.h"

void h_le_word(void) { const byte *d; hxc_le_word(d); }
void h_le_quad(void) { const byte *d; hxc_le_quad(d); }
void h_header(void)
{
  static struct FileAccess f;
  g_flen = nondet_ulong(); g_diag = nondet_ulong();
  struct opt_HxcHeader r = hxc_read_and_verify_header(&f);
  VERIF_COVER(r.has, "header accepted");
  VERIF_COVER(!r.has && g_flen < 19, "short file rejected");
}
void h_track_metadata(void)
{
  struct HxcMfmFile *self;
  g_flen = nondet_ulong(); g_exc = EXC_NONE; g_tm_entries = 0; g_tm_max_size = 0;
  hxc_get_track_metadata(self);
  VERIF_COVER(g_exc == EXC_NONE && g_tm_entries == 3, "three entries then the terminating key");
  VERIF_COVER(g_exc != EXC_NONE, "truncated list");
}

/* ---- the HxcMfmFile constructor: which valid headers are supported, and one adapter per side.  C05: "HxC MFM ... one or two
   sides": a header with one or two sides (and the interface type the reader knows, 4) is accepted and kept; read_all_sectors is
   run for each side 0 .. sides-1, in order, and the adapter made from it is that side's. ---- */
static struct { unsigned long calls; _Bool in_order, same_side; } HS;
static void hxc_side_model(unsigned int read_side, unsigned int adapter_side)
{ if (read_side != HS.calls) HS.in_order = 0; if (read_side != adapter_side) HS.same_side = 0; if (HS.calls < 1000) HS.calls++; }
#define HXC_SIDE_LOOP_CONTRACT \
  __CPROVER_assigns(side, HS) \
  __CPROVER_loop_invariant(side <= header_.sides && HS.calls == side && HS.in_order && HS.same_side) \
  __CPROVER_decreases(header_.sides - side)      /* header_ is the extraction's member macro (self->header_) */
#include "hxc_check_supported.inc"
#include "hxc_side_loop.inc"
static void hxc_check_supported(const struct HxcHeader *header, struct HxcHeader *header_out)
__CPROVER_requires(__CPROVER_is_fresh(header, sizeof(*header)) && __CPROVER_is_fresh(header_out, sizeof(*header_out)) && g_exc == EXC_NONE && !g_exc_by_pointer)
__CPROVER_assigns(*header_out, g_exc, g_exc_by_pointer)
__CPROVER_ensures(!g_exc_by_pointer)
__CPROVER_ensures((g_exc == EXC_NONE) == (header->sides <= 2 && header->interface_type == 4))
__CPROVER_ensures(g_exc == EXC_NONE ==> (header_out->sides == header->sides && header_out->tracks == header->tracks && header_out->track_list_offset == header->track_list_offset &&
                                         header_out->interface_type == header->interface_type));
static void hxc_side_loop(const struct HxcMfmFile *self)
__CPROVER_requires(__CPROVER_is_fresh(self, sizeof(*self)) && self->header_.sides <= 2 && HS.calls == 0 && HS.in_order && HS.same_side)
__CPROVER_assigns(HS)
__CPROVER_ensures(HS.calls == self->header_.sides && HS.in_order && HS.same_side);
void h_check_supported(void) { const struct HxcHeader *h; struct HxcHeader *o; g_exc = EXC_NONE; g_exc_by_pointer = 0; hxc_check_supported(h, o); }
void h_side_loop(void) { const struct HxcMfmFile *f; HS.calls = 0; HS.in_order = 1; HS.same_side = 1; hxc_side_loop(f); }

/* ---- compute_geometry: the geometry of one side of an HxC MFM image is (number of distinct cylinder numbers, sides, number of
   distinct record numbers, MFM).  std::set<unsigned char> is a recording model: which set each sector's cylinder and record number
   went into, and that the two sizes handed to Geometry are those sets' sizes (a set's size IS the number of distinct values put
   into it: the library's contract). ---- */
enum { SET_CYL = 1, SET_REC = 2 }; enum { FIELD_cylinder = 1, FIELD_head = 2, FIELD_record = 3 }; enum { Encoding_FM = 1, Encoding_MFM = 2 };
struct uset { int id; unsigned long inserts; };
static struct { unsigned long cyl_ins, rec_ins; _Bool ok; unsigned long g_c, g_s; unsigned g_sides; int g_enc; unsigned geoms; } CG;
static void uset_insert(struct uset *s, size_t sector, int field)
{
  if (s->id == SET_CYL) { if (field != FIELD_cylinder || sector != CG.cyl_ins) CG.ok = 0; CG.cyl_ins++; }
  else { if (field != FIELD_record || sector != CG.rec_ins) CG.ok = 0; CG.rec_ins++; }
  s->inserts++;
}
/* size(): a token that identifies WHOSE size it is (the value is the library's business) */
static unsigned long uset_size(const struct uset *s) { return 1000000ul + (unsigned long)s->id; }
static void geometry_model(unsigned long c, unsigned sides, unsigned long spt, int enc) { CG.g_c = c; CG.g_sides = sides; CG.g_s = spt; CG.g_enc = enc; CG.geoms++; }
#define GEOM_LOOP_CONTRACT \
  __CPROVER_assigns(si_, cylinders, records, CG.cyl_ins, CG.rec_ins, CG.ok) \
  __CPROVER_loop_invariant(si_ <= sectors_n && CG.cyl_ins == si_ && CG.rec_ins == si_ && CG.ok && cylinders.id == SET_CYL && records.id == SET_REC) \
  __CPROVER_decreases(sectors_n - si_)
#include "hxc_compute_geometry.inc"
static void hxc_compute_geometry(unsigned int sides, size_t sectors_n)
__CPROVER_requires(sectors_n <= (1ul << 20) && CG.cyl_ins == 0 && CG.rec_ins == 0 && CG.ok && CG.geoms == 0)
__CPROVER_assigns(CG)
/* every sector's cylinder number went into the one set and its record number into the other, in order, once each */
__CPROVER_ensures(CG.ok && CG.cyl_ins == sectors_n && CG.rec_ins == sectors_n)
/* the geometry: (distinct cylinders, sides as given, distinct record numbers, MFM) */
__CPROVER_ensures(CG.geoms == 1 && CG.g_c == 1000000ul + SET_CYL && CG.g_s == 1000000ul + SET_REC && CG.g_sides == sides && CG.g_enc == Encoding_MFM);
void h_compute_geometry(void) { CG.cyl_ins = 0; CG.rec_ins = 0; CG.ok = 1; CG.geoms = 0; hxc_compute_geometry(nondet_uint(), nondet_size_t()); }
