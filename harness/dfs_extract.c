/* Proof harnesses: CatalogEntry::name, host file name construction of extract-files. */
#include "dfs_types.h"
static void mon_read_block(struct DataAccess *obj, unsigned long lba) { (void)obj; (void)lba; }
static void mon_read_result(struct DataAccess *obj, _Bool ok) { (void)obj; (void)ok; }
static size_t g_k;
static unsigned g_creates;
/* the one place a host file is created: std::ofstream outfile(dest_dir + output_basename) */
static void mon_create_file(const struct cstr *dest_dir, const struct cstr *base)
{
  (void)dest_dir;
  g_creates++;
  /* an empty base (entry with an empty name in the current directory) addresses the destination directory itself:
     opening it for writing fails, nothing is created -- not a violation of C12, so not asserted */
  __CPROVER_assert(!(g_k < base->n && g_k < 15 && base->d[g_k] == '/'), "C12: the created file name contains no '/'");
  __CPROVER_assert(!(base->n == 1 && base->d[0] == '.'), "C12: the created file name is not \".\"");
  __CPROVER_assert(!(base->n == 2 && base->d[0] == '.' && base->d[1] == '.'), "C12: the created file name is not \"..\"");
}
#define VISIT_LOOP_CONTRACT
#include "byte_to_ascii7.inc"
#include "CatalogEntry_directory.inc"
#include "CatalogEntry_name.inc"
#include "extract_files_basename.inc"
#include "dfs_catalog_min.h"
static char CatalogEntry_directory(const struct CatalogEntry *self)
__CPROVER_requires(CE_FRESH) __CPROVER_assigns()
__CPROVER_ensures(__CPROVER_return_value == (char)(self->raw_name_[7] & 0x7F));
#include "dfs_extract.h"

void h_name(void) { struct CatalogEntry *self; g_k = nondet_size_t(); struct cstr r = CatalogEntry_name(self); VERIF_COVER(r.n == 7, "7 chars"); VERIF_COVER(r.n == 0, "empty"); }
void h_basename(void)
{
  struct CatalogEntry *e; struct cstr dest;
  g_k = nondet_size_t(); g_creates = 0; g_diag = nondet_ulong();
  bool r = extract_files_basename(e, (char)nondet_uchar(), dest);
  VERIF_COVER(r, "created");
  VERIF_COVER(!r, "refused");
}
