/* Proof harness: the three decisions of probe_geometry (identify.cc) and single_sided_filesystem (dfs_filesystem.cc).
 * C13: "... with a geometry large enough for the catalogue's sector count". */
#include <limits.h>
#include "dfs_types.h"
static struct DataAccess h_media;
static void mon_read_block(struct DataAccess *obj, unsigned long lba) { (void)obj; (void)lba; }
static void mon_read_result(struct DataAccess *obj, _Bool ok) { (void)obj; (void)ok; }
enum { Format_HDFS, Format_DFS, Format_WDFS, Format_OpusDDOS };          /* dfs_format.h: enum class Format */
struct ImageFileFormat { struct Geometry geometry; _Bool interleaved; };  /* identify.h */
/* has_valid_dfs_catalog(media, sector): outside the verified set; which sector it is asked about is recorded */
static struct { unsigned calls; unsigned long where; _Bool result; } HV;
static _Bool has_valid_dfs_catalog_model(struct DataAccess *m, unsigned long where) { (void)m; HV.calls++; HV.where = where; return HV.result; }
static _Bool g_single_sided;         /* what single_sided_filesystem answered inside geom_large_enough */
#include "sector_count.inc"
#include "Geometry_total_sectors.inc"
#include "single_sided_filesystem.inc"
#include "geom_large_enough.inc"
#include "geom_other_side_has_catalog_too.inc"
#include "geom_compare_formats.inc"

static sector_count_type sector_count(long int x)
__CPROVER_requires(0 <= x && x <= (long)UINT_MAX) __CPROVER_assigns()
__CPROVER_ensures(__CPROVER_return_value == (sector_count_type)x);
#define GEOM_PLAUSIBLE(g) ((g).cylinders >= 1 && (g).cylinders <= 255 && (g).heads >= 1 && (g).heads <= 2 && (g).sectors >= 1 && (g).sectors <= 255)
static sector_count_type Geometry_total_sectors(const struct Geometry *self)
__CPROVER_requires(__CPROVER_is_fresh(self, sizeof(*self)) && self->cylinders >= 0 && self->cylinders <= 255 && self->heads >= 0 && self->heads <= 2 && self->sectors <= 255)
__CPROVER_assigns()
__CPROVER_ensures(__CPROVER_return_value == (unsigned)self->cylinders * (unsigned)self->heads * self->sectors);

/* every variant but HDFS lives on one side; HDFS says in bit 2 of byte 6 of sector 1 whether it uses both */
static bool single_sided_filesystem(int fmt, struct DataAccess *media)
__CPROVER_requires(media == &h_media)
__CPROVER_assigns(g_rb_calls, g_rb_last_lba, g_rb_last_obj, g_rb_last_buf, g_rb_last_ok)
__CPROVER_ensures(fmt != Format_HDFS ==> (__CPROVER_return_value && g_rb_calls == __CPROVER_old(g_rb_calls)))
__CPROVER_ensures(fmt == Format_HDFS ==> (g_rb_calls == __CPROVER_old(g_rb_calls) + 1 && g_rb_last_lba == 1 &&
                                         __CPROVER_return_value == !(g_rb_last_ok && (g_rb_last_buf.d[6] & 4))));

/* a candidate geometry is kept exactly if the sectors available to the file system (one side: C*S; both: C*H*S) are at
   least the catalogue's sector count */
static bool geom_large_enough(sector_count_type total_sectors, int fmt, struct DataAccess *media, const struct ImageFileFormat *ff)
__CPROVER_requires(media == &h_media && __CPROVER_is_fresh(ff, sizeof(*ff)) && GEOM_PLAUSIBLE(ff->geometry) && g_diag < 1000)
__CPROVER_assigns(g_diag, g_single_sided, g_rb_calls, g_rb_last_lba, g_rb_last_obj, g_rb_last_buf, g_rb_last_ok)
__CPROVER_ensures(__CPROVER_return_value ==
                  ((g_single_sided ? (unsigned)ff->geometry.cylinders * ff->geometry.sectors
                                   : (unsigned)ff->geometry.cylinders * (unsigned)ff->geometry.heads * ff->geometry.sectors) >= total_sectors))
__CPROVER_ensures(!__CPROVER_return_value ==> g_diag > __CPROVER_old(g_diag));

/* a two-sided candidate is kept only if the place where its second side would start also holds a valid catalogue:
   sector S (interleaved) or C*S (not interleaved) */
static bool geom_other_side_has_catalog_too(struct DataAccess *media, const struct ImageFileFormat *ff)
__CPROVER_requires(media == &h_media && __CPROVER_is_fresh(ff, sizeof(*ff)) && GEOM_PLAUSIBLE(ff->geometry) && g_diag < 1000 && HV.calls == 0)
__CPROVER_assigns(g_diag, HV.calls, HV.where)
__CPROVER_ensures(ff->geometry.heads == 1 ==> (__CPROVER_return_value && HV.calls == 0))
__CPROVER_ensures(ff->geometry.heads != 1 ==>
                  (HV.calls == 1 && HV.where == (ff->interleaved ? ff->geometry.sectors : ff->geometry.sectors * (unsigned)ff->geometry.cylinders) &&
                   __CPROVER_return_value == HV.result));

/* the smallest remaining candidate wins, except that a 16-sector geometry loses against any other */
static bool geom_compare_formats(const struct ImageFileFormat *left, const struct ImageFileFormat *right)
__CPROVER_requires(__CPROVER_is_fresh(left, sizeof(*left)) && __CPROVER_is_fresh(right, sizeof(*right)) && GEOM_PLAUSIBLE(left->geometry) && GEOM_PLAUSIBLE(right->geometry))
__CPROVER_assigns()
#define TOT(f) ((unsigned)(f)->geometry.cylinders * (unsigned)(f)->geometry.heads * (f)->geometry.sectors)
__CPROVER_ensures(__CPROVER_return_value ==
                  ((left->geometry.sectors == 16) != (right->geometry.sectors == 16) ? right->geometry.sectors == 16 : TOT(left) < TOT(right)));

void h_single_sided(void) { g_rb_calls = nondet_ulong() & 0xFFFF; single_sided_filesystem(nondet_int(), &h_media); }
void h_large_enough(void) { const struct ImageFileFormat *f; g_rb_calls = nondet_ulong() & 0xFFFF; g_diag = 0; geom_large_enough(nondet_uint(), nondet_int(), &h_media, f); }
void h_other_side(void) { const struct ImageFileFormat *f; g_diag = 0; HV.calls = 0; HV.result = nondet_bool(); geom_other_side_has_catalog_too(&h_media, f); }
void h_compare_formats(void) { const struct ImageFileFormat *l, *r; geom_compare_formats(l, r); }
