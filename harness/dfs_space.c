/* Proof harness: the gap bookkeeping of `space` (cmd_space.cc) and the catalogue-size functions it rests on
 * (dfs_catalog.cc).  C14: "`space` lists exactly the runs of unallocated sectors between the catalogue, the files and the
 * end of the disc": the first run starts right after the sectors the catalogue occupies IN THE DATA AREA -- none on an
 * Opus DDOS volume (its catalogue lives in track 0, outside the volume), 4 on Watford DFS, 2 otherwise. */
#include "dfs_types.h"
static void mon_read_block(struct DataAccess *obj, unsigned long lba) { (void)obj; (void)lba; }
static void mon_read_result(struct DataAccess *obj, _Bool ok) { (void)obj; (void)ok; }
enum { Format_HDFS, Format_DFS, Format_WDFS, Format_OpusDDOS };          /* dfs_format.h: enum class Format */
struct SpaceRoot { int disc_format; sector_count_type total_sectors; };  /* what the lambdas read from the Catalog `root` */
struct opt_pair { _Bool has; int first, second; };
static struct CatalogEntry h_first_entry;                                /* catalogs[first][second] */
static struct { unsigned long pushes; unsigned long sum; unsigned last; int at_first, at_second; unsigned at_calls;
                unsigned mg_calls; sector_count_type mg_last, mg_next; } SP;
static const struct CatalogEntry *catalogs_at(int c, int e) { SP.at_first = c; SP.at_second = e; SP.at_calls++; return &h_first_entry; }
static void gaps_push_back(unsigned gap) { SP.pushes++; SP.sum += gap; SP.last = gap; }
static sector_count_type SpaceRoot_catalog_sectors(const struct SpaceRoot *root);
#include "sector_count.inc"
#include "CatalogEntry_metadata_byte.inc"
#include "CatalogEntry_metadata_word.inc"
#include "CatalogEntry_start_sector.inc"
#include "CatalogEntry_file_length.inc"
#include "CatalogEntry_last_sector.inc"
#include "dfs_catalog_min.h"
#include "catalog_sectors_for_format.inc"
#include "data_sectors_reserved_for_catalog.inc"
static sector_count_type SpaceRoot_catalog_sectors(const struct SpaceRoot *root) { return catalog_sectors_for_format(root->disc_format); }  /* dfs_catalog.h:218 */
#include "space_maybe_gap.inc"
static void space_maybe_gap_v(sector_count_type last, sector_count_type next)       /* records the call, then the real function */
{ if (SP.mg_calls < 4) SP.mg_calls++; SP.mg_last = last; SP.mg_next = next; space_maybe_gap(last, next); }
static _Bool verif_exchange_bool(_Bool *obj, _Bool v) { _Bool old = *obj; *obj = v; return old; }     /* std::exchange */
#include "space_add_initial_gap.inc"

/* ---- the gap after one catalogue entry, and Catalog::map_sectors (what `sector-map` / `extract-unused` are built on) ---- */
#define ENTRIES_MAX 62
struct CatalogM { sector_count_type catalog_sectors; size_t entries_n; };     /* entries() is the harness array h_entries */
static struct CatalogEntry h_entries[ENTRIES_MAX];
static size_t g_e;                   /* ghost entry index */
static sector_count_type g_c;        /* ghost catalogue sector index */
static struct { unsigned long cat_calls; _Bool cat_c_seen; sector_count_type cat_c_val;
                unsigned long file_calls; _Bool file_e_seen; sector_count_type file_e_begin, file_e_end; } MS;
static void map_add_catalog_sector(sector_count_type sec) { if (MS.cat_calls == g_c) { MS.cat_c_seen = 1; MS.cat_c_val = sec; } MS.cat_calls++; }
static void map_add_file_sectors(size_t ei, sector_count_type begin, sector_count_type end)
{ if (ei == g_e) { MS.file_e_seen = 1; MS.file_e_begin = begin; MS.file_e_end = end; } MS.file_calls++; }
#define MAP_CAT_LOOP_CONTRACT \
  __CPROVER_assigns(sec, MS.cat_calls, MS.cat_c_seen, MS.cat_c_val) \
  __CPROVER_loop_invariant(sec <= self->catalog_sectors && MS.cat_calls == sec && MS.cat_c_seen == (g_c < sec) && \
                           (g_c < sec ==> MS.cat_c_val == catalog_origin_lba + g_c)) \
  __CPROVER_decreases(self->catalog_sectors - sec)
#define ENT(e) (h_entries[e])
#define ENT_START(e)  ((unsigned long)ENT(e).raw_metadata_[7] | (((unsigned long)ENT(e).raw_metadata_[6] & 3ul) << 8))
#define ENT_LENGTH(e) ((unsigned long)ENT(e).raw_metadata_[4] | ((unsigned long)ENT(e).raw_metadata_[5] << 8) | ((((unsigned long)ENT(e).raw_metadata_[6] >> 4) & 3ul) << 16))
#define MAP_FILE_LOOP_CONTRACT \
  __CPROVER_assigns(ei, MS.file_calls, MS.file_e_seen, MS.file_e_begin, MS.file_e_end) \
  __CPROVER_loop_invariant(ei <= self->entries_n && MS.file_calls == ei && MS.file_e_seen == (g_e < ei) && \
                           (g_e < ei ==> (MS.file_e_begin == data_origin_lba + ENT_START(g_e) && \
                                          MS.file_e_end == data_origin_lba + ENT_START(g_e) + (ENT_LENGTH(g_e) + 255ul) / 256ul))) \
  __CPROVER_decreases(self->entries_n - ei)
/* catalogs = root.get_catalog_in_disc_order(): std::vector<std::vector<CatalogEntry>>, one inner vector per catalogue
   fragment (two on Watford DFS); sizes and entries are harness arrays */
#define CATS_MAX 2
#define CAT_ENTRIES_MAX 31
static size_t cats_n;
static size_t h_cat_size[CATS_MAX];
static struct CatalogEntry h_cat_entries[CATS_MAX][CAT_ENTRIES_MAX];
static size_t cat_size(size_t c) { __CPROVER_assert(c < cats_n, "C07: vector index is below size()"); return c < CATS_MAX ? h_cat_size[c] : 0; }
static const struct CatalogEntry *cats_at(size_t c, size_t e)
{
  __CPROVER_assert(c < cats_n && e < h_cat_size[c < CATS_MAX ? c : 0], "C07: vector index is below size()");
  return &h_cat_entries[c < CATS_MAX ? c : 0][e < CAT_ENTRIES_MAX ? e : 0];
}
static const struct CatalogEntry *cats_back(size_t c)            /* back(): undefined on an empty vector */
{
  __CPROVER_assert(c < cats_n, "C07: vector index is below size()");
  __CPROVER_assert(h_cat_size[c < CATS_MAX ? c : 0] > 0, "C07: back() on an empty vector is undefined");
  return &h_cat_entries[c < CATS_MAX ? c : 0][h_cat_size[c < CATS_MAX ? c : 0] > 0 ? h_cat_size[c < CATS_MAX ? c : 0] - 1 : 0];
}
#include "space_start_sec_of_next.inc"
#include "space_entry_gap.inc"
#include "Catalog_map_sectors.inc"

/* C14: the run after a file starts right after the sectors it occupies: start + ceil(length / 256) -- a zero-length file
   occupies none ("total = total sectors - catalogue sectors - the sectors of all files") */
static void space_entry_gap(const struct CatalogEntry *ce, sector_count_type next_start)
__CPROVER_requires(__CPROVER_is_fresh(ce, sizeof(*ce)) && g_exc == EXC_NONE && !g_exc_by_pointer && SP.sum <= (1ul << 40) && SP.pushes <= (1ul << 40) && SP.mg_calls == 0)
__CPROVER_assigns(g_exc, g_exc_by_pointer, SP)
__CPROVER_ensures(SP.mg_calls == 1 && SP.mg_next == next_start &&
                  SP.mg_last == (sector_count_type)(((unsigned long)ce->raw_metadata_[7] | (((unsigned long)ce->raw_metadata_[6] & 3ul) << 8)) +
                                 (((unsigned long)ce->raw_metadata_[4] | ((unsigned long)ce->raw_metadata_[5] << 8) | ((((unsigned long)ce->raw_metadata_[6] >> 4) & 3ul) << 16)) + 255ul) / 256ul));

/* C14: sector-map labels the catalogue's sectors and, for each file, exactly the sectors it occupies:
   [start, start + ceil(length/256)) relative to the data origin */
static void Catalog_map_sectors(const struct CatalogM *self, unsigned long catalog_origin_lba, unsigned long data_origin_lba)
__CPROVER_requires(__CPROVER_is_fresh(self, sizeof(*self)) && self->catalog_sectors <= 4 && self->entries_n <= ENTRIES_MAX)
__CPROVER_requires(catalog_origin_lba <= (1ul << 24) && data_origin_lba <= (1ul << 24) && MS.cat_calls == 0 && MS.file_calls == 0 && !MS.cat_c_seen && !MS.file_e_seen)
__CPROVER_assigns(MS)
__CPROVER_ensures(MS.cat_calls == self->catalog_sectors && MS.file_calls == self->entries_n)
__CPROVER_ensures(g_c < self->catalog_sectors ==> (MS.cat_c_seen && MS.cat_c_val == catalog_origin_lba + g_c))
__CPROVER_ensures(g_e < self->entries_n ==> (MS.file_e_seen && MS.file_e_begin == data_origin_lba + ENT_START(g_e) &&
                                             MS.file_e_end == data_origin_lba + ENT_START(g_e) + (ENT_LENGTH(g_e) + 255ul) / 256ul));

/* C14/C07: the start sector of the file that follows (catalogue c, entry e) on the disc: the previous entry of the same
   catalogue; for entry 0 the last entry of the next NON-EMPTY catalogue; the end of the disc when there is none.  Defined
   for every catalogue shape, including empty fragments (a Watford disc with fewer than 32 files) */
#define E_START(c, e) ((sector_count_type)((unsigned long)h_cat_entries[c][e].raw_metadata_[7] | (((unsigned long)h_cat_entries[c][e].raw_metadata_[6] & 3ul) << 8)))
static sector_count_type space_start_sec_of_next(const struct SpaceRoot *root, unsigned int catalog, unsigned int entry)
__CPROVER_requires(__CPROVER_is_fresh(root, sizeof(*root)) && cats_n >= 1 && cats_n <= CATS_MAX && h_cat_size[0] <= CAT_ENTRIES_MAX && h_cat_size[1] <= CAT_ENTRIES_MAX)
__CPROVER_requires(catalog < cats_n && entry <= h_cat_size[catalog])
__CPROVER_assigns()
__CPROVER_ensures(entry > 0 ==> __CPROVER_return_value == E_START(catalog, entry - 1))
__CPROVER_ensures((entry == 0 && catalog + 1 < cats_n && h_cat_size[catalog + 1 < CATS_MAX ? catalog + 1 : 0] > 0) ==>
                  __CPROVER_return_value == E_START(catalog + 1 < CATS_MAX ? catalog + 1 : 0, h_cat_size[catalog + 1 < CATS_MAX ? catalog + 1 : 0] - 1))
__CPROVER_ensures((entry == 0 && (catalog + 1 >= cats_n || h_cat_size[catalog + 1 < CATS_MAX ? catalog + 1 : 0] == 0)) ==> __CPROVER_return_value == root->total_sectors);

void h_start_sec_of_next(void) { const struct SpaceRoot *r; space_start_sec_of_next(r, nondet_uint(), nondet_uint()); }
/* C14: `sector-map` and `extract-unused` cover the disc up to the catalogue's total sector count (the same total that
   `free` and `space` use); an Opus DDOS disc (several volumes) is covered up to the end of the medium */
struct FileSystemM { int disc_format; struct Geometry geometry_; size_t volumes_n; sector_count_type first_volume_root_total_sectors, first_volume_file_storage_space; };
#include "Geometry_total_sectors.inc"
#include "FileSystem_disc_sector_count.inc"
static sector_count_type Geometry_total_sectors(const struct Geometry *self)
__CPROVER_requires(__CPROVER_is_fresh(self, sizeof(*self)) && self->cylinders >= 0 && self->cylinders <= 255 && self->heads >= 0 && self->heads <= 2 && self->sectors <= 255)
__CPROVER_assigns()
__CPROVER_ensures(__CPROVER_return_value == (unsigned)self->cylinders * (unsigned)self->heads * self->sectors);
static sector_count_type FileSystem_disc_sector_count(const struct FileSystemM *self)
__CPROVER_requires(__CPROVER_is_fresh(self, sizeof(*self)) && g_exc == EXC_NONE && !g_exc_by_pointer)
__CPROVER_requires(self->geometry_.cylinders >= 1 && self->geometry_.cylinders <= 255 && self->geometry_.heads >= 1 && self->geometry_.heads <= 2 && self->geometry_.sectors >= 1 && self->geometry_.sectors <= 255)
__CPROVER_assigns(g_exc, g_exc_by_pointer)
__CPROVER_ensures(!g_exc_by_pointer)
__CPROVER_ensures(self->disc_format == Format_OpusDDOS ==>
                  (g_exc == EXC_NONE && __CPROVER_return_value == (unsigned)self->geometry_.cylinders * (unsigned)self->geometry_.heads * self->geometry_.sectors))
__CPROVER_ensures((self->disc_format != Format_OpusDDOS && self->volumes_n > 0) ==> (g_exc == EXC_NONE && __CPROVER_return_value == self->first_volume_root_total_sectors))
__CPROVER_ensures((self->disc_format != Format_OpusDDOS && self->volumes_n == 0) ==> g_exc == EXC_BadFileSystem);
void h_disc_sector_count(void) { const struct FileSystemM *f; g_exc = EXC_NONE; g_exc_by_pointer = 0; FileSystem_disc_sector_count(f); }

void h_entry_gap(void)
{
  const struct CatalogEntry *ce;
  g_exc = EXC_NONE; g_exc_by_pointer = 0; SP.mg_calls = 0;
  space_entry_gap(ce, nondet_uint());
}
void h_map_sectors(void)
{
  const struct CatalogM *c;
  g_e = nondet_size_t(); g_c = nondet_uint();
  MS.cat_calls = 0; MS.file_calls = 0; MS.cat_c_seen = 0; MS.file_e_seen = 0;
  Catalog_map_sectors(c, nondet_ulong(), nondet_ulong());
}

static sector_count_type catalog_sectors_for_format(int f)
__CPROVER_assigns() __CPROVER_ensures(__CPROVER_return_value == (f == Format_WDFS ? 4u : 2u));
static sector_count_type data_sectors_reserved_for_catalog(int f)
__CPROVER_assigns() __CPROVER_ensures(__CPROVER_return_value == (f == Format_OpusDDOS ? 0u : f == Format_WDFS ? 4u : 2u));

static void space_maybe_gap(sector_count_type last, sector_count_type next)
__CPROVER_requires(g_exc == EXC_NONE && !g_exc_by_pointer && SP.sum <= (1ul << 40) && SP.pushes <= (1ul << 40))
__CPROVER_assigns(g_exc, g_exc_by_pointer, SP.pushes, SP.sum, SP.last)
/* out of order: an exception by value, nothing recorded; otherwise the run [last, next) is recorded iff it is not empty */
__CPROVER_ensures(!g_exc_by_pointer && (g_exc != EXC_NONE) == (last > next))
__CPROVER_ensures(last > next ==> (SP.sum == __CPROVER_old(SP.sum) && SP.pushes == __CPROVER_old(SP.pushes)))
__CPROVER_ensures(last <= next ==> (SP.sum == __CPROVER_old(SP.sum) + (next - last) &&
                                    SP.pushes == __CPROVER_old(SP.pushes) + (next != last ? 1 : 0) && (next != last ==> SP.last == next - last)));

static void space_add_initial_gap(const struct SpaceRoot *root, struct opt_pair first_file, _Bool *added_initial_gap_)
__CPROVER_requires(__CPROVER_is_fresh(root, sizeof(*root)) && __CPROVER_is_fresh(added_initial_gap_, 1) && !*added_initial_gap_)
__CPROVER_requires(g_exc == EXC_NONE && !g_exc_by_pointer && SP.sum <= (1ul << 40) && SP.pushes <= (1ul << 40) && SP.at_calls == 0)
__CPROVER_requires(root->disc_format >= Format_HDFS && root->disc_format <= Format_OpusDDOS)
__CPROVER_assigns(*added_initial_gap_, g_exc, g_exc_by_pointer, SP)
/* the run between the catalogue's sectors in the data area and the first file (or the end of the disc when there is none) */
__CPROVER_ensures(SP.mg_calls == 1 &&
                  SP.mg_last == (root->disc_format == Format_OpusDDOS ? 0u : root->disc_format == Format_WDFS ? 4u : 2u) &&
                  SP.mg_next == (first_file.has ? (sector_count_type)(h_first_entry.raw_metadata_[7] | ((h_first_entry.raw_metadata_[6] & 3) << 8)) : root->total_sectors))
__CPROVER_ensures(first_file.has ==> (SP.at_calls == 1 && SP.at_first == first_file.first && SP.at_second == first_file.second))
__CPROVER_ensures(*added_initial_gap_);

void h_cat_sectors(void) { catalog_sectors_for_format(nondet_int()); }
void h_reserved(void) { data_sectors_reserved_for_catalog(nondet_int()); }
void h_maybe_gap(void) { g_exc = EXC_NONE; g_exc_by_pointer = 0; space_maybe_gap(nondet_uint(), nondet_uint()); }
void h_add_initial_gap(void)
{
  const struct SpaceRoot *r; struct opt_pair p; _Bool *flag;
  p.has = nondet_bool(); p.first = nondet_int(); p.second = nondet_int();
  g_exc = EXC_NONE; g_exc_by_pointer = 0; SP.at_calls = 0; SP.mg_calls = 0;
  space_add_initial_gap(r, p, flag);
}
