/* Proof harness: CommandExtractUnused::write_span (C11 for host files; C14: a span is written sector by sector). */
#include "dfs_types.h"
static struct DataAccess h_drive;
static unsigned long g_diag;
static _Bool g_read_warning;
static size_t g_k;
/* std::ofstream model: open may fail; every write may fail (failbit/badbit sticky); buffered data is only
   known to be accepted once close() has returned with the stream still good */
static struct { _Bool is_open, bad, closed; unsigned long writes; } ofs_obj;
static sector_count_type ms_start;
static void mon_read_block(struct DataAccess *obj, unsigned long lba)
{
  (void)obj;
  __CPROVER_assert(lba == (unsigned long)ms_start + ofs_obj.writes, "C14 extract-unused: the k-th sector written is sector first+k of the span");
}
static void mon_read_result(struct DataAccess *obj, _Bool ok) { (void)obj; (void)ok; }
#define ofs_t __typeof__(ofs_obj)
static void ofs_open(ofs_t *o) { o->closed = 0; o->writes = 0; if (nondet_bool()) { o->is_open = 0; o->bad = 1; } else { o->is_open = 1; o->bad = 0; } }
static _Bool ofs_ok(ofs_t *o) { return !o->bad; }
static void ofs_write(ofs_t *o, const byte *p, size_t n)
{
  __CPROVER_assert(!o->closed, "write after close");
  if (o->bad) return;
  if (nondet_bool()) { o->bad = 1; return; }
  __CPROVER_assert(n == 256 && g_rb_last_ok && (g_k >= 256 || p[g_k] == g_rb_last_buf.d[g_k]), "C14 extract-unused: each sector is written whole and unchanged");
  o->writes++;
}
static void ofs_close(ofs_t *o) { o->closed = 1; if (!o->bad && nondet_bool()) o->bad = 1;  /* the final flush may fail */ }
#define SPAN_LOOP_CONTRACT \
  __CPROVER_assigns(sec, ofs_obj, g_diag, g_read_warning, g_rb_calls, g_rb_last_lba, g_rb_last_obj, g_rb_last_buf, g_rb_last_ok) \
  __CPROVER_loop_invariant(start_sector <= sec && sec <= end_sector && !ofs_obj.closed && ofs_obj.is_open && !g_read_warning) \
  __CPROVER_loop_invariant(!ofs_obj.bad && ofs_obj.writes == (unsigned long)(sec - start_sector)) \
  __CPROVER_loop_invariant(g_diag == __CPROVER_loop_entry(g_diag)) \
  __CPROVER_decreases(end_sector - sec)
#include "write_span.inc"

static bool write_span(struct DataAccess *drive, sector_count_type start_sector, sector_count_type end_sector)
__CPROVER_requires(drive == &h_drive && start_sector < end_sector && ms_start == start_sector && g_diag < 1000 && !g_read_warning)
__CPROVER_assigns(ofs_obj, g_diag, g_read_warning, g_rb_calls, g_rb_last_lba, g_rb_last_obj, g_rb_last_buf, g_rb_last_ok)
/* C11: success implies the file was closed and the stream was still good AFTER the close (the final flush) */
__CPROVER_ensures(__CPROVER_return_value ==> (ofs_obj.is_open && ofs_obj.closed && !ofs_obj.bad))
/* C14: success means the whole span was written (unless a sector was unreadable, which is warned about) */
__CPROVER_ensures(__CPROVER_return_value ==> (g_read_warning || ofs_obj.writes == (unsigned long)(end_sector - start_sector)))
__CPROVER_ensures(!__CPROVER_return_value ==> g_diag > __CPROVER_old(g_diag));

void h_write_span(void)
{
  g_k = nondet_size_t(); g_diag = nondet_ulong(); g_read_warning = 0; ms_start = nondet_uint();
  bool r = write_span(&h_drive, ms_start, nondet_uint());
  VERIF_COVER(r && ofs_obj.writes == 40, "a 40-sector span written");
  VERIF_COVER(!r, "failure reported");
}
