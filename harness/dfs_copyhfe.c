/* Proof harness: copy_hfe (img_hfe.cc) for HFE v1 tracks (hfe3 == false): the bytes of a 256-byte side block go to the
 * track stream one for one, each with its bit order reversed (HFE stores the cell that comes first in time in bit 0;
 * the loop rebuilds each byte MSB-first-in, LSB-first-out).  C05: the cells the decoders see are the cells of the image. */
#include "dfs_types.h"
static void mon_read_block(struct DataAccess *obj, unsigned long lba) { (void)obj; (void)lba; }
static void mon_read_result(struct DataAccess *obj, _Bool ok) { (void)obj; (void)ok; }
#define BLOCK_MAX 256
static byte h_block[BLOCK_MAX];
static size_t g_k;                 /* ghost index of one input byte */
static unsigned g_bit;             /* ghost bit number */
static struct { size_t n; byte at_k; } DST;      /* the back_inserter: number of bytes appended, and the g_k-th of them */
static void dest_push_back(byte b) { if (DST.n == g_k) DST.at_k = b; DST.n = DST.n + 1; }
/* Specification automaton for the opcodes this contract covers (HFEv3: NOP F0 and SETINDEX F1 take no operand and emit
   nothing; SETBITRATE F2 takes one operand byte and emits nothing; every other byte below F0 is track data).  h_cnt[i] =
   bytes emitted by the first i input bytes, h_op[i] = opcode still waiting for its operand after them.  For an HFE v1
   track (hfe3 false) every byte is data.  SKIPBITS / RAND / unassigned opcodes are excluded by the harness. */
static size_t h_cnt[BLOCK_MAX + 1];
static byte h_op[BLOCK_MAX + 1];
static void h_fill_tables(_Bool hfe3, size_t n)
{
  unsigned i;
  h_cnt[0] = 0; h_op[0] = 0;
  for (i = 0; i < BLOCK_MAX; ++i)
    {
      const byte b = h_block[i];
      if (hfe3 && h_op[i] == 0) __CPROVER_assume(i >= n || b < 0xF3);
      if (hfe3 && h_op[i] != 0) { h_op[i + 1] = 0; h_cnt[i + 1] = h_cnt[i]; }
      else if (hfe3 && b >= 0xF0) { h_op[i + 1] = (b == 0xF2) ? 0xF2 : 0; h_cnt[i + 1] = h_cnt[i]; }
      else { h_op[i + 1] = 0; h_cnt[i + 1] = h_cnt[i] + 1; }
    }
}
#include "hfe_opcodes.inc"
#include "is_hfe3_opcode.inc"
/* ghost for the 8-step inner loop: what `out` is after j steps when no bit is skipped (set up by a rule just before it) */
static byte h_out[9];
#define STEP_(o, j) ((byte)(((o) >> 1) | ((in & (1 << (7 - (j)))) ? 0x80 : 0)))
#define COPY_HFE_INNER_GHOST \
  h_out[0] = out; h_out[1] = STEP_(h_out[0], 0); h_out[2] = STEP_(h_out[1], 1); h_out[3] = STEP_(h_out[2], 2); h_out[4] = STEP_(h_out[3], 3); \
  h_out[5] = STEP_(h_out[4], 4); h_out[6] = STEP_(h_out[5], 5); h_out[7] = STEP_(h_out[6], 6); h_out[8] = STEP_(h_out[7], 7);
#define COPY_HFE_INNER_CONTRACT \
  __CPROVER_assigns(bitnum, out, got_bits, skipbits, g_diag) \
  __CPROVER_loop_invariant(0 <= bitnum && bitnum <= 8 && skipbits == 0 && got_bits == bitnum && out == h_out[bitnum]) \
  __CPROVER_decreases(8 - bitnum)
#define COPY_HFE_LOOP_CONTRACT \
  __CPROVER_assigns(begin, got_bits, out, this_op, DST, g_diag, __CPROVER_object_whole(h_out)) \
  __CPROVER_loop_invariant(__CPROVER_same_object(begin, end) && __CPROVER_same_object(begin, h_block) && __CPROVER_POINTER_OFFSET(begin) <= __CPROVER_POINTER_OFFSET(end) && \
                           got_bits == 0 && out == 0 && g_exc == EXC_NONE && \
                           this_op == h_op[__CPROVER_POINTER_OFFSET(begin)] && DST.n == h_cnt[__CPROVER_POINTER_OFFSET(begin)] && DST.n <= __CPROVER_POINTER_OFFSET(begin)) \
  __CPROVER_loop_invariant((!hfe3 && g_k < DST.n) ==> (((DST.at_k >> g_bit) & 1) == ((h_block[g_k] >> (7 - g_bit)) & 1))) \
  __CPROVER_decreases(__CPROVER_POINTER_OFFSET(end) - __CPROVER_POINTER_OFFSET(begin))
#include "copy_hfe.inc"

static bool is_hfe3_opcode(byte val)
__CPROVER_assigns() __CPROVER_ensures(__CPROVER_return_value == ((val & 0xF0) == 0xF0));

static void copy_hfe(bool hfe3, const byte *begin, const byte *end)
__CPROVER_requires(begin == h_block && end >= begin && end <= h_block + BLOCK_MAX && g_exc == EXC_NONE && !g_exc_by_pointer && DST.n == 0)
__CPROVER_requires(h_cnt[0] == 0 && h_op[0] == 0)          /* the tables were filled for this (hfe3, block) by the harness */
__CPROVER_assigns(DST, g_diag, g_exc, g_exc_by_pointer, __CPROVER_object_whole(h_out))
/* v1: one output byte per input byte, in order, bit g_bit of output k being bit 7-g_bit of input k; no exception */
__CPROVER_ensures(!hfe3 ==> (g_exc == EXC_NONE && DST.n == (size_t)(end - begin)))
__CPROVER_ensures((!hfe3 && g_k < (size_t)(end - begin)) ==> (((DST.at_k >> g_bit) & 1) == ((h_block[g_k] >> (7 - g_bit)) & 1)))
/* v3 with NOP / SETINDEX / SETBITRATE opcodes: exactly the data bytes are emitted (opcodes and operands emit nothing);
   a block that ends inside an opcode raises (by value) */
__CPROVER_ensures(DST.n == h_cnt[end - begin] && !g_exc_by_pointer)
__CPROVER_ensures((g_exc == EXC_NONE) == (h_op[end - begin] == 0));

void h_is_opcode(void) { is_hfe3_opcode(nondet_uchar()); }
void h_copy_hfe(void)
{
  size_t n = nondet_size_t();
  __CPROVER_assume(n <= BLOCK_MAX);
  g_k = nondet_size_t(); g_bit = nondet_uint(); __CPROVER_assume(g_bit < 8);
  g_exc = EXC_NONE; g_exc_by_pointer = 0; DST.n = 0;
  h_fill_tables(0, n);
  copy_hfe(0, h_block, h_block + n);
  VERIF_COVER(DST.n == 256, "a whole 256-byte block copied");
}
void h_copy_hfe3(void)
{
  size_t n = nondet_size_t();
  __CPROVER_assume(n <= BLOCK_MAX);
  g_k = nondet_size_t(); g_bit = nondet_uint(); __CPROVER_assume(g_bit < 8);
  g_exc = EXC_NONE; g_exc_by_pointer = 0; DST.n = 0;
  h_fill_tables(1, n);
  copy_hfe(1, h_block, h_block + n);
  VERIF_COVER(g_exc == EXC_NONE && DST.n + 3 == n && n > 10, "a block with a SETBITRATE and a NOP");
  VERIF_COVER(g_exc != EXC_NONE, "block ends inside an opcode");
}
