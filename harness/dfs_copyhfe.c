/* Proof harness: copy_hfe (img_hfe.cc): the cells of one 256-byte side block of an HFE track go to the track stream, with
 * the HFEv3 opcodes taken out.  C05: "... an HFE version 1 or version 3 file (... and for v3 any placement of
 * NOP/SETINDEX/SETBITRATE/SKIPBITS opcodes between cells) ... yields exactly the same sectors": the cells the decoders
 * see are the cells of the image, whatever opcodes lie between them and wherever a block boundary falls.
 *
 * The track is handed to copy_hfe one side block at a time, so the decoding state (the opcode still waiting for its
 * operand, the partly assembled output byte) has to survive from one call to the next: the contract is stated over a state
 * object (HfeCopyState) that the caller keeps for the whole track (harness/dfs_sideblocks.c checks that it does).
 *
 * Specification automaton (ghost tables filled by the harness for the block and the state on entry):
 *   h_op[i]    opcode still waiting for its operand after the first i bytes of the block (h_op[0]: on entry)
 *   h_bits[i]  number of cells gathered after the first i bytes, counted from the start of the output byte that was being
 *              assembled on entry (h_bits[0] = cells already in it, 0..7)
 *   a byte below F0 outside an operand position is DATA: its 8 cells follow, first-in-time first (bit 7 of the byte as
 *   copy_hfe sees it, i.e. after read_all_sectors reversed the bit order of the file byte);
 *   F0 NOP and F1 SETINDEX: nothing;  F2 SETBITRATE: nothing, the next byte is its operand and contributes nothing;
 *   F3 SKIPBITS: nothing, the next byte is its operand n;  F4 RAND: the next byte contributes 8 cells (content not stated).
 *   What the property does not define and the contract therefore takes from the code (listed as an assumption in the
 *   evidence): the width contributed by a SKIPBITS operand -- 8-n cells for n < 8, none for n >= 8; no statement is made
 *   about the CONTENT of those cells.  Bytes F5..FF in an opcode position are outside the property's alphabet (excluded). */
#include "dfs_types.h"
static void mon_read_block(struct DataAccess *obj, unsigned long lba) { (void)obj; (void)lba; }
static void mon_read_result(struct DataAccess *obj, _Bool ok) { (void)obj; (void)ok; }
#define BLOCK_MAX 256
#include "HfeCopyState.inc"
static byte h_block[BLOCK_MAX];
static struct HfeCopyState h_state;
static size_t g_k;                 /* ghost index of one input byte */
static unsigned g_bit;             /* ghost cell number within it (0 = first in time = bit 7) */
static unsigned g_c;               /* ghost index of one cell that was already gathered on entry */
/* derived by the harness from the tables: where cell (g_k, g_bit) belongs in the output */
static size_t g_d; static unsigned g_j; static _Bool g_isdata, g_cell;
static int g_got0; static byte g_out0;
/* the back_inserter: number of bytes appended by this call, the g_d-th of them and the first of them */
static struct { size_t n; byte at_d; byte at_0; } DST;
static void dest_push_back(byte b) { if (DST.n == g_d) DST.at_d = b; if (DST.n == 0) DST.at_0 = b; DST.n = DST.n + 1; }
static size_t h_bits[BLOCK_MAX + 1];
static byte h_op[BLOCK_MAX + 1];
static void h_fill_tables(_Bool hfe3, size_t n)
{
  unsigned i;
  for (i = 0; i < BLOCK_MAX; ++i)
    {
      const byte b = h_block[i];
      if (hfe3 && h_op[i] == 0) __CPROVER_assume(i >= n || b <= 0xF4);
      if (hfe3 && h_op[i] != 0)
        {
          h_op[i + 1] = 0;
          h_bits[i + 1] = h_bits[i] + (h_op[i] == 0xF4 ? 8 : (h_op[i] == 0xF3 && b < 8) ? 8 - b : 0);
        }
      else if (hfe3 && b >= 0xF0) { h_op[i + 1] = (b >= 0xF2) ? b : 0; h_bits[i + 1] = h_bits[i]; }
      else { h_op[i + 1] = 0; h_bits[i + 1] = h_bits[i] + 8; }
    }
}
#include "hfe_opcodes.inc"
#include "is_hfe3_opcode.inc"
#define OFF_ (__CPROVER_POINTER_OFFSET(begin))
/* bit b of a byte that holds g cells so far: the j-th gathered cell sits at bit 8-g+j (cells enter at bit 7 and move down) */
#define PARTIAL_BIT(o, g, j) (((o) >> (8 - (g) + (j))) & 1)
/* "cell number 8 d + j of the output has value v": in the d-th appended byte once that exists, in the unfinished byte before */
#define LOC_D(v) ((g_d < DST.n ==> (((DST.at_d >> g_j) & 1) == (v))) && (g_d == DST.n ==> (PARTIAL_BIT(out, got_bits, g_j) == (v))))
#define LOC_0(v) ((DST.n >= 1 ==> (((DST.at_0 >> g_c) & 1) == (v))) && (DST.n == 0 ==> (PARTIAL_BIT(out, got_bits, g_c) == (v))))
#define TOTAL_ (8 * DST.n + (size_t)got_bits)
#define CARRIED_ ((int)g_c < g_got0)
/* ghosts for the 8-step bit loop (set by an extraction rule just before it): bits to skip and cells gathered at its start */
static int h_s0; static size_t h_G0;
#define COPY_HFE_INNER_GHOST h_s0 = skipbits; h_G0 = TOTAL_;
#define CUR_ (OFF_ - 1)            /* index of the byte `in` (begin was advanced when it was fetched) */
#define COPY_HFE_INNER_CONTRACT \
  __CPROVER_assigns(bitnum, out, got_bits, skipbits, DST, g_diag) \
  __CPROVER_loop_invariant(0 <= bitnum && bitnum <= 8 && 0 <= h_s0 && h_s0 < 8 && skipbits == (h_s0 > bitnum ? h_s0 - bitnum : 0)) \
  __CPROVER_loop_invariant(0 <= got_bits && got_bits < 8 && DST.n <= OFF_ + 1 && TOTAL_ == h_G0 + (size_t)(bitnum > h_s0 ? bitnum - h_s0 : 0)) \
  __CPROVER_loop_invariant((g_isdata && g_k < CUR_) ==> (8 * g_d + g_j < h_G0 && LOC_D(g_cell))) \
  __CPROVER_loop_invariant((g_isdata && g_k == CUR_) ==> (h_s0 == 0 && 8 * g_d + g_j == h_G0 + g_bit && ((in >> (7 - g_bit)) & 1) == g_cell)) \
  __CPROVER_loop_invariant((g_isdata && g_k == CUR_ && (int)g_bit < bitnum) ==> LOC_D(g_cell)) \
  __CPROVER_loop_invariant(CARRIED_ ==> ((size_t)g_got0 <= h_G0 && LOC_0(PARTIAL_BIT(g_out0, g_got0, g_c)))) \
  __CPROVER_decreases(8 - bitnum)
#define COPY_HFE_LOOP_CONTRACT \
  __CPROVER_assigns(begin, got_bits, out, this_op, DST, g_diag, h_s0, h_G0) \
  __CPROVER_loop_invariant(__CPROVER_same_object(begin, end) && __CPROVER_same_object(begin, h_block) && OFF_ <= __CPROVER_POINTER_OFFSET(end)) \
  __CPROVER_loop_invariant(0 <= got_bits && got_bits < 8 && g_exc == EXC_NONE && DST.n <= OFF_ + 1) \
  __CPROVER_loop_invariant(this_op == h_op[OFF_] && TOTAL_ == h_bits[OFF_]) \
  __CPROVER_loop_invariant((g_isdata && g_k < OFF_) ==> (8 * g_d + g_j < TOTAL_ && LOC_D(g_cell))) \
  __CPROVER_loop_invariant(CARRIED_ ==> ((size_t)g_got0 <= TOTAL_ && LOC_0(PARTIAL_BIT(g_out0, g_got0, g_c)))) \
  __CPROVER_decreases(__CPROVER_POINTER_OFFSET(end) - OFF_)
#include "copy_hfe.inc"

static bool is_hfe3_opcode(byte val)
__CPROVER_assigns() __CPROVER_ensures(__CPROVER_return_value == ((val & 0xF0) == 0xF0));

static void copy_hfe(bool hfe3, const byte *begin, const byte *end, struct HfeCopyState *state)
__CPROVER_requires(begin == h_block && end >= begin && end <= h_block + BLOCK_MAX && g_exc == EXC_NONE && !g_exc_by_pointer && DST.n == 0)
__CPROVER_requires(state == &h_state && 0 <= state->got_bits && state->got_bits < 8)
/* the tables were filled for this (hfe3, block, state on entry) by the harness */
__CPROVER_requires(h_op[0] == state->this_op && h_bits[0] == (size_t)state->got_bits && g_got0 == state->got_bits && g_out0 == state->out)
/* where the automaton puts cell g_bit of byte g_k: output cell number h_bits[g_k] + g_bit = 8 g_d + g_j */
__CPROVER_requires(g_k < BLOCK_MAX && g_bit < 8 && g_j < 8 && g_c < 8 && 8 * g_d + g_j == h_bits[g_k] + g_bit && g_cell == ((h_block[g_k] >> (7 - g_bit)) & 1))
__CPROVER_requires(g_isdata ==> (g_k < (size_t)(end - begin) && h_op[g_k] == 0 && !(hfe3 && h_block[g_k] >= 0xF0)))
__CPROVER_assigns(DST, g_diag, g_exc, g_exc_by_pointer, h_state, h_s0, h_G0)
/* no placement of the opcodes makes the block unreadable, and the state left behind is the automaton's: the opcode still
   waiting for its operand (which is then the first byte of the next block of this side) and the cells of the unfinished
   output byte */
__CPROVER_ensures(g_exc == EXC_NONE && !g_exc_by_pointer)
__CPROVER_ensures(state->this_op == h_op[end - begin] && 0 <= state->got_bits && state->got_bits < 8)
/* every cell is accounted for: 8 per appended byte plus those waiting in the state */
__CPROVER_ensures(8 * DST.n + (size_t)state->got_bits == h_bits[end - begin])
/* cell g_bit of data byte g_k is in the output at the position the automaton gives it: in an appended byte, or in the
   unfinished byte left in the state */
__CPROVER_ensures((g_isdata && g_k < (size_t)(end - begin) && g_d < DST.n) ==> (((DST.at_d >> g_j) & 1) == g_cell))
__CPROVER_ensures((g_isdata && g_k < (size_t)(end - begin) && g_d == DST.n) ==> (PARTIAL_BIT(state->out, state->got_bits, g_j) == g_cell))
/* the cells gathered before this block are kept: they open the first appended byte (or still wait in the state) */
__CPROVER_ensures(((int)g_c < g_got0 && DST.n >= 1) ==> (((DST.at_0 >> g_c) & 1) == PARTIAL_BIT(g_out0, g_got0, g_c)))
__CPROVER_ensures(((int)g_c < g_got0 && DST.n == 0) ==> (PARTIAL_BIT(state->out, state->got_bits, g_c) == PARTIAL_BIT(g_out0, g_got0, g_c)));

void h_is_opcode(void) { is_hfe3_opcode(nondet_uchar()); }

static void h_setup(_Bool hfe3, size_t n)
{
  size_t P;
  g_k = nondet_size_t(); g_bit = nondet_uint(); g_c = nondet_uint();
  __CPROVER_assume(g_k < BLOCK_MAX && g_bit < 8 && g_c < 8);
  g_exc = EXC_NONE; g_exc_by_pointer = 0; DST.n = 0;
  /* the state on entry: anything a previous block can have left behind (v1: no opcode is ever pending) */
  __CPROVER_assume(0 <= h_state.got_bits && h_state.got_bits < 8);
  __CPROVER_assume(hfe3 ? (h_state.this_op == 0 || (h_state.this_op >= 0xF2 && h_state.this_op <= 0xF4)) : h_state.this_op == 0);
  h_op[0] = h_state.this_op; h_bits[0] = (size_t)h_state.got_bits; g_got0 = h_state.got_bits; g_out0 = h_state.out;
  h_fill_tables(hfe3, n);
  g_isdata = g_k < n && h_op[g_k] == 0 && !(hfe3 && h_block[g_k] >= 0xF0);
  g_cell = (h_block[g_k] >> (7 - g_bit)) & 1;
  P = h_bits[g_k] + g_bit;
  g_d = P / 8; g_j = (unsigned)(P % 8);
}
void h_copy_hfe(void)
{
  size_t n = nondet_size_t();
  __CPROVER_assume(n <= BLOCK_MAX);
  h_setup(0, n);
  copy_hfe(0, h_block, h_block + n, &h_state);
  VERIF_COVER(DST.n == 256 && h_state.got_bits == 0, "a whole 256-byte block copied");
}
void h_copy_hfe3(void)
{
  size_t n = nondet_size_t();
  __CPROVER_assume(n <= BLOCK_MAX);
  h_setup(1, n);
  copy_hfe(1, h_block, h_block + n, &h_state);
  VERIF_COVER(DST.n + 3 == n && n > 10 && g_got0 == 0 && h_state.got_bits == 0, "a block with a SETBITRATE and a NOP");
  VERIF_COVER(h_state.this_op == 0xF2, "block ends inside a SETBITRATE: its operand opens the next block");
  VERIF_COVER(g_got0 == 0 && h_state.got_bits == 5 && n > 20, "a SKIPBITS 3: the cells after it are still copied");
}
