/* Proof harness: the window of the medium a Volume may read (dfs_volume.h Volume::Access, dfs_volume.cc Volume::Volume and
 * the two places internal::init_volumes creates a Volume).  C17: "no command returns bytes from outside the volume ... being
 * read" -- Access::read_block (contracts/dfs_catalog.h) refuses lba >= len_ and reads origin_ + lba otherwise, so the
 * window is [origin_, origin_ + len_); these contracts fix what origin_ and len_ are. */
#include <limits.h>
#include "dfs_types.h"
static void mon_read_block(struct DataAccess *obj, unsigned long lba) { (void)obj; (void)lba; }
static void mon_read_result(struct DataAccess *obj, _Bool ok) { (void)obj; (void)ok; }
/* dfs_volume.h: class Volume { sector_count_type catalog_location_, total_sectors_; Access volume_tracks_; unique_ptr<Catalog> root_; } */
struct VolumeM { sector_count_type catalog_location_; sector_count_type total_sectors_; struct VolumeAccess volume_tracks_; };
#define VL_MEMBERS
#include "sector_count.inc"
#include "Geometry_total_sectors.inc"
#include "VolumeLocation_len.inc"
#include "VolumeLocation_start_sector.inc"
#include "VolumeAccess_ctor.inc"
#include "Volume_ctor.inc"
#include "init_volumes_opus_vol.inc"
#include "init_volumes_plain_vol.inc"
#include "dfs_opus.h"

static sector_count_type sector_count(long int x)
__CPROVER_requires(0 <= x && x <= (long)UINT_MAX) __CPROVER_assigns()
__CPROVER_ensures(__CPROVER_return_value == (sector_count_type)x);

static sector_count_type Geometry_total_sectors(const struct Geometry *self)
__CPROVER_requires(__CPROVER_is_fresh(self, sizeof(*self)) && self->cylinders >= 0 && self->cylinders <= 255 && self->heads >= 0 && self->heads <= 2 && self->sectors <= 255)
__CPROVER_assigns()
__CPROVER_ensures(__CPROVER_return_value == (unsigned)self->cylinders * (unsigned)self->heads * self->sectors);

/* the access object covers exactly `sectors` sectors starting at first_sector of the underlying medium */
static void VolumeAccess_ctor(struct VolumeAccess *self, unsigned long first_sector, unsigned long sectors, struct DataAccess *underlying)
__CPROVER_requires(__CPROVER_is_fresh(self, sizeof(*self)))
__CPROVER_assigns(*self)               /* a member of the Volume: the frame is the member, not the object around it */
__CPROVER_ensures(self->origin_ == first_sector && self->len_ == sectors && self->underlying_ == underlying);

/* a volume of total_sectors sectors starting at first_sector reads [first_sector, first_sector + total_sectors) and nothing else */
static void Volume_ctor(struct VolumeM *self, sector_count_type catalog_location, unsigned long first_sector, unsigned long total_sectors, struct DataAccess *media_)
__CPROVER_requires(__CPROVER_is_fresh(self, sizeof(*self)) && total_sectors <= UINT_MAX)
__CPROVER_assigns(__CPROVER_object_whole(self))
__CPROVER_ensures(self->volume_tracks_.origin_ == first_sector && self->volume_tracks_.len_ == total_sectors && self->volume_tracks_.underlying_ == media_)
__CPROVER_ensures(self->total_sectors_ == total_sectors && self->catalog_location_ == catalog_location);

/* an Opus DDOS volume reads exactly the extent the disc catalogue gives it (contracts/dfs_opus.h: disjoint, inside the disc) */
static void init_volumes_opus_vol(struct VolumeM *vol, int fmt, const struct VolumeLocation *vol_loc, struct DataAccess *media_)
__CPROVER_requires(__CPROVER_is_fresh(vol, sizeof(*vol)) && __CPROVER_is_fresh(vol_loc, sizeof(*vol_loc)) && vol_loc->len_ <= UINT_MAX && vol_loc->catalog_location_ >= 0)
__CPROVER_assigns(__CPROVER_object_whole(vol))
__CPROVER_ensures(vol->volume_tracks_.origin_ == vol_loc->start_sector_ && vol->volume_tracks_.len_ == vol_loc->len_ && vol->volume_tracks_.underlying_ == media_)
__CPROVER_ensures(vol->catalog_location_ == (sector_count_type)vol_loc->catalog_location_);

/* any other file system is one volume covering the sectors of the geometry: [0, C*H*S) */
static void init_volumes_plain_vol(struct VolumeM *vol, int fmt, const struct Geometry *geom_, struct DataAccess *media_)
__CPROVER_requires(__CPROVER_is_fresh(vol, sizeof(*vol)) && __CPROVER_is_fresh(geom_, sizeof(*geom_)) &&
                   geom_->cylinders >= 0 && geom_->cylinders <= 255 && geom_->heads >= 0 && geom_->heads <= 2 && geom_->sectors <= 255)
__CPROVER_assigns(__CPROVER_object_whole(vol))
__CPROVER_ensures(vol->volume_tracks_.origin_ == 0 && vol->volume_tracks_.len_ == (unsigned)geom_->cylinders * (unsigned)geom_->heads * geom_->sectors &&
                  vol->volume_tracks_.underlying_ == media_ && vol->catalog_location_ == 0);

/* ---- Volume::map_sectors (C14): the root catalogue is asked to label its own sectors at the catalogue's location and its files
   relative to the start of the volume's data area (Catalog::map_sectors(vol, catalog_origin, data_origin, out) has its own
   contract in harness/dfs_space.c).  The two differ on Opus DDOS, where the catalogues live in track 0. ---- */
static struct { unsigned calls; const struct VolumeM *vol; unsigned long cat_origin, data_origin; } MSV;
static void catalog_map_sectors_v(const struct VolumeM *v, unsigned long cat_origin, unsigned long data_origin)
{ MSV.calls++; MSV.vol = v; MSV.cat_origin = cat_origin; MSV.data_origin = data_origin; }
#include "VolumeAccess_origin.inc"
#include "Volume_volume_data_origin.inc"
#include "Volume_map_sectors.inc"
static unsigned long VolumeAccess_origin(const struct VolumeAccess *self)
__CPROVER_requires(__CPROVER_is_fresh(self, sizeof(*self))) __CPROVER_assigns()
__CPROVER_ensures(__CPROVER_return_value == self->origin_);
static unsigned long Volume_volume_data_origin(const struct VolumeM *self)
__CPROVER_requires(__CPROVER_is_fresh(self, sizeof(*self))) __CPROVER_assigns()
__CPROVER_ensures(__CPROVER_return_value == self->volume_tracks_.origin_);
static void Volume_map_sectors(const struct VolumeM *self)
__CPROVER_requires(__CPROVER_is_fresh(self, sizeof(*self)) && MSV.calls == 0)
__CPROVER_assigns(MSV)
__CPROVER_ensures(MSV.calls == 1 && MSV.vol == self && MSV.cat_origin == self->catalog_location_ && MSV.data_origin == self->volume_tracks_.origin_);
void h_va_origin(void) { const struct VolumeAccess *a; VolumeAccess_origin(a); }
void h_vol_data_origin(void) { const struct VolumeM *v; Volume_volume_data_origin(v); }
void h_vol_map_sectors(void) { const struct VolumeM *v; MSV.calls = 0; Volume_map_sectors(v); }
void h_access_ctor(void) { struct VolumeAccess *a; struct DataAccess *m; VolumeAccess_ctor(a, nondet_ulong(), nondet_ulong(), m); }
void h_volume_ctor(void) { struct VolumeM *v; struct DataAccess *m; Volume_ctor(v, nondet_uint(), nondet_ulong(), nondet_ulong(), m); }
void h_opus_vol(void) { struct VolumeM *v; const struct VolumeLocation *l; struct DataAccess *m; init_volumes_opus_vol(v, nondet_int(), l, m); }
void h_plain_vol(void) { struct VolumeM *v; const struct Geometry *g; struct DataAccess *m; init_volumes_plain_vol(v, nondet_int(), g, m); }
