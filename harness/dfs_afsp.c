/* Proof harness: wildcard character -> ERE fragment (afsp.cc). */
#include "dfs_types.h"
static void mon_read_block(struct DataAccess *obj, unsigned long lba) { (void)obj; (void)lba; }
static void mon_read_result(struct DataAccess *obj, _Bool ok) { (void)obj; (void)ok; }
#include "afsp_up.inc"
#include "afsp_down.inc"
#include "wildcard_char_to_ere.inc"
#include "dfs_afsp.h"
void h_up(void) { afsp_up((char)nondet_uchar()); }
void h_down(void) { afsp_down((char)nondet_uchar()); }
void h_wild(void) { struct charvec *v; char w = (char)nondet_uchar(); wildcard_char_to_ere(w, v); VERIF_COVER(w == '^', "caret"); VERIF_COVER(w == 'q', "letter"); }
