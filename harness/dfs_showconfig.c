/* Proof harness: which drive numbers the --show-config listing covers (storage.cc show_drive_configuration, its loop).  C16:
 * "--show-config reports this assignment": every drive number from 0 to the highest occupied one -- and at least 0..3, the Acorn
 * default -- gets its line, in order, once. */
#include "dfs_types.h"
static void mon_read_block(struct DataAccess *obj, unsigned long lba) { (void)obj; (void)lba; }
static void mon_read_result(struct DataAccess *obj, _Bool ok) { (void)obj; (void)ok; }
/* std::map<drive_number, ...> drives_: number of entries and the highest key (n entries with distinct keys <= max_key: n <= max_key + 1) */
struct DrivesM { size_t n; unsigned int max_key; };
static unsigned int umax_(unsigned int a, unsigned int b) { return a < b ? b : a; }           /* std::max on SurfaceSelector (operator< compares d_) */
static struct { unsigned long calls; _Bool in_order; } SC;
static void show_model(unsigned int d) { if (d != SC.calls) SC.in_order = 0; if (SC.calls < (1ul << 40)) SC.calls++; }
#include "SurfaceSelector_postincrement.inc"
#include "acorn_default_last_surface.inc"
#define SHOW_CONFIG_LOOP_CONTRACT \
  __CPROVER_assigns(i, SC) \
  __CPROVER_loop_invariant(i <= loop_limit && SC.calls == i && SC.in_order) \
  __CPROVER_decreases(loop_limit - i)
#include "show_config_range.inc"
static unsigned int SurfaceSelector_postincrement(unsigned int *d_p)
__CPROVER_requires(__CPROVER_is_fresh(d_p, sizeof(*d_p)))
__CPROVER_assigns(*d_p)
__CPROVER_ensures(__CPROVER_return_value == __CPROVER_old(*d_p) && *d_p == __CPROVER_old(*d_p) + 1u);
static unsigned int acorn_default_last_surface(void)
__CPROVER_assigns() __CPROVER_ensures(__CPROVER_return_value == 3);
static void show_config_range(const struct DrivesM *drives_)
__CPROVER_requires(__CPROVER_is_fresh(drives_, sizeof(*drives_)) && SC.calls == 0 && SC.in_order)
__CPROVER_requires(drives_->n <= (size_t)drives_->max_key + 1 && drives_->max_key < 0xFFFFFFFFu)
__CPROVER_assigns(SC)
__CPROVER_ensures(SC.in_order && SC.calls == (unsigned long)((drives_->n != 0 && drives_->max_key > 3) ? drives_->max_key : 3u) + 1);
void h_postincrement(void) { unsigned int *p; SurfaceSelector_postincrement(p); }
void h_acorn_last(void) { acorn_default_last_surface(); }
void h_show_config_range(void) { const struct DrivesM *d; SC.calls = 0; SC.in_order = 1; show_config_range(d); }
