/* Proof harnesses for /repo/basic/lines.c (the REAL translation unit is #included below).
 * One entry point per obligation group; DIALECT selects the spec table (enum Dialect value). */
#include <stddef.h>
#include <limits.h>
#include "basic_stdio.h"                 /* models: must precede the real code */
#include "decoder.h"
#include "tokens.h"
#include "tokens.c"                      /* REAL code: sentinels, build_mapping, ... */
#include "basic_spec_tables.h"
static unsigned short mon_cnt[4][257];   /* prefix counts of h_line (spec definition, h_fill_counts) */
#include "basic_line_monitor.h"
#include "basic_file_monitor.h"
#include "basic_lines.h"                 /* the contracts */
#include "lines.c"                       /* REAL code under contract */

unsigned char nondet_uchar(void);

int nondet_int(void);
unsigned nondet_uint(void);
unsigned long nondet_ulong(void);

static unsigned char h_line[257];

/* the spec definition of the prefix counts (obviously-correct loop; bound 255 = UCHAR_MAX, unwound
   with an unwinding assertion: complete) */
static void h_fill_counts(void)
{
  unsigned i;
  mon_cnt[0][0] = mon_cnt[1][0] = mon_cnt[2][0] = mon_cnt[3][0] = 0;
  for (i = 0; i < 256; ++i)   /* constant bound: all prefixes of the 256-byte buffer */
    {
      mon_cnt[0][i + 1] = (unsigned short)(mon_cnt[0][i] + (h_line[i] == 0xED));
      mon_cnt[1][i + 1] = (unsigned short)(mon_cnt[1][i] + (h_line[i] == 0xFD));
      mon_cnt[2][i + 1] = (unsigned short)(mon_cnt[2][i] + (h_line[i] == 0xE3));
      mon_cnt[3][i + 1] = (unsigned short)(mon_cnt[3][i] + (h_line[i] == 0xF5));
    }
  mon_c0 = mon_cnt[0][mon_len]; mon_c1 = mon_cnt[1][mon_len];
  mon_c2 = mon_cnt[2][mon_len]; mon_c3 = mon_cnt[3][mon_len];
}

static void h_setup_line(void)
{
  mon_on = 1;
  fmon_on = 0;
  mon_data = h_line;          /* contents unconstrained */
  mon_len = nondet_uchar();
  mon_hi = nondet_uchar();
  mon_lo = nondet_uchar();
  mon_listo = nondet_int();
  mon_map = &SPEC_MAP;
  mon_indent_in = nondet_int();
  g_diag = nondet_ulong();

  g_wfail = nondet_uint();
  g_lines_listed = nondet_ulong();
}

void h_print_target(void)
{
  h_setup_line();
  mon_phase = PH_TOKENS; mon_q = 0; mon_i = nondet_uchar();
  bool r = print_target_line_number(nondet_uchar(), nondet_uchar(), nondet_uchar());
  VERIF_COVER(r, "r");
  VERIF_COVER(!r, "!r");
}

void h_count(void)
{
  h_setup_line();
  h_fill_counts();
  int r = count(nondet_uchar(), (const char *)mon_data, mon_len);
  VERIF_COVER(r == 255, "r == 255");
  VERIF_COVER(r == 0, "r == 0");
}

void h_handle_token(void)
{
  const unsigned char **input;
  unsigned char *len;
  h_setup_line();
  mon_phase = PH_TOKENS; mon_q = 0; mon_i = nondet_uchar();
  bool r = handle_token(nondet_uchar(), nondet_long(), input, len, &SPEC_MAP);
  VERIF_COVER(r, "r");
  VERIF_COVER(!r, "!r");
}

void h_decode_line(void)
{
  int *indent;
  h_setup_line();
  h_fill_counts();
  mon_phase = PH_NUM; mon_i = 0; mon_q = 0;
  bool r = decode_line(mon_hi, mon_lo, mon_len, (const char *)mon_data, nondet_long(),
                       &SPEC_MAP, indent, mon_listo);
  VERIF_COVER(r && mon_len > 10, "r && mon_len > 10");
  VERIF_COVER(!r, "!r");
}

/* ---- L3: the program decoders over the ghost file, decode_line replaced by its contract ------- */
static void h_setup_file(void)
{
  mon_on = 1;
  fmon_on = 1;
  g_len = nondet_size_t();           /* contents of g_file[] unconstrained */
  g_pos = 0;
  fmon_phase = FPH_START;
  fmon_lines = nondet_ulong();
  g_lines_listed = fmon_lines;
  fmon_gk = nondet_size_t();
  mon_map = &SPEC_MAP;
  mon_listo = nondet_int();
  mon_indent_run = 0;
  g_diag = nondet_ulong();

  g_wfail = nondet_uint();
  g_read_error_happened = 0;
}

void h_decode_be(void)
{
  h_setup_file();
  bool r = decode_big_endian_program(&verif_file_obj, "name", &SPEC_MAP, mon_listo);
  VERIF_COVER(r, "success");
  VERIF_COVER(!r, "failure");
}

void h_decode_le(void)
{
  h_setup_file();
  bool r = decode_little_endian_program(&verif_file_obj, "name", &SPEC_MAP, mon_listo);
  VERIF_COVER(r, "success");
  VERIF_COVER(!r, "failure");
}
