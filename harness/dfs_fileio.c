/* Proof harnesses: FileView::read_block, safe_unsigned_multiply, FilePresentedBlockwise::read_block. */
#include "dfs_types.h"
#ifndef VERIF_TAKE
#define VERIF_TAKE 10u
#define VERIF_LEAVE 10u
#endif
static struct DataAccess h_media;
static size_t g_k;
static unsigned long g_t, g_s;      /* ghost: track and sector-in-track of the sector being read */
static void mon_read_block(struct DataAccess *obj, unsigned long lba) { (void)obj; (void)lba; }
static void mon_read_result(struct DataAccess *obj, _Bool ok) { (void)obj; (void)ok; }
#include "safe_unsigned_multiply_ul.inc"
#include "FileView_read_block.inc"
#include "FilePresentedBlockwise_read_block.inc"
#include "dfs_fileio.h"

void h_safe_mul(void) { g_exc = EXC_NONE; unsigned long r = safe_unsigned_multiply_ul(nondet_ulong(), nondet_ulong()); VERIF_COVER(r > (1ul << 40), "big product"); }
void h_fileview(void)
{
  struct FileView *self;
  g_exc = EXC_NONE; g_rb_calls = nondet_ulong() & 0xFFFF;
  g_t = nondet_ulong(); g_s = nondet_ulong();
  opt_SectorBuffer r = FileView_read_block(self, nondet_ulong());
  VERIF_COVER(r.has && self->total_ > 300, "read");
  VERIF_COVER(!r.has && self->take_ == 0, "unformatted");
}
void h_blockwise(void)
{
  struct FilePresentedBlockwise *self;
  g_k = nondet_size_t(); g_fa_calls = nondet_ulong() & 0xFFFF;
  opt_SectorBuffer r = FilePresentedBlockwise_read_block(self, nondet_ulong());
  VERIF_COVER(r.has, "full sector");
  VERIF_COVER(!r.has, "short read");
}
