/* Proof harness: ViewFile::connect_drives (img_sdf.cc): the sector-dump containers (.ssd/.sdd/.dsd/.ddd, .mmb) hand one
 * drive configuration per view to StorageConfiguration::connect_drives, in view order -- also for an unformatted view
 * (an MMB slot marked unformatted or invalid still occupies its drive slot and is reported as unformatted: C04), so that
 * slot k of an MMB file is always the k-th drive of the sequence (C16: no image is hidden or renumbered). */
#include "dfs_types.h"
static void mon_read_block(struct DataAccess *obj, unsigned long lba) { (void)obj; (void)lba; }
static void mon_read_result(struct DataAccess *obj, _Bool ok) { (void)obj; (void)ok; }
#define VIEWS_MAX 511
struct ViewM { _Bool formatted; };
struct ViewFileM { size_t views_n; };                 /* views_ is the harness array h_views[0 .. views_n) */
static struct ViewM h_views[VIEWS_MAX];
struct opt_format { _Bool has; int val; };
struct DriveConfigM { struct opt_format fmt; struct ViewM *vw; };
static size_t g_e;                                    /* ghost index of one view */
static struct { size_t n; struct ViewM *at_e; _Bool at_e_has_fmt; _Bool identify_on_unformatted; size_t passed; _Bool connect_called; } MV;
static _Bool view_is_formatted(const struct ViewM *v) { return v->formatted; }
static struct opt_format identify_model(struct ViewM *v)            /* identify_file_system: reads the view; any outcome */
{
  struct opt_format r;
  if (!v->formatted) MV.identify_on_unformatted = 1;
  r.has = nondet_bool(); r.val = nondet_int();
  return r;
}
static void drives_emplace_back(const struct DriveConfigM *dc)
{
  if (MV.n == g_e) { MV.at_e = dc->vw; MV.at_e_has_fmt = dc->fmt.has; }
  MV.n = MV.n + 1;
}
static bool storage_connect_drives_model(int how) { (void)how; MV.connect_called = 1; MV.passed = MV.n; return nondet_bool(); }
#define VIEWS_LOOP_CONTRACT \
  __CPROVER_assigns(vi_, MV.n, MV.at_e, MV.at_e_has_fmt, MV.identify_on_unformatted) \
  __CPROVER_loop_invariant(vi_ <= self->views_n && MV.n == vi_ && !MV.identify_on_unformatted) \
  __CPROVER_loop_invariant((g_e < vi_) ==> (MV.at_e == &h_views[g_e] && (MV.at_e_has_fmt ==> h_views[g_e].formatted))) \
  __CPROVER_decreases(self->views_n - vi_)
#include "ViewFile_connect_drives.inc"

static bool ViewFile_connect_drives(struct ViewFileM *self, int how)
__CPROVER_requires(__CPROVER_is_fresh(self, sizeof(*self)) && self->views_n <= VIEWS_MAX)
__CPROVER_requires(MV.n == 0 && !MV.identify_on_unformatted && !MV.connect_called)
__CPROVER_assigns(MV)
/* exactly one drive configuration per view, in order, all passed on in one call */
__CPROVER_ensures(MV.connect_called && MV.passed == self->views_n && MV.n == self->views_n)
__CPROVER_ensures((g_e < self->views_n) ==> MV.at_e == &h_views[g_e])
/* an unformatted view is never probed and carries no file-system format */
__CPROVER_ensures(!MV.identify_on_unformatted)
__CPROVER_ensures((g_e < self->views_n && MV.at_e_has_fmt) ==> h_views[g_e].formatted);

void h_viewfile_connect(void)
{
  struct ViewFileM *f;
  g_e = nondet_size_t();
  MV.n = 0; MV.identify_on_unformatted = 0; MV.connect_called = 0; MV.passed = 0; MV.at_e = 0; MV.at_e_has_fmt = 0;
  ViewFile_connect_drives(f, nondet_int());
  VERIF_COVER(MV.n == 511, "an MMB file: 511 views");
  VERIF_COVER(MV.n == 2 && g_e == 1 && !h_views[1].formatted, "second view unformatted");
}
