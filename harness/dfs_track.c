/* Proof harnesses: CRC-16, BitStream accessors, MFM read_byte. */
#include "dfs_types.h"
#ifndef VERIF_STRIDE
#define VERIF_STRIDE 1
#endif
static void mon_read_block(struct DataAccess *obj, unsigned long lba) { (void)obj; (void)lba; }
static void mon_read_result(struct DataAccess *obj, _Bool ok) { (void)obj; (void)ok; }
#ifndef CRC_MAXLEN
#define CRC_MAXLEN 264                 /* longest block the decoders pass: 3 + 1 + 256 + 2 bytes */
#endif
#ifndef TRACK_BYTES
#define TRACK_BYTES 16384
#endif
static uint8_t h_crc_data[CRC_MAXLEN];
static unsigned short h_crc_pref[CRC_MAXLEN + 1];
static byte h_track[TRACK_BYTES];
static unsigned g_bit;                /* ghost bit index 0..7 */
#define SPEC_SHIFT_(c) ((((c) & 0x8000ul) ? ((((c) << 1) ^ 0x1021ul)) : ((c) << 1)) & 0xFFFFul)
/* the specification of the byte step: XOR the byte into the top, then 8 bit-serial shifts */
static unsigned long spec_crc_byte(unsigned long c, uint8_t b)
{
  c ^= ((unsigned long)b) << 8;
  c = SPEC_SHIFT_(c); c = SPEC_SHIFT_(c); c = SPEC_SHIFT_(c); c = SPEC_SHIFT_(c);
  c = SPEC_SHIFT_(c); c = SPEC_SHIFT_(c); c = SPEC_SHIFT_(c); c = SPEC_SHIFT_(c);
  return c;
}
static void h_fill_crc(unsigned long init)
{
  unsigned i;
  h_crc_pref[0] = (unsigned short)init;
  for (i = 0; i < CRC_MAXLEN; ++i) h_crc_pref[i + 1] = (unsigned short)spec_crc_byte(h_crc_pref[i], h_crc_data[i]);
}
#define CRC_UPDATE_LOOP_CONTRACT \
  __CPROVER_assigns(p, crc_, __CPROVER_object_whole(h_inner)) \
  __CPROVER_loop_invariant(__CPROVER_same_object(p, start) && __CPROVER_POINTER_OFFSET(p) >= __CPROVER_POINTER_OFFSET(start) && __CPROVER_POINTER_OFFSET(p) <= __CPROVER_POINTER_OFFSET(end)) \
  __CPROVER_loop_invariant(__CPROVER_POINTER_OFFSET(p) - __CPROVER_POINTER_OFFSET(start) <= CRC_MAXLEN && __CPROVER_POINTER_OFFSET(p) >= __CPROVER_POINTER_OFFSET(start) && \
                           crc_ == h_crc_pref[__CPROVER_POINTER_OFFSET(p) - __CPROVER_POINTER_OFFSET(start)] && crc_ <= 0xFFFFul) \
  __CPROVER_decreases(__CPROVER_POINTER_OFFSET(end) - __CPROVER_POINTER_OFFSET(p))
/* ghost for the 8-step inner loop: h_inner[j] = state after j bit steps of the current byte (set up, by an
   extraction rule, just before the inner loop; loop-free) */
static unsigned long h_inner[9];
#define CRC_INNER_GHOST_SETUP \
  h_inner[0] = crc_; h_inner[1] = SPEC_SHIFT_(h_inner[0]); h_inner[2] = SPEC_SHIFT_(h_inner[1]); h_inner[3] = SPEC_SHIFT_(h_inner[2]); \
  h_inner[4] = SPEC_SHIFT_(h_inner[3]); h_inner[5] = SPEC_SHIFT_(h_inner[4]); h_inner[6] = SPEC_SHIFT_(h_inner[5]); \
  h_inner[7] = SPEC_SHIFT_(h_inner[6]); h_inner[8] = SPEC_SHIFT_(h_inner[7]);
#define CRC_INNER_LOOP_CONTRACT \
  __CPROVER_assigns(k, crc_) \
  __CPROVER_loop_invariant(0 <= k && k <= 8 && crc_ == h_inner[k] && crc_ <= 0xFFFFul) \
  __CPROVER_decreases(8 - k)
#include "crc_cycle.inc"
#include "CRC16Base_update.inc"
#include "CRC16Base_update_bit.inc"
#include "reverse_bit_order.inc"
#include "BitStream_raw_pos.inc"
#include "BitStream_rawbit.inc"
#include "BitStream_getbit.inc"
#include "BitStream_size.inc"
static unsigned long g_diag;
#include "mfm_read_byte.inc"
#include "dfs_track.h"

void h_crc_cycle(void) { crc_cycle(nondet_ulong()); }
void h_crc_update_bit(void) { struct CRC16Base *c; CRC16Base_update_bit(c, nondet_bool()); }
void h_crc_update(void)
{
  struct CRC16Base *c;
  unsigned long init = nondet_ulong();
  __CPROVER_assume(init <= 0xFFFFul);
  h_fill_crc(init);
  size_t n = nondet_size_t();
  __CPROVER_assume(n <= CRC_MAXLEN);
  CRC16Base_update(c, h_crc_data, h_crc_data + n);
}
void h_crc_update_one(void)
{
  /* one byte: the byte step of update() is the bit-serial specification step (the loop is unwound once) */
  struct CRC16Base *c;
  unsigned long init = nondet_ulong();
  __CPROVER_assume(init <= 0xFFFFul);
  h_crc_pref[0] = (unsigned short)init;
  h_crc_pref[1] = (unsigned short)spec_crc_byte(init, h_crc_data[0]);
  CRC16Base_update(c, h_crc_data, h_crc_data + 1);
}
void h_reverse(void) { g_bit = nondet_uint(); __CPROVER_assume(g_bit < 8); reverse_bit_order(nondet_uchar()); }
void h_raw_pos(void) { struct BitStream *b; BitStream_raw_pos(b, nondet_size_t()); }
void h_rawbit(void) { struct BitStream *b; BitStream_rawbit(b, nondet_size_t()); }
void h_getbit(void) { struct BitStream *b; BitStream_getbit(b, nondet_size_t()); }
void h_size(void) { struct BitStream *b; BitStream_size(b); }
void h_mfm_read_byte(void)
{
  struct BitStream *b; size_t *pos;
  g_bit = nondet_uint(); __CPROVER_assume(g_bit < 8); g_diag = nondet_ulong();
  struct opt_byte r = mfm_read_byte(b, pos);
  VERIF_COVER(r.has && r.val == 0xA1, "decoded 0xA1");
  VERIF_COVER(!r.has, "rejected");
}
