/* Proof harnesses: CRC-16, BitStream accessors, MFM read_byte. */
#include "dfs_types.h"
#ifndef VERIF_STRIDE
#define VERIF_STRIDE 1
#endif
static void mon_read_block(struct DataAccess *obj, unsigned long lba) { (void)obj; (void)lba; }
static void mon_read_result(struct DataAccess *obj, _Bool ok) { (void)obj; (void)ok; }
#ifndef CRC_MAXLEN
#define CRC_MAXLEN 264                 /* longest block the decoders pass: 3 + 1 + 256 + 2 bytes */
#endif
#ifndef TRACK_BYTES
#define TRACK_BYTES 16384
#endif
static uint8_t h_crc_data[CRC_MAXLEN];
static unsigned short h_crc_pref[CRC_MAXLEN + 1];
#ifdef VERIF_TRACK_UNBOUNDED     /* jobs in which the track is only named by specifications (CELL), never indexed by code: the
                                    contents as a function of position; lengths stay bounded by TRACK_BYTES in BS_OK */
static byte h_track[__CPROVER_constant_infinity_uint];
#else
static byte h_track[TRACK_BYTES];
#endif
static unsigned g_bit;                /* ghost bit index 0..7 */
#define SPEC_SHIFT_(c) ((((c) & 0x8000ul) ? ((((c) << 1) ^ 0x1021ul)) : ((c) << 1)) & 0xFFFFul)
/* the specification of the byte step: XOR the byte into the top, then 8 bit-serial shifts */
static unsigned long spec_crc_byte(unsigned long c, uint8_t b)
{
  c ^= ((unsigned long)b) << 8;
  c = SPEC_SHIFT_(c); c = SPEC_SHIFT_(c); c = SPEC_SHIFT_(c); c = SPEC_SHIFT_(c);
  c = SPEC_SHIFT_(c); c = SPEC_SHIFT_(c); c = SPEC_SHIFT_(c); c = SPEC_SHIFT_(c);
  return c;
}
static void h_fill_crc(unsigned long init)
{
  unsigned i;
  h_crc_pref[0] = (unsigned short)init;
  for (i = 0; i < CRC_MAXLEN; ++i) h_crc_pref[i + 1] = (unsigned short)spec_crc_byte(h_crc_pref[i], h_crc_data[i]);
}
#define CRC_UPDATE_LOOP_CONTRACT \
  __CPROVER_assigns(p, crc_, __CPROVER_object_whole(h_inner)) \
  __CPROVER_loop_invariant(__CPROVER_same_object(p, start) && __CPROVER_POINTER_OFFSET(p) >= __CPROVER_POINTER_OFFSET(start) && __CPROVER_POINTER_OFFSET(p) <= __CPROVER_POINTER_OFFSET(end)) \
  __CPROVER_loop_invariant(__CPROVER_POINTER_OFFSET(p) <= CRC_MAXLEN && __CPROVER_POINTER_OFFSET(p) >= __CPROVER_POINTER_OFFSET(start) && \
                           crc_ == h_crc_pref[__CPROVER_POINTER_OFFSET(p)] && crc_ <= 0xFFFFul) \
  __CPROVER_decreases(__CPROVER_POINTER_OFFSET(end) - __CPROVER_POINTER_OFFSET(p))
/* ghost for the 8-step inner loop: h_inner[j] = state after j bit steps of the current byte (set up, by an
   extraction rule, just before the inner loop; loop-free) */
static unsigned long h_inner[9];
#define CRC_INNER_GHOST_SETUP \
  h_inner[0] = crc_; h_inner[1] = SPEC_SHIFT_(h_inner[0]); h_inner[2] = SPEC_SHIFT_(h_inner[1]); h_inner[3] = SPEC_SHIFT_(h_inner[2]); \
  h_inner[4] = SPEC_SHIFT_(h_inner[3]); h_inner[5] = SPEC_SHIFT_(h_inner[4]); h_inner[6] = SPEC_SHIFT_(h_inner[5]); \
  h_inner[7] = SPEC_SHIFT_(h_inner[6]); h_inner[8] = SPEC_SHIFT_(h_inner[7]);
#define CRC_INNER_LOOP_CONTRACT \
  __CPROVER_assigns(k, crc_) \
  __CPROVER_loop_invariant(0 <= k && k <= 8 && crc_ == h_inner[k] && crc_ <= 0xFFFFul) \
  __CPROVER_decreases(8 - k)
#include "crc_cycle.inc"
#include "CRC16Base_update.inc"
#include "CRC16Base_update_bit.inc"
#include "reverse_bit_order.inc"
#include "BitStream_raw_pos.inc"
#include "BitStream_rawbit.inc"
#include "BitStream_getbit.inc"
#include "BitStream_size.inc"
static unsigned long g_diag;
/* CELL / CELL_IN as in contracts/dfs_track.h (needed by the loop contract before that header is included) */
#define CELL_IN(bs, p) ((p) * VERIF_STRIDE + (bs)->first_ < (bs)->raw_bit_size_)     /* BS_OK: stride_ == VERIF_STRIDE */
#define CELL(bs, p) (((h_track[((p) * VERIF_STRIDE + (bs)->first_) / 8] >> (((p) * VERIF_STRIDE + (bs)->first_) % 8)) & 1) != 0)
#define MFM_BYTE_LOOP_CONTRACT \
  __CPROVER_assigns(bitnum, pos, prev_data_bit, data, g_diag) \
  __CPROVER_loop_invariant(0 <= bitnum && bitnum <= 8 && pos == began_at + 2 * (size_t)bitnum && g_diag == __CPROVER_loop_entry(g_diag)) \
  __CPROVER_loop_invariant(CELL_IN(bits, pos - 1) && prev_data_bit == CELL(bits, pos - 1) && data < (1u << bitnum)) \
  __CPROVER_loop_invariant((g_bit < (unsigned)bitnum) ==> \
     ((((data >> ((unsigned)(bitnum - 1) - g_bit)) & 1) != 0) == CELL(bits, began_at + 2 * g_bit + 1) && \
      CELL(bits, began_at + 2 * g_bit) == !(CELL(bits, began_at + 2 * g_bit - 1) || CELL(bits, began_at + 2 * g_bit + 1)))) \
  __CPROVER_decreases(8 - bitnum)
#include "mfm_read_byte.inc"
#include "dfs_track.h"

/* ================= the MFM decoder (contracts/dfs_mfm.h) ========================================================= */
#include "track_constants.inc"
#include "dfs_mfm.h"
/* ---- models of the std::vector<byte> operations used by the extracted code (trusted) ---- */
static void decvec_push(struct decvec *v, byte val)                 /* push_back */
{
  __CPROVER_assert(v->n < DECVEC_CAP, "model: vector storage of DECVEC_CAP bytes");
  h_vec_store[v->n] = val; v->n = v->n + 1;
}
static byte *decvec_at(struct decvec *v, size_t i)                  /* operator[]: undefined at or beyond size() */
{
  __CPROVER_assert(i < v->n, "C07: vector index is below size()");
  return &h_vec_store[i];
}
#define DECVEC_AT(v, i) (*decvec_at((v), (size_t)(i)))
/* the constant A1 A1 A1 array of check_crc_with_a1s sits at the front of the logical CRC stream; its contents, taken from
   the source initialiser, must be the stream's first bytes */
static const byte *crc_stream_place(const byte *src, size_t n)
{
  __CPROVER_assert(n == 3 && src[0] == h_crc_data[0] && src[1] == h_crc_data[1] && src[2] == h_crc_data[2],
                   "C06: the CRC is computed over the three A1 sync bytes first");
  return h_crc_data;
}
#define SCAN_LOOP_CONTRACT \
  __CPROVER_assigns(i, i_cooked, shifter, got, g_scan_q) \
  __CPROVER_loop_invariant((g_q >= start && g_q < i_cooked) ==> \
     (g_scan_q.got == SCAN_GOT_AT(start, g_q) && !((mask & g_scan_q.got) == mask && (mask & g_scan_q.win) == needle) && \
      ((g_p >= start && g_p <= g_q && g_q - g_p < 64 && CELL_IN(self, g_q)) ==> ((((g_scan_q.win >> ((g_q - g_p) & 63)) & 1) != 0) == CELL(self, g_p))))) \
  __CPROVER_loop_invariant(i_cooked >= start && i_cooked <= start + self->raw_bit_size_ && i == i_cooked * self->stride_ + self->first_) \
  __CPROVER_loop_invariant(got == ((i_cooked - start >= 64) ? 0xFFFFFFFFFFFFFFFFull : ((1ull << ((i_cooked - start) & 63)) - 1ull))) \
  __CPROVER_loop_invariant((g_p >= start && g_p < i_cooked && i_cooked - 1 - g_p < 64 && g_p * self->stride_ + self->first_ < self->raw_bit_size_) ==> \
                           ((((shifter >> ((i_cooked - 1 - g_p) & 63)) & 1) != 0) == CELL(self, g_p)))
#define COPY_MFM_LOOP_CONTRACT \
  __CPROVER_assigns(n, thisbit, out->n, __CPROVER_object_whole(h_crc_data), g_diag) \
  __CPROVER_loop_invariant(n <= __CPROVER_loop_entry(n) && out->n == __CPROVER_loop_entry(out->n) + (__CPROVER_loop_entry(n) - n) && \
                           thisbit == __CPROVER_loop_entry(thisbit) + 16 * (__CPROVER_loop_entry(n) - n) && g_diag == __CPROVER_loop_entry(g_diag) && CELL_IN(bits, thisbit - 1)) \
  COPY_MFM_CONTENT_INVARIANT
#ifdef VERIF_COPY_NOCONTENT
#define COPY_MFM_CONTENT_INVARIANT
#else
#define COPY_MFM_CONTENT_INVARIANT \
  __CPROVER_loop_invariant((g_m < __CPROVER_loop_entry(n) - n) ==> \
     ((((h_vec_store[__CPROVER_loop_entry(out->n) + g_m] >> (7 - g_bit)) & 1) != 0) == CELL(bits, __CPROVER_loop_entry(thisbit) + 16 * g_m + 2 * g_bit + 1) && \
      CELL(bits, __CPROVER_loop_entry(thisbit) + 16 * g_m + 2 * g_bit) == \
        !(CELL(bits, __CPROVER_loop_entry(thisbit) + 16 * g_m + 2 * g_bit - 1) || CELL(bits, __CPROVER_loop_entry(thisbit) + 16 * g_m + 2 * g_bit + 1))))
#endif
#include "BitStream_scan_for.inc"
#include "copy_mfm_bytes.inc"
#include "CCITT_CRC16_init.inc"
#include "CRC16Base_get.inc"
#include "check_crc_with_a1s.inc"
#include "decode_sector_address_and_size.inc"
static unsigned long CRC16Base_get(const struct CRC16Base *self)
__CPROVER_requires(__CPROVER_is_fresh(self, sizeof(*self))) __CPROVER_assigns()
__CPROVER_ensures(__CPROVER_return_value == self->crc_);
static unsigned long CCITT_CRC16_init(void)
__CPROVER_assigns() __CPROVER_ensures(__CPROVER_return_value == 0xFFFFul);     /* CRC-16/CCITT as used on disc: initial value 0xFFFF */

/* ---- FM ---- */
#define FM_BYTE_LOOP_CONTRACT \
  __CPROVER_assigns(bitnum, start, clock, data) \
  __CPROVER_loop_invariant(0 <= bitnum && bitnum <= 8 && start == __CPROVER_loop_entry(start) + 2 * (size_t)bitnum && \
                           clock < (1u << bitnum) && data < (1u << bitnum) && (bitnum == 0 || CELL_IN(bits, start - 1))) \
  __CPROVER_loop_invariant((g_bit < (unsigned)bitnum) ==> \
     ((((clock >> ((unsigned)(bitnum - 1) - g_bit)) & 1) != 0) == CELL(bits, __CPROVER_loop_entry(start) + 2 * g_bit) && \
      (((data >> ((unsigned)(bitnum - 1) - g_bit)) & 1) != 0) == CELL(bits, __CPROVER_loop_entry(start) + 2 * g_bit + 1))) \
  __CPROVER_decreases(8 - bitnum)
#define COPY_FM_LOOP_CONTRACT \
  __CPROVER_assigns(n, thisbit, out->n, __CPROVER_object_whole(h_crc_data), g_diag) \
  __CPROVER_loop_invariant(n <= __CPROVER_loop_entry(n) && out->n == __CPROVER_loop_entry(out->n) + (__CPROVER_loop_entry(n) - n) && \
                           thisbit == __CPROVER_loop_entry(thisbit) + 16 * (__CPROVER_loop_entry(n) - n) && g_diag == __CPROVER_loop_entry(g_diag)) \
  __CPROVER_loop_invariant((g_m < __CPROVER_loop_entry(n) - n) ==> \
     ((((h_vec_store[__CPROVER_loop_entry(out->n) + g_m] >> (7 - g_bit)) & 1) != 0) == CELL(bits, __CPROVER_loop_entry(thisbit) + 16 * g_m + 2 * g_bit + 1) && \
      CELL(bits, __CPROVER_loop_entry(thisbit) + 16 * g_m + 2 * g_bit)))
#define FM_FIND_LOOP_CONTRACT \
  __CPROVER_assigns(thisbit, g_scan_q) \
  __CPROVER_loop_invariant(thisbit >= __CPROVER_loop_entry(thisbit) && (thisbit == __CPROVER_loop_entry(thisbit) || thisbit <= 8 * TRACK_BYTES))
#include "fm_read_byte.inc"
#include "copy_fm_bytes.inc"
#include "fm_get_crc.inc"
#include "fm_find_record_address_mark.inc"

static void h_fill_crc_from3(void)
{
  unsigned i;
  h_crc_pref[3] = 0xFFFF;
  for (i = 3; i < CRC_MAXLEN; ++i) h_crc_pref[i + 1] = (unsigned short)spec_crc_byte(h_crc_pref[i], h_crc_data[i]);
}
void h_fm_read_byte(void)
{
  struct BitStream *b; size_t *pos;
  g_bit = nondet_uint(); __CPROVER_assume(g_bit < 8);
  struct opt_cd r = fm_read_byte(b, pos);
  VERIF_COVER(r.has && r.first == 0xC7 && r.second == 0xFE, "the FM ID address mark (clock C7, data FE)");
  VERIF_COVER(!r.has, "end of track");
}
void h_copy_fm(void)
{
  struct BitStream *b; size_t *pos; struct decvec *v;
  g_bit = nondet_uint(); __CPROVER_assume(g_bit < 8); g_m = nondet_size_t(); g_diag = nondet_ulong();
  _Bool ok = copy_fm_bytes(b, pos, nondet_size_t(), v);
  VERIF_COVER(ok && v->n == 7, "seven bytes in the vector");
  VERIF_COVER(!ok, "copy failed");
}
void h_fm_get_crc(void)
{
  struct decvec *v;
  h_fill_crc_from3();                 /* the specification: bit-serial CRC from 0xFFFF over the vector */
  unsigned long r = fm_get_crc(v);
  VERIF_COVER(r == 0 && v->n == 7, "a 7-byte ID field with a good CRC");
  VERIF_COVER(r != 0, "CRC mismatch");
}
void h_fm_find(void)
{
  struct BitStream *b; size_t *pos;
  g_p = nondet_size_t();
  struct opt_uint r = fm_find_record_address_mark(pos, b, nondet_size_t());
  VERIF_COVER(r.has && r.val == 0xF56F, "data mark found");
  VERIF_COVER(!r.has, "no mark");
}
void h_scan_for(void) { struct BitStream *b; g_p = nondet_size_t(); g_q = nondet_size_t(); BitStream_scan_for(b, nondet_size_t(), nondet_ulong(), nondet_ulong()); }
void h_crc_get(void) { struct CRC16Base *c; CRC16Base_get(c); }
void h_crc_init(void) { CCITT_CRC16_init(); }
void h_copy_mfm(void)
{
  struct BitStream *b; size_t *pos; struct decvec *v;
  g_bit = nondet_uint(); __CPROVER_assume(g_bit < 8); g_m = nondet_size_t(); g_diag = nondet_ulong();
  _Bool ok = copy_mfm_bytes(b, pos, nondet_size_t(), v);
  VERIF_COVER(ok && v->n == 7, "seven bytes copied");
  VERIF_COVER(!ok, "copy failed");
}
void h_check_crc(void)
{
  struct decvec *v;
  h_crc_data[0] = 0xA1; h_crc_data[1] = 0xA1; h_crc_data[2] = 0xA1;
  h_fill_crc(0xFFFFul);                /* the specification: bit-serial CRC over A1 A1 A1 ++ data */
  g_diag = nondet_ulong();
  _Bool ok = check_crc_with_a1s(v);
  VERIF_COVER(ok && v->n == 7, "a 7-byte ID field with a good CRC");
  VERIF_COVER(!ok, "CRC mismatch");
}
void h_decode_addr(void)
{
  const byte *h; struct SectorAddress *a; int *z;
  g_diag = nondet_ulong();
  decode_sector_address_and_size(h, a, z);
}

void h_crc_cycle(void) { crc_cycle(nondet_ulong()); }
void h_crc_update_bit(void) { struct CRC16Base *c; CRC16Base_update_bit(c, nondet_bool()); }
void h_crc_update(void)
{
  struct CRC16Base *c;
  unsigned long init = nondet_ulong();
  __CPROVER_assume(init <= 0xFFFFul);
  h_fill_crc(init);
  size_t off = nondet_size_t(), n = nondet_size_t();
  __CPROVER_assume(off <= CRC_MAXLEN && n <= CRC_MAXLEN - off);      /* any segment of the stream */
  CRC16Base_update(c, h_crc_data + off, h_crc_data + off + n);
}
void h_crc_update_one(void)
{
  /* one byte: the byte step of update() is the bit-serial specification step (the loop is unwound once) */
  struct CRC16Base *c;
  unsigned long init = nondet_ulong();
  __CPROVER_assume(init <= 0xFFFFul);
  h_crc_pref[0] = (unsigned short)init;
  h_crc_pref[1] = (unsigned short)spec_crc_byte(init, h_crc_data[0]);
  CRC16Base_update(c, h_crc_data, h_crc_data + 1);
}
void h_reverse(void) { g_bit = nondet_uint(); __CPROVER_assume(g_bit < 8); reverse_bit_order(nondet_uchar()); }
void h_raw_pos(void) { struct BitStream *b; BitStream_raw_pos(b, nondet_size_t()); }
void h_rawbit(void) { struct BitStream *b; BitStream_rawbit(b, nondet_size_t()); }
void h_getbit(void) { struct BitStream *b; BitStream_getbit(b, nondet_size_t()); }
void h_size(void) { struct BitStream *b; BitStream_size(b); }
void h_mfm_read_byte(void)
{
  struct BitStream *b; size_t *pos;
  g_bit = nondet_uint(); __CPROVER_assume(g_bit < 8); g_diag = nondet_ulong();
  struct opt_byte r = mfm_read_byte(b, pos);
  VERIF_COVER(r.has && r.val == 0xA1, "decoded 0xA1");
  VERIF_COVER(!r.has, "rejected");
}


/* ================= the MFM decoder state machine (decode_mfm_track) ============================================== */
#ifdef VERIF_MFM_STATE_MACHINE
/* What the monitor needs to know about sec.data (std::vector<unsigned char>): its size and where its elements were copied
   from -- which vector (identified by the facts recorded about it when std::copy ran), which slice. */
struct secdata { size_t n; _Bool src_crc_ok; size_t src_n; unsigned long src_sync; byte src_mark; size_t src_from, copied; };
struct DecSector { struct SectorAddress address; struct secdata data; unsigned char crc[2]; };
static struct
{
  unsigned long syncs;                                     /* sync marks (A1 A1 A1 after 00) found so far */
  const struct decvec *crc_vec; size_t crc_n; _Bool crc_ok;   /* the last CRC verdict: which vector, its length then, the verdict */
  _Bool hdr_open, hdr_crc_ok; unsigned long hdr_sync; int hdr_size; struct SectorAddress hdr_addr;   /* the ID field in force */
  unsigned long pushed;                                    /* sectors yielded */
} MD;
static void decsector_init(struct DecSector *s)
{ s->data.n = 0; s->data.src_crc_ok = 0; s->data.src_n = 0; s->data.src_sync = 0; s->data.src_mark = 0; s->data.src_from = 0; s->data.copied = 0; }
static void decvec_init(struct decvec *v) { v->n = 0; v->sync = 0; if (MD.crc_vec == v) MD.crc_ok = 0; }
static struct opt_scan BitStream_scan_for_v(const struct BitStream *bits, size_t start, uint64_t val, uint64_t mask)
{
  struct opt_scan r = BitStream_scan_for(bits, start, val, mask);
  if (r.has) MD.syncs = MD.syncs + 1;
  return r;
}
static bool copy_mfm_bytes_v(const struct BitStream *bits, size_t *thisbit, size_t n, struct decvec *out)
{
  if (MD.crc_vec == out) MD.crc_ok = 0;                    /* the contents change: an earlier verdict no longer applies */
  out->sync = MD.syncs;                                    /* these bytes follow sync mark number MD.syncs */
  g_diag = 0;
  return copy_mfm_bytes(bits, thisbit, n, out);
}
static bool check_crc_with_a1s_v(const struct decvec *v)
{
  bool r;
  g_diag = 0;
  r = check_crc_with_a1s(v);
  MD.crc_vec = v; MD.crc_n = v->n; MD.crc_ok = r;
  return r;
}
static bool decode_sector_address_and_size_v(const struct decvec *h, struct SectorAddress *a, int *siz)
{
  bool r;
  __CPROVER_assert(h->n >= 5, "C07: the ID field decoder reads five bytes of the header vector");
  g_diag = 0;
  r = decode_sector_address_and_size(h_vec_store, a, siz);
  MD.hdr_open = r;
  if (r)
    {
      MD.hdr_crc_ok = (MD.crc_vec == h && MD.crc_ok && MD.crc_n == h->n && h->n == 7);
      MD.hdr_sync = h->sync; MD.hdr_size = *siz; MD.hdr_addr = *a;
    }
  return r;
}
static void secdata_resize(struct DecSector *s, size_t k) { s->data.n = k; }
static void secdata_copy(struct DecSector *s, const struct decvec *src, size_t from, size_t to)      /* std::copy(src.begin()+from, src.begin()+to, s.data.begin()) */
{
  __CPROVER_assert(from <= to && to <= src->n, "C07: std::copy source range lies inside the vector");
  __CPROVER_assert(to - from <= s->data.n, "C07: std::copy destination holds the range");
  s->data.src_crc_ok = (MD.crc_vec == src && MD.crc_ok && MD.crc_n == src->n);
  s->data.src_n = src->n; s->data.src_sync = src->sync; s->data.src_mark = src->n ? h_vec_store[0] : 0;
  s->data.src_from = from; s->data.copied = to - from;
}
/* C06: what must be true of every sector the decoder yields */
static void mon_push_sector(const struct DecSector *s)
{
  __CPROVER_assert(MD.hdr_open && MD.hdr_crc_ok, "C06: the ID field of a yielded sector passed the CRC check (7 bytes after the sync)");
  __CPROVER_assert(s->address.cylinder == MD.hdr_addr.cylinder && s->address.head == MD.hdr_addr.head && s->address.record == MD.hdr_addr.record,
                   "C06: the address of a yielded sector is the one decoded from that ID field");
  __CPROVER_assert(s->data.src_crc_ok, "C06: the data field of a yielded sector passed the CRC check");
  __CPROVER_assert(s->data.src_n == (size_t)MD.hdr_size + 3 && s->data.src_from == 1 && s->data.copied == (size_t)MD.hdr_size && s->data.n == (size_t)MD.hdr_size,
                   "C06: the data yielded is exactly the size-code many bytes between the mark and the CRC of that data field");
  __CPROVER_assert(s->data.src_sync == MD.hdr_sync + 1, "C06: the data field is the first field after its ID field (no other mark in between)");
  __CPROVER_assert(s->data.src_mark == data_address_mark, "C06: only data records (mark FB) are yielded");
  MD.hdr_open = 0;                                          /* an ID field labels at most one data field */
  MD.pushed = MD.pushed + 1;
}
#define MFM_DECODE_LOOP_CONTRACT \
  __CPROVER_assigns(thisbit, state, sec, sec_size, MD, g_diag, g_scan_q, __CPROVER_object_whole(h_crc_data), __CPROVER_object_whole(h_inner)) \
  __CPROVER_loop_invariant(thisbit <= (1ul << 18) && MD.syncs <= thisbit && 2 * MD.pushed + (state == LookingForRecord ? 1 : 0) <= MD.syncs) \
  __CPROVER_loop_invariant(state == LookingForSectorHeader || state == LookingForRecord) \
  __CPROVER_loop_invariant(state == LookingForRecord ==> \
     (MD.hdr_open && MD.hdr_crc_ok && MD.hdr_sync == MD.syncs && sec_size == MD.hdr_size && \
      (sec_size == 128 || sec_size == 256 || sec_size == 512 || sec_size == 1024) && \
      sec.address.cylinder == MD.hdr_addr.cylinder && sec.address.head == MD.hdr_addr.head && sec.address.record == MD.hdr_addr.record))
#include "decode_mfm_track.inc"

static void decode_mfm_track(const struct BitStream *bits)
__CPROVER_requires(BS_OK(bits) && bits->first_ <= bits->raw_bit_size_)
__CPROVER_requires(MD.syncs == 0 && MD.pushed == 0 && !MD.hdr_open && !MD.crc_ok)
__CPROVER_assigns(MD, g_diag, g_scan_q, __CPROVER_object_whole(h_crc_data), __CPROVER_object_whole(h_inner))
/* every yielded sector satisfied the monitor (assertions in mon_push_sector); and a sector needs two marks of its own */
__CPROVER_ensures(2 * MD.pushed <= MD.syncs);

void h_decode_mfm(void)
{
  struct BitStream *b;
  g_bit = nondet_uint(); __CPROVER_assume(g_bit < 8); g_m = nondet_size_t(); g_p = nondet_size_t();
  MD.syncs = 0; MD.pushed = 0; MD.hdr_open = 0; MD.crc_ok = 0; MD.crc_vec = 0;
  decode_mfm_track(b);
  VERIF_COVER(MD.pushed == 2, "two sectors yielded");
  VERIF_COVER(MD.syncs == 3 && MD.pushed == 0, "three marks, nothing yielded");
}
#endif


/* ================= the FM decoder state machine (decode_fm_track) ================================================ */
#ifdef VERIF_FM_STATE_MACHINE
struct FmSector { struct SectorAddress address; struct decvec data; unsigned char crc[2]; };
struct crcmodel { int handle; };       /* DFS::CCITT_CRC16 used inline: what it was fed is recorded in MF.c_* */
static struct
{
  unsigned long epoch;                 /* number of writes to the vector store so far */
  const struct decvec *owner;          /* the vector whose elements are in the store */
  /* last get_crc(): vector, its length and the store epoch then, and whether the result was 0 */
  const struct decvec *crc_vec; size_t crc_n; unsigned long crc_epoch; _Bool crc_zero;
  /* the ID field in force */
  _Bool hdr_open, hdr_crc_ok; int hdr_size; struct SectorAddress hdr_addr;
  /* last copy_fm_bytes */
  const struct decvec *copy_vec; size_t copy_from, copy_n; _Bool copy_ok; unsigned long copy_epoch;
  /* the inline CRC object: segments fed since its construction, and the result read from it */
  unsigned c_nseg; size_t c_s0_len; byte c_s0_val; const byte *c_s1_ptr; size_t c_s1_len; unsigned long c_s1_epoch; const struct decvec *c_s1_owner; _Bool c_zero;
  /* the last search for an ID address mark (pattern AAAAAAAAF57E): where it started and what it found */
  size_t idscan_start; _Bool idscan_has; size_t idscan_first;
  /* the last search for a data mark: where it started and where the mark found ends */
  size_t rec_search_start, rec_mark_end;
  /* where the last copy_fm_bytes ended, and where the ID field in force ended */
  size_t copy_end, hdr_end;
  unsigned long ids, pushed;
} MF;
#define FM_ID_MARK_PATTERN 0xAAAAAAAAF57Eull
static void fmsector_init(struct FmSector *s) { s->data.n = 0; s->data.sync = 0; }
static void decvec_init(struct decvec *v) { v->n = 0; v->sync = 0; }
static void decvec_push_v(struct decvec *v, byte val) { MF.epoch = MF.epoch + 1; MF.owner = v; decvec_push(v, val); }
static void decvec_resize(struct decvec *v, size_t k)            /* resize: grows with zeros, shrinks keeping the prefix */
{
  __CPROVER_assert(k <= DECVEC_CAP, "model: vector storage of DECVEC_CAP bytes");
  if (k > v->n) { MF.epoch = MF.epoch + 1; MF.owner = v; }
  v->n = k;
}
static void decvec_clear(struct decvec *v) { v->n = 0; }
static struct opt_scan BitStream_scan_for_v(const struct BitStream *bits, size_t start, uint64_t val, uint64_t mask)
{
  struct opt_scan r = BitStream_scan_for(bits, start, val, mask);
  if (val == FM_ID_MARK_PATTERN && mask == 0xFFFFFFFFFFFFull) { MF.idscan_start = start; MF.idscan_has = r.has; MF.idscan_first = r.first; }
  return r;
}
static struct opt_uint fm_find_record_address_mark_v(size_t *thisbit, const struct BitStream *bits, size_t bits_avail)
{
  struct opt_uint r;
  MF.rec_search_start = *thisbit;
  r = fm_find_record_address_mark(thisbit, bits, bits_avail);
  MF.rec_mark_end = *thisbit;
  return r;
}
static bool copy_fm_bytes_v(const struct BitStream *bits, size_t *thisbit, size_t n, struct decvec *out)
{
  bool r;
  MF.epoch = MF.epoch + 1; MF.owner = out;
  MF.copy_vec = out; MF.copy_from = out->n; MF.copy_n = n;
  g_diag = 0;
  r = copy_fm_bytes(bits, thisbit, n, out);
  MF.copy_ok = r; MF.copy_epoch = MF.epoch; MF.copy_end = *thisbit;
  return r;
}
static unsigned long fm_get_crc_v(const struct decvec *v)
{
  unsigned long r = fm_get_crc(v);
  MF.crc_vec = v; MF.crc_n = v->n; MF.crc_epoch = MF.epoch; MF.crc_zero = (r == 0) && MF.owner == v;
  return r;
}
static bool decode_sector_address_and_size_v(const struct decvec *h, struct SectorAddress *a, int *siz)
{
  bool r;
  __CPROVER_assert(h->n >= 5 && MF.owner == h, "C07: the ID field decoder reads five bytes of the header vector");
  g_diag = 0;
  r = decode_sector_address_and_size(h_vec_store, a, siz);
  MF.hdr_open = r;
  if (r)
    {
      MF.hdr_crc_ok = (MF.crc_vec == h && MF.crc_zero && MF.crc_n == h->n && h->n == 7 && MF.crc_epoch == MF.epoch);
      MF.hdr_size = *siz; MF.hdr_addr = *a; MF.ids = MF.ids + 1; MF.hdr_end = MF.copy_end;
    }
  return r;
}
static void crcm_init(struct crcmodel *c) { c->handle = 0; MF.c_nseg = 0; MF.c_zero = 0; }
static void crcm_update(struct crcmodel *c, const byte *start, const byte *end)
{
  (void)c;
  __CPROVER_assert(__CPROVER_same_object(start, end) && end >= start, "C07: update() over a valid range");
  if (MF.c_nseg == 0) { MF.c_s0_len = (size_t)(end - start); MF.c_s0_val = (end - start == 1) ? *start : 0; }
  else if (MF.c_nseg == 1) { MF.c_s1_ptr = start; MF.c_s1_len = (size_t)(end - start); MF.c_s1_epoch = MF.epoch; MF.c_s1_owner = MF.owner; }
  if (MF.c_nseg < 3) MF.c_nseg = MF.c_nseg + 1;
}
static unsigned long crcm_get(struct crcmodel *c) { unsigned long v = nondet_ulong(); (void)c; MF.c_zero = (v == 0); return v; }
/* C06: what must be true of every sector the FM decoder yields */
static void mon_push_sector_fm(const struct FmSector *s)
{
  __CPROVER_assert(MF.hdr_open && MF.hdr_crc_ok, "C06: the ID field of a yielded sector passed the CRC check (mark FE + 6 bytes, all 16 CRC bits)");
  __CPROVER_assert(s->address.cylinder == MF.hdr_addr.cylinder && s->address.head == MF.hdr_addr.head && s->address.record == MF.hdr_addr.record,
                   "C06: the address of a yielded sector is the one decoded from that ID field");
  __CPROVER_assert(MF.copy_vec == &s->data && MF.copy_ok && MF.copy_from == 0 && MF.copy_n == (size_t)MF.hdr_size + 2 && MF.copy_epoch == MF.epoch,
                   "C06: the data yielded are the size-code many bytes (plus CRC) copied after the data mark, untouched since");
  __CPROVER_assert(MF.c_nseg == 2 && MF.c_zero && MF.c_s0_len == 1 && MF.c_s0_val == data_address_mark &&
                   MF.c_s1_ptr == h_vec_store && MF.c_s1_len == (size_t)MF.hdr_size + 2 && MF.c_s1_epoch == MF.epoch && MF.c_s1_owner == &s->data,
                   "C06: the data field of a yielded sector passed the CRC check (mark FB, data, CRC bytes; result 0)");
  __CPROVER_assert(s->data.n == (size_t)MF.hdr_size, "C06: the yielded data is exactly the sector, without the CRC bytes");
  /* with scan_for's first-match postcondition: a search for an ID mark from where the search for the data mark started
     found none that ends before the data mark does */
  __CPROVER_assert(MF.rec_search_start == MF.hdr_end, "C06: the search for the data mark starts where the ID field ends (nothing between them is skipped unexamined)");
  __CPROVER_assert(MF.idscan_start == MF.rec_search_start && (!MF.idscan_has || MF.idscan_first >= MF.rec_mark_end),
                   "C06: no ID address mark lies between the ID field and the data mark used (the data field belongs to this ID field, not to a later sector)");
  MF.hdr_open = 0;
  MF.pushed = MF.pushed + 1;
}
#define FM_DECODE_LOOP_CONTRACT \
  __CPROVER_assigns(thisbit, state, sec, sec_size, MF, g_diag, g_scan_q, __CPROVER_object_whole(h_crc_data), __CPROVER_object_whole(h_inner)) \
  __CPROVER_loop_invariant(thisbit <= 8 * TRACK_BYTES + 16 * 1032 && sec.data.n <= DECVEC_CAP && MF.ids <= thisbit && MF.pushed <= MF.ids && MF.pushed + (MF.hdr_open ? 1 : 0) <= MF.ids) \
  __CPROVER_loop_invariant(state == LookingForAddress || state == LookingForRecord) \
  __CPROVER_loop_invariant(state == LookingForRecord ==> \
     (MF.hdr_open && MF.hdr_crc_ok && sec_size == MF.hdr_size && thisbit == MF.hdr_end && \
      (sec_size == 128 || sec_size == 256 || sec_size == 512 || sec_size == 1024) && \
      sec.address.cylinder == MF.hdr_addr.cylinder && sec.address.head == MF.hdr_addr.head && sec.address.record == MF.hdr_addr.record))
#include "decode_fm_track.inc"

static void decode_fm_track(const struct BitStream *bits)
__CPROVER_requires(BS_OK(bits) && bits->first_ <= bits->raw_bit_size_)
__CPROVER_requires(MF.ids == 0 && MF.pushed == 0 && !MF.hdr_open && !MF.crc_zero && !MF.copy_ok && MF.epoch == 0)
__CPROVER_assigns(MF, g_diag, g_scan_q, __CPROVER_object_whole(h_crc_data), __CPROVER_object_whole(h_inner))
/* every yielded sector satisfied the monitor (assertions in mon_push_sector_fm); each needs an ID field of its own */
__CPROVER_ensures(MF.pushed <= MF.ids);

void h_decode_fm(void)
{
  struct BitStream *b;
  g_bit = nondet_uint(); __CPROVER_assume(g_bit < 8); g_m = nondet_size_t(); g_p = nondet_size_t();
  MF.ids = 0; MF.pushed = 0; MF.hdr_open = 0; MF.crc_zero = 0; MF.copy_ok = 0; MF.epoch = 0; MF.owner = 0; MF.crc_vec = 0; MF.copy_vec = 0; MF.c_nseg = 0;
  decode_fm_track(b);
  VERIF_COVER(MF.pushed == 2, "two sectors yielded");
  VERIF_COVER(MF.ids == 2 && MF.pushed == 0, "two ID fields, nothing yielded");
}
#endif
