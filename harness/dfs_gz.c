/* Proof harness: the inflate loop of write_decompressed_data (img_gzfile.cc) under the zlib.h contract of inflate()
 * (C10 ii): every byte inflate produced is written to the temporary file exactly once and in order; the loop ends
 * normally only at Z_STREAM_END; any other code, a short fwrite, or a read error raises an exception by value. */
#include "dfs_types.h"
static void mon_read_block(struct DataAccess *obj, unsigned long lba) { (void)obj; (void)lba; }
static void mon_read_result(struct DataAccess *obj, _Bool ok) { (void)obj; (void)ok; }
enum { Z_OK = 0, Z_STREAM_END = 1, Z_NEED_DICT = 2, Z_ERRNO = -1, Z_STREAM_ERROR = -2, Z_DATA_ERROR = -3, Z_MEM_ERROR = -4, Z_BUF_ERROR = -5, Z_VERSION_ERROR = -6 };
struct gzFILE { int id; };
struct z_stream_model { unsigned int avail_in; const unsigned char *next_in; unsigned int avail_out; unsigned char *next_out; };
static struct { unsigned long inflated, written, pending; _Bool stream_end_seen, last_was_stream_end, must_raise, init_called, gzip_only; size_t last_got; const unsigned char *outbuf;
                /* termination ghosts: bytes of the (finite) compressed file not yet read; bytes the (finite) decompressed stream still
                   has to deliver; whether inflate was called once more after it had reported the end of the stream */
                unsigned long file_left, out_left; _Bool called_after_end; unsigned long reads; } GZ;
static unsigned long h_outer0;      /* the outer loop's measure at the start of the current round (set by an extraction rule) */
#define GZ_PHASE_ (!GZ.stream_end_seen ? 2ul : !GZ.called_after_end ? 1ul : 0ul)
#define GZ_M_OUT_ (3ul * (GZ.file_left + GZ.out_left) + GZ_PHASE_)
#define GZ_OUTER_GHOST h_outer0 = GZ_M_OUT_;
static size_t gz_fread(void *p, size_t sz, size_t n, struct gzFILE *f)
{
  size_t got = nondet_size_t();
  (void)p; (void)f;
  __CPROVER_assert(sz == 1 && n == 512, "model: fread(input_buffer, 1, 512, f)");
  __CPROVER_assume(got <= n && got <= GZ.file_left);          /* the file is finite */
  __CPROVER_assert(!GZ.must_raise, "C10: after an error from inflate no further input is read (the error is raised)");
  GZ.last_got = got; GZ.file_left -= got; if (GZ.reads < 1000) GZ.reads++;
  return got;
}
static int gz_ferror(struct gzFILE *f) { (void)f; return nondet_bool(); }
/* feof: set once a read has delivered fewer bytes than asked for */
static int gz_feof(struct gzFILE *f) { (void)f; return GZ.last_got < 512 && GZ.reads > 0; }
/* zlib.h: inflate() consumes at most avail_in bytes, produces at most avail_out bytes (updating the four fields),
   and returns Z_OK, Z_STREAM_END, Z_NEED_DICT, Z_DATA_ERROR, Z_STREAM_ERROR, Z_MEM_ERROR or Z_BUF_ERROR (no
   progress possible) */
static int gz_inflate(struct z_stream_model *s)
{
  unsigned consumed = nondet_uint(), produced = nondet_uint();
  int rc = nondet_int();
  __CPROVER_assert(GZ.pending == 0, "C10: everything inflate produced before has been written out before the next call");
  __CPROVER_assert(s->avail_out == 1024, "model: a full output buffer is offered");
  __CPROVER_assert(!GZ.must_raise, "C10: after an error from inflate it is not called again (the error is raised)");
  __CPROVER_assume(consumed <= s->avail_in && produced <= s->avail_out);
  __CPROVER_assume(rc == Z_OK || rc == Z_STREAM_END || rc == Z_NEED_DICT || rc == Z_DATA_ERROR || rc == Z_STREAM_ERROR || rc == Z_MEM_ERROR || rc == Z_BUF_ERROR);
  __CPROVER_assume(rc != Z_BUF_ERROR || (consumed == 0 && produced == 0));
  /* zlib.h: "Z_OK if some progress has been made (more input processed or more output produced)" */
  __CPROVER_assume(rc != Z_OK || consumed + produced > 0);
  __CPROVER_assume(produced <= GZ.out_left);                    /* the decompressed stream is finite */
  if (GZ.stream_end_seen)
    { /* inflate.c, state DONE: a call after the end of the stream reports Z_STREAM_END again and does nothing */
      rc = Z_STREAM_END; consumed = 0; produced = 0; GZ.called_after_end = 1; }
  GZ.out_left -= produced;
  s->avail_in -= consumed; s->avail_out -= produced;
  GZ.outbuf = s->next_out;
  GZ.pending = produced; GZ.inflated += produced;
  GZ.last_was_stream_end = (rc == Z_STREAM_END);
  if (rc == Z_STREAM_END) GZ.stream_end_seen = 1;
  /* every code other than Z_OK / Z_STREAM_END is an error, except Z_BUF_ERROR while the last read still delivered
     input (inflate just wants more): a corrupt, truncated or non-gzip stream must end in an exception */
  GZ.must_raise = !(rc == Z_OK || rc == Z_STREAM_END || (rc == Z_BUF_ERROR && GZ.last_got > 0));
  return rc;
}
static size_t gz_fwrite(const void *p, size_t sz, size_t n, struct gzFILE *fout)
{
  size_t w = nondet_size_t();
  (void)fout;
  __CPROVER_assert(sz == 1 && p == (const void *)GZ.outbuf && n == GZ.pending, "C10: exactly the bytes inflate just produced are written, from the start of the output buffer");
  __CPROVER_assume(w <= n);
  GZ.written += w; GZ.pending = 0;
  if (w != n) GZ.written = ~0ul;             /* a short write: the file is no longer a faithful copy */
  return w;
}
#define GZ_OUTER_CONTRACT \
  __CPROVER_assigns(zerr, stream, GZ, h_outer0, g_exc, g_exc_by_pointer, __CPROVER_object_whole(input_buffer), __CPROVER_object_whole(output_buffer)) \
  __CPROVER_loop_invariant(g_exc == EXC_NONE && !g_exc_by_pointer && GZ.pending == 0 && GZ.written == GZ.inflated && !GZ.must_raise) \
  __CPROVER_loop_invariant((zerr == Z_STREAM_END) == GZ.stream_end_seen && GZ.file_left <= (1ul << 40) && GZ.out_left <= (1ul << 40)) \
  /* C07 termination: every round reads input or makes inflate deliver output (or ends the stream) */ \
  __CPROVER_decreases(GZ_M_OUT_)
#define GZ_INNER_CONTRACT \
  __CPROVER_assigns(zerr, stream.avail_in, stream.avail_out, stream.next_out, GZ, g_exc, g_exc_by_pointer, __CPROVER_object_whole(output_buffer)) \
  __CPROVER_loop_invariant(g_exc == EXC_NONE && !g_exc_by_pointer && GZ.pending == 0 && GZ.written == GZ.inflated && !GZ.must_raise) \
  __CPROVER_loop_invariant((zerr == Z_STREAM_END) == GZ.stream_end_seen && stream.avail_in <= 512 && GZ.last_got == got && stream.avail_in <= got) \
  __CPROVER_loop_invariant(GZ.file_left <= (1ul << 40) && GZ.out_left <= (1ul << 40) && GZ_M_OUT_ <= h_outer0 && (got > 0 ==> GZ_M_OUT_ < h_outer0)) \
  /* C07 termination: every call of inflate consumes input, delivers output, ends the stream -- or is the one call after its end */ \
  __CPROVER_decreases(3ul * (stream.avail_in + GZ.out_left) + GZ_PHASE_)
/* zlib.h, inflateInit2: windowBits 8..15 = zlib format; "add 16 to decode only the gzip format"; "add 32 to enable zlib and
   gzip decoding with automatic header detection"; negative = raw deflate.  MAX_WBITS is 15 (zconf.h). */
#define MAX_WBITS 15
static int gz_inflateInit2(struct z_stream_model *s, int window_bits)
{
  (void)s;
  GZ.init_called = 1;
  GZ.gzip_only = (window_bits >= 16 + 8 && window_bits <= 16 + 15);
  return nondet_bool() ? Z_OK : Z_MEM_ERROR;
}
#include "check_zlib_error_code.inc"
#include "gz_inflate_init.inc"
#include "gz_inflate_loop.inc"

static void check_zlib_error_code(int zerr)
__CPROVER_requires(g_exc == EXC_NONE && !g_exc_by_pointer)
__CPROVER_assigns(g_exc, g_exc_by_pointer)
/* only Z_OK passes; every other code is an exception thrown by value */
__CPROVER_ensures((zerr == Z_OK) == (g_exc == EXC_NONE))
__CPROVER_ensures(!g_exc_by_pointer);

static void gz_inflate_loop(struct gzFILE *f, struct gzFILE *fout)
__CPROVER_requires(g_exc == EXC_NONE && !g_exc_by_pointer && GZ.inflated == 0 && GZ.written == 0 && GZ.pending == 0 && !GZ.stream_end_seen && !GZ.must_raise && !GZ.called_after_end &&
                   GZ.file_left <= (1ul << 40) && GZ.out_left <= (1ul << 40))
__CPROVER_assigns(GZ, h_outer0, g_exc, g_exc_by_pointer)
/* normal return: the stream ended (Z_STREAM_END) and every inflated byte was written exactly once */
__CPROVER_ensures(g_exc == EXC_NONE ==> (GZ.stream_end_seen && !GZ.must_raise && GZ.written == GZ.inflated && GZ.pending == 0))
__CPROVER_ensures(!g_exc_by_pointer);

static void gz_inflate_init(struct z_stream_model *stream_)
__CPROVER_requires(__CPROVER_is_fresh(stream_, sizeof(*stream_)) && g_exc == EXC_NONE && !g_exc_by_pointer)
__CPROVER_assigns(GZ.init_called, GZ.gzip_only, g_exc, g_exc_by_pointer)
/* C10: the decompressor is set up to accept the gzip format ONLY (a zlib or raw deflate stream under a .gz name is
   "not gzip at all" and must be rejected by inflate); a failed initialisation raises */
__CPROVER_ensures(g_exc == EXC_NONE ==> (GZ.init_called && GZ.gzip_only))
__CPROVER_ensures(!g_exc_by_pointer);

void h_gz_init(void) { struct z_stream_model *s; g_exc = EXC_NONE; g_exc_by_pointer = 0; GZ.init_called = 0; GZ.gzip_only = 0; gz_inflate_init(s); }
void h_check_zlib(void) { g_exc = EXC_NONE; g_exc_by_pointer = 0; check_zlib_error_code(nondet_int()); }
void h_gz_loop(void)
{
  static struct gzFILE a, b;
  g_exc = EXC_NONE; g_exc_by_pointer = 0; GZ.inflated = 0; GZ.written = 0; GZ.pending = 0; GZ.stream_end_seen = 0; GZ.must_raise = 0; GZ.called_after_end = 0;
  gz_inflate_loop(&a, &b);
  VERIF_COVER(g_exc == EXC_NONE && GZ.inflated > 2048, "more than two buffers inflated");
  VERIF_COVER(g_exc != EXC_NONE, "rejected");
}
