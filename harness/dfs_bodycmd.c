/* Proof harness: body_command (commands.cc), the shared back end of `type`, `list` and `dump`.  C01: the bytes these commands
 * render are the bytes of THE catalogued file: the name is parsed with the context's defaults, the volume it names is mounted,
 * the entry is looked up in that volume's own catalogue, and the body is read through that volume's data region (on Opus DDOS a
 * volume does not start at sector 0 of the drive) -- each step once, each failure a diagnostic and `false`.  The steps
 * themselves have their own contracts (parse_filename: dfs_fsp.c; has_name: dfs_names.c; the sector walk: dfs_catalog.c; the
 * renderings: dfs_listtype.c, dfs_render.c); here they are recording models. */
#include "dfs_types.h"
static void mon_read_block(struct DataAccess *obj, unsigned long lba) { (void)obj; (void)lba; }
static void mon_read_result(struct DataAccess *obj, _Bool ok) { (void)obj; (void)ok; }
struct StorageM { int id; };
struct CtxM { int id; };
struct VolSelB { unsigned surface; _Bool has_sub; char sub; };
struct PFN { struct VolSelB vol; char dir; int name_id; };
struct CatalogR { int id; };
struct VolumeB { struct CatalogR root; struct DataAccess region; };
struct FileSystemB { struct DataAccess device; };
struct MountedM { struct VolumeB volume; struct FileSystemB fs; };
struct opt_entry_ { _Bool has; int val; };
static unsigned long g_diag;
static struct MountedM h_mounted;
static struct { unsigned parse_calls, mount_calls, find_calls, read_calls, logic_calls; size_t parse_arg; _Bool parse_ok; struct PFN parsed;
                struct VolSelB mount_vol; _Bool mount_ok; const struct CatalogR *find_root; struct PFN find_name; struct opt_entry_ found;
                int read_entry; struct DataAccess *read_access; size_t tail_from; _Bool logic_result; } BC;
static _Bool parse_filename_model(const struct CtxM *ctx, size_t arg, struct PFN *out)
{
  (void)ctx; BC.parse_calls++; BC.parse_arg = arg; BC.parse_ok = nondet_bool();
  BC.parsed.vol.surface = nondet_uint(); BC.parsed.vol.has_sub = nondet_bool(); BC.parsed.vol.sub = nondet_char(); BC.parsed.dir = nondet_char(); BC.parsed.name_id = nondet_int();
  if (BC.parse_ok) *out = BC.parsed;
  return BC.parse_ok;
}
static const struct MountedM *storage_mount_model(const struct StorageM *st, struct VolSelB vol)
{ (void)st; BC.mount_calls++; BC.mount_vol = vol; BC.mount_ok = nondet_bool(); return BC.mount_ok ? &h_mounted : (const struct MountedM *)0; }
static const struct VolumeB *Mounted_volume(const struct MountedM *m) { return &m->volume; }
static const struct FileSystemB *Mounted_file_system(const struct MountedM *m) { return &m->fs; }
static const struct CatalogR *Volume_root(const struct VolumeB *v) { return &v->root; }
static struct DataAccess *Volume_data_region(const struct VolumeB *v) { return (struct DataAccess *)&v->region; }
static struct DataAccess *FileSystem_whole_device(const struct FileSystemB *f) { return (struct DataAccess *)&f->device; }
static struct opt_entry_ find_entry_model(const struct CatalogR *root, const struct PFN *name)
{ BC.find_calls++; BC.find_root = root; BC.find_name = *name; BC.found.has = nondet_bool(); BC.found.val = nondet_int(); return BC.found; }
static void read_file_body_model(int entry, struct DataAccess *access) { BC.read_calls++; BC.read_entry = entry; BC.read_access = access; }
static _Bool logic_model(size_t tail_from) { BC.logic_calls++; BC.tail_from = tail_from; BC.logic_result = nondet_bool(); return BC.logic_result; }
#include "body_command.inc"

#define VS_EQ_(a, b) ((a).surface == (b).surface && (a).has_sub == (b).has_sub && (a).sub == (b).sub)
static bool body_command(const struct StorageM *storage, const struct CtxM *ctx, size_t args_n)
__CPROVER_requires(g_diag < 1000 && BC.parse_calls == 0 && BC.mount_calls == 0 && BC.find_calls == 0 && BC.read_calls == 0 && BC.logic_calls == 0)
__CPROVER_assigns(BC, g_diag)
/* no file name: refused before anything is touched */
__CPROVER_ensures(args_n < 2 ==> (!__CPROVER_return_value && BC.parse_calls == 0 && BC.mount_calls == 0 && g_diag > __CPROVER_old(g_diag)))
/* the first argument after the command name is the file name */
__CPROVER_ensures(args_n >= 2 ==> (BC.parse_calls == 1 && BC.parse_arg == 1))
/* the volume the name says (or the default the parser filled in) is mounted, once, only after a successful parse */
__CPROVER_ensures(BC.mount_calls == ((args_n >= 2 && BC.parse_ok) ? 1 : 0))
__CPROVER_ensures(BC.mount_calls == 1 ==> VS_EQ_(BC.mount_vol, BC.parsed.vol))
/* the entry is looked up in the mounted volume's own catalogue, under the parsed directory and name */
__CPROVER_ensures(BC.find_calls == ((BC.mount_calls == 1 && BC.mount_ok) ? 1 : 0))
__CPROVER_ensures(BC.find_calls == 1 ==> (BC.find_root == &h_mounted.volume.root && BC.find_name.dir == BC.parsed.dir && BC.find_name.name_id == BC.parsed.name_id &&
                                          VS_EQ_(BC.find_name.vol, BC.parsed.vol)))
/* the body of THAT entry is read through THAT volume's data region, once, and the rendering is run on it (arguments from the
   file name on); its verdict is the command's */
__CPROVER_ensures(BC.read_calls == ((BC.find_calls == 1 && BC.found.has) ? 1 : 0) && BC.logic_calls == BC.read_calls)
__CPROVER_ensures(BC.read_calls == 1 ==> (BC.read_entry == BC.found.val && BC.read_access == (struct DataAccess *)&h_mounted.volume.region && BC.tail_from == 1 &&
                                          __CPROVER_return_value == BC.logic_result))
/* every other outcome is a refusal with a diagnostic */
__CPROVER_ensures(BC.read_calls == 0 ==> (!__CPROVER_return_value && g_diag > __CPROVER_old(g_diag)));

void h_body_command(void)
{
  const struct StorageM *st; const struct CtxM *cx;
  g_diag = 0; BC.parse_calls = 0; BC.mount_calls = 0; BC.find_calls = 0; BC.read_calls = 0; BC.logic_calls = 0;
  body_command(st, cx, nondet_size_t());
}
