/* Proof harness: colstream (cmd_cat.cc), the column bookkeeping behind the 20-column cells of `dfs cat`.
 * C19: the contracts are enforced with and without NDEBUG; they fix the new column completely, so no part of the
 * computation may live inside an assert(). */
#include "dfs_types.h"
static void mon_read_block(struct DataAccess *obj, unsigned long lba) { (void)obj; (void)lba; }
static void mon_read_result(struct DataAccess *obj, _Bool ok) { (void)obj; (void)ok; }
struct colstream { size_t col_; };
#include "colstream_tab.inc"
#include "colstream_update_col.inc"

static void colstream_tab(struct colstream *self)
__CPROVER_requires(__CPROVER_is_fresh(self, sizeof(*self)) && self->col_ <= (1ul << 48))
__CPROVER_assigns(self->col_)
/* the next tab stop: the smallest multiple of 8 strictly greater than the old column */
__CPROVER_ensures(self->col_ == (__CPROVER_old(self->col_) / 8 + 1) * 8);

static void colstream_update_col(struct colstream *self, char ch)
__CPROVER_requires(__CPROVER_is_fresh(self, sizeof(*self)) && self->col_ <= (1ul << 48))
__CPROVER_assigns(self->col_)
__CPROVER_ensures(self->col_ == ((ch == '\n' || ch == '\r') ? 0 : ch == '\t' ? (__CPROVER_old(self->col_) / 8 + 1) * 8 : __CPROVER_old(self->col_) + 1));

void h_tab(void) { struct colstream *c; colstream_tab(c); }
void h_update_col(void) { struct colstream *c; colstream_update_col(c, nondet_char()); }
