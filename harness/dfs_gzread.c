/* Proof harness: DecompressedFile::read (img_gzfile.cc), the FileAccess every reader of a .gz image goes through (C10:
 * transparency).  The decompressed temporary file is a ghost file of GZT.size bytes; a std::vector<byte> is modelled by
 * what the property needs to know about it: its size and which of its leading elements are bytes of the ghost file
 * (elements [0, filled_n) are file bytes [filled_from, filled_from + filled_n); elements beyond are value-initialised
 * zeros, NOT file data).  The contract is the one FileAccess::read documents and OsFile::read implements for the
 * uncompressed file: exactly the bytes of [pos, pos+len) that exist, i.e. min(len, size-pos) of them, in order. */
#include <stdlib.h>
#include "dfs_types.h"
static void mon_read_block(struct DataAccess *obj, unsigned long lba) { (void)obj; (void)lba; }
static void mon_read_result(struct DataAccess *obj, _Bool ok) { (void)obj; (void)ok; }
#ifndef SEEK_SET
#define SEEK_SET 0
#endif
struct gzFILE { int id; };
struct DecompressedFile { struct gzFILE *f_; };
struct gzvec { size_t n; unsigned long filled_from; size_t filled_n; };
static int g_errno;
static struct { unsigned long size, pos; _Bool positioned, io_error; unsigned freads; } GZT;

static struct gzvec gzvec_empty(void) { struct gzvec v; v.n = 0; v.filled_from = 0; v.filled_n = 0; return v; }
static void gzvec_resize(struct gzvec *v, size_t k)
{
  __CPROVER_assert(k <= (1ul << 32), "C07: no allocation beyond the request");
  if (k < v->filled_n) v->filled_n = k;      /* shrinking keeps a prefix; growing appends zeros (not file data) */
  v->n = k;
}
static int gzt_fseek(struct gzFILE *f, unsigned long off, int whence)
{
  (void)f;
  __CPROVER_assert(whence == SEEK_SET, "model: absolute seek");
  if (nondet_bool()) { GZT.io_error = 1; g_errno = 5; return -1; }
  GZT.pos = off; GZT.positioned = 1;          /* POSIX: seeking past the end succeeds */
  return 0;
}
static size_t gzt_fread(struct gzvec *dst, size_t sz, size_t n, struct gzFILE *f)
{
  size_t avail, got;
  (void)f;
  __CPROVER_assert(sz == 1, "model: byte-sized items");
  __CPROVER_assert(GZT.positioned, "C10: the file is positioned before it is read");
  __CPROVER_assert(n <= dst->n, "C07: fread never asks for more than the buffer holds");
  avail = GZT.pos >= GZT.size ? 0 : (GZT.size - GZT.pos < n ? GZT.size - GZT.pos : n);
  got = avail;
  if (nondet_bool()) { GZT.io_error = 1; g_errno = 5; got = nondet_size_t(); __CPROVER_assume(got <= avail); }
  dst->filled_from = GZT.pos; dst->filled_n = got;
  GZT.pos += got; GZT.freads++;
  return got;
}
#include "gz_read_fail.inc"
#include "DecompressedFile_read.inc"

static struct gzvec gz_read_fail(struct DecompressedFile *self)
__CPROVER_requires(g_exc == EXC_NONE && !g_exc_by_pointer)
__CPROVER_assigns(g_exc, g_exc_by_pointer)
/* an error the OS reported is raised (by value); otherwise "nothing there" is the empty vector */
__CPROVER_ensures((g_errno != 0) == (g_exc != EXC_NONE))
__CPROVER_ensures(!g_exc_by_pointer && __CPROVER_return_value.n == 0);

#define GZ_AVAIL(pos, len) ((pos) >= GZT.size ? 0ul : (GZT.size - (pos) < (len) ? GZT.size - (pos) : (len)))
static struct gzvec DecompressedFile_read(struct DecompressedFile *self, unsigned long pos, unsigned long len)
__CPROVER_requires(__CPROVER_is_fresh(self, sizeof(*self)) && g_exc == EXC_NONE && !g_exc_by_pointer && !GZT.io_error && !GZT.positioned)
__CPROVER_requires(pos <= (1ul << 40) && len <= (1ul << 32) && GZT.size <= (1ul << 40))
__CPROVER_assigns(g_errno, g_exc, g_exc_by_pointer, GZT)
/* an exception only for an OS-level error, and by value */
__CPROVER_ensures(!g_exc_by_pointer && (g_exc != EXC_NONE ==> GZT.io_error))
/* C10 transparency: without an OS error the result is exactly the bytes of [pos, pos+len) that exist in the
   decompressed data -- min(len, size-pos) of them (none at or past the end), element i being file byte pos+i --
   the same answer OsFile::read gives for the uncompressed file */
__CPROVER_ensures(!GZT.io_error ==> (g_exc == EXC_NONE && __CPROVER_return_value.n == GZ_AVAIL(pos, len)))
__CPROVER_ensures((!GZT.io_error && __CPROVER_return_value.n > 0) ==>
                  (__CPROVER_return_value.filled_from == pos && __CPROVER_return_value.n <= __CPROVER_return_value.filled_n));

void h_gz_read_fail(void)
{
  static struct DecompressedFile df;
  g_exc = EXC_NONE; g_exc_by_pointer = 0;
  gz_read_fail(&df);
}
void h_gz_read(void)
{
  static struct gzFILE tmp;
  struct DecompressedFile *df = malloc(sizeof(*df));
  struct gzvec r;
  unsigned long pos = nondet_ulong(), len = nondet_ulong();
  __CPROVER_assume(df != 0);
  df->f_ = &tmp;
  g_exc = EXC_NONE; g_exc_by_pointer = 0; GZT.io_error = 0; GZT.positioned = 0; GZT.freads = 0;
  r = DecompressedFile_read(df, pos, len);
  VERIF_COVER(g_exc == EXC_NONE && r.n > 0 && r.n < len, "short read at the end of the data");
  VERIF_COVER(g_exc == EXC_NONE && r.n == len && len > 1000, "full read");
  VERIF_COVER(g_exc != EXC_NONE, "OS error raised");
}
