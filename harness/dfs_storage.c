/* Proof harnesses for drive-number allocation (driveselector.cc, storage.cc). */
#include "dfs_types.h"
static size_t g_k;                 /* ghost index */
static surface_t g_cf_witness;     /* the occupied drive that made check_sequence_fits answer false */
static surface_t g_i0;
static void mon_read_block(struct DataAccess *obj, unsigned long lba) { (void)obj; (void)lba; }
static void mon_read_result(struct DataAccess *obj, _Bool ok) { (void)obj; (void)ok; }
#define FITS_LOOP_CONTRACT \
  __CPROVER_assigns(i, done, g_exc, g_exc_by_pointer) \
  __CPROVER_loop_invariant(done <= to_do && done <= (1ul << 31) && (unsigned long)i == (unsigned long)g_i0 + 2ul * done && i <= limit + 1u && g_exc == EXC_NONE) \
  __CPROVER_loop_invariant(g_k < done ==> !g_occ[g_i0 + 2u * (unsigned)g_k]) \
  __CPROVER_decreases(to_do - done)
/* ---- connect_drives: ghost state and loop contracts ------------------------------------------------------- */
enum { DriveAllocation_FIRST = 1, DriveAllocation_PHYSICAL = 2 };
static struct occ_fn h_occ;
static size_t g_new_n;              /* drives connected by this call */
static size_t g_drives_size;        /* drives_.size(): number of drives connected before the call (unconstrained) */
static surface_t g_new0, g_new1;
static surface_t g_m;               /* ghost drive number (unconstrained) */
#define SPEC_OPPOSITE_(d) (((d) % 4u) < 2u ? (d) + 2u : (d) - 2u)
#define IS_NEW_(d) ((g_new_n >= 1 && g_new0 == (d)) || (g_new_n >= 2 && g_new1 == (d)))
#define FITS2_(m, k) ((unsigned long)(m) + 2ul * (k) <= (unsigned long)UINT_MAX && !g_occ[m] && !g_occ[SPEC_OPPOSITE_(m)] && ((k) < 2 || !g_occ[(m) + 2u]))
static bool is_drive_connected_model(surface_t d) { return g_occ[d] || IS_NEW_(d); }
static void connect_internal_model(surface_t n, size_t di)
{
  __CPROVER_assert(!is_drive_connected_model(n), "C16: a drive number is connected at most once (connect_internal's assert)");
  __CPROVER_assert(di == g_new_n && di < 2, "C16: surfaces are connected in order");
  if (g_new_n == 0) g_new0 = n; else g_new1 = n;
  g_new_n++;
}
#define PHYS_OUTER_CONTRACT \
  __CPROVER_assigns(n, g_exc, g_exc_by_pointer, g_cf_witness, g_i0, g_new_n, g_new0, g_new1) \
  __CPROVER_loop_invariant(n <= limit && g_exc == EXC_NONE && g_new_n == 0) \
  __CPROVER_loop_invariant((g_m < n) ==> !FITS2_(g_m, drives_n)) \
  __CPROVER_loop_invariant((n >= 1) ==> !FITS2_(n - 1u, drives_n)) \
  __CPROVER_loop_invariant((n >= 2) ==> !FITS2_(n - 2u, drives_n)) \
  __CPROVER_decreases(limit - n)
#define PHYS_CONNECT_CONTRACT \
  __CPROVER_assigns(di, n, g_exc, g_exc_by_pointer, g_new_n, g_new0, g_new1) \
  __CPROVER_loop_invariant(di <= drives_n && g_new_n == di && g_exc == EXC_NONE) \
  __CPROVER_loop_invariant((unsigned long)n == (unsigned long)__CPROVER_loop_entry(n) + 2ul * di && (unsigned long)__CPROVER_loop_entry(n) + 2ul * drives_n <= (unsigned long)UINT_MAX) \
  __CPROVER_loop_invariant((di >= 1) ==> g_new0 == __CPROVER_loop_entry(n)) \
  __CPROVER_loop_invariant((di >= 2) ==> g_new1 == __CPROVER_loop_entry(n) + 2u) \
  __CPROVER_decreases(drives_n - di)
#define FIRST_OUTER_CONTRACT \
  __CPROVER_assigns(di, n, g_exc, g_exc_by_pointer, g_new_n, g_new0, g_new1) \
  __CPROVER_loop_invariant(di <= drives_n && n <= limit && g_exc == EXC_NONE) \
  __CPROVER_loop_invariant(n == limit || g_new_n == di) \
  __CPROVER_loop_invariant((g_m < n && !IS_NEW_(g_m)) ==> (g_occ[g_m] || (n < limit && g_m == n && 0))) \
  __CPROVER_loop_invariant((g_new_n >= 1) ==> (g_new0 <= n && !g_occ[g_new0])) \
  __CPROVER_loop_invariant((g_new_n >= 2) ==> (g_new0 < g_new1 && g_new1 <= n && !g_occ[g_new1])) \
  __CPROVER_loop_invariant((g_new_n >= 1 && n < limit) ==> (g_new_n == 1 ? g_new0 == n : g_new1 == n)) \
  __CPROVER_decreases(drives_n - di)
#define FIRST_INNER_CONTRACT \
  __CPROVER_assigns(n, g_exc, g_exc_by_pointer) \
  __CPROVER_loop_invariant(n <= limit && n >= __CPROVER_loop_entry(n) && g_exc == EXC_NONE) \
  __CPROVER_loop_invariant((g_m >= __CPROVER_loop_entry(n) && g_m < n) ==> (g_occ[g_m] || IS_NEW_(g_m))) \
  __CPROVER_decreases(limit - n)
#include "SurfaceSelector_opposite_surface.inc"
#include "SurfaceSelector_corresponding_side_of_next_device.inc"
#include "SurfaceSelector_next.inc"
#include "SurfaceSelector_prev.inc"
#include "check_sequence_fits.inc"
#include "connect_drives.inc"
#include "dfs_storage.h"

void h_opposite(void) { SurfaceSelector_opposite_surface(nondet_uint()); }
void h_next_device(void) { g_exc = EXC_NONE; SurfaceSelector_corresponding_side_of_next_device(nondet_uint()); }
void h_next(void) { g_exc = EXC_NONE; SurfaceSelector_next(nondet_uint()); }
void h_prev(void) { g_exc = EXC_NONE; SurfaceSelector_prev(nondet_uint()); }
void h_fits(void)
{
  static struct occ_fn occ;
  g_exc = EXC_NONE; g_k = nondet_size_t();
  bool r = check_sequence_fits(nondet_uint(), nondet_size_t(), &occ);
  VERIF_COVER(r, "fits");
  VERIF_COVER(!r, "does not fit");
}

void h_connect(void)
{
  g_exc = EXC_NONE; g_new_n = 0; g_m = nondet_uint(); g_k = nondet_size_t();
  bool r = connect_drives(nondet_size_t(), nondet_int());
  VERIF_COVER(r && g_new_n == 2 && g_new0 == 4, "two-sided image on drives 4 and 6");
  VERIF_COVER(!r, "no room");
}
