/* Proof harnesses for drive-number allocation (driveselector.cc, storage.cc). */
#include "dfs_types.h"
static size_t g_k;                 /* ghost index */
static surface_t g_cf_witness;     /* the occupied drive that made check_sequence_fits answer false */
static surface_t g_i0;
static void mon_read_block(struct DataAccess *obj, unsigned long lba) { (void)obj; (void)lba; }
static void mon_read_result(struct DataAccess *obj, _Bool ok) { (void)obj; (void)ok; }
#define FITS_LOOP_CONTRACT \
  __CPROVER_assigns(i, done, g_exc, g_exc_by_pointer) \
  __CPROVER_loop_invariant(done <= to_do && done <= (1ul << 31) && (unsigned long)i == (unsigned long)g_i0 + 2ul * done && i <= limit + 1u && g_exc == EXC_NONE) \
  __CPROVER_loop_invariant(g_k < done ==> !g_occ[g_i0 + 2u * (unsigned)g_k]) \
  __CPROVER_decreases(to_do - done)
#include "SurfaceSelector_opposite_surface.inc"
#include "SurfaceSelector_corresponding_side_of_next_device.inc"
#include "SurfaceSelector_next.inc"
#include "SurfaceSelector_prev.inc"
#include "check_sequence_fits.inc"
#include "dfs_storage.h"

void h_opposite(void) { SurfaceSelector_opposite_surface(nondet_uint()); }
void h_next_device(void) { g_exc = EXC_NONE; SurfaceSelector_corresponding_side_of_next_device(nondet_uint()); }
void h_next(void) { g_exc = EXC_NONE; SurfaceSelector_next(nondet_uint()); }
void h_prev(void) { g_exc = EXC_NONE; SurfaceSelector_prev(nondet_uint()); }
void h_fits(void)
{
  static struct occ_fn occ;
  g_exc = EXC_NONE; g_k = nondet_size_t(); g_i0 = nondet_uint();
  bool r = check_sequence_fits(g_i0, nondet_size_t(), &occ);
  VERIF_COVER(r, "fits");
  VERIF_COVER(!r, "does not fit");
}
