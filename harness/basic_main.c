/* Proof harnesses for /repo/basic/decoder.c and /repo/basic/bbcbasic_to_text.c (REAL code #included). */
#include <stddef.h>
#include <limits.h>
#include "basic_stdio.h"
#ifndef VERIF_ARGC_MAX
#define VERIF_ARGC_MAX 64          /* stated assumption: at most 64 command-line words (loops are by contract) */
#endif
#include "tokens.c"
#include "basic_spec_tables.h"
static unsigned short mon_cnt[4][257];
#include "basic_line_monitor.h"
#include "basic_file_monitor.h"
#include "basic_lines.h"
#include "basic_tokens.h"
#include "lines.c"
#include "decoder.c"
#include "bbcbasic_to_text.c"
static char h_args[VERIF_ARGC_MAX + 1][16];
static char *h_argv[VERIF_ARGC_MAX + 1];
#include "basic_main.h"

static void h_setup_main(void)
{
  mon_on = 0; fmon_on = 0;
  g_len = nondet_size_t();
  verif_argc = nondet_int();
  verif_optind = 1;
  g_diag = nondet_ulong(); g_wfail = nondet_uint();
  g_lines_listed = nondet_ulong(); g_file_failures = nondet_ulong();
  for (unsigned i = 0; i <= VERIF_ARGC_MAX; ++i) { h_args[i][15] = 0; h_argv[i] = h_args[i]; }
}

void h_set_listo(void)
{
  const char *s; int *listo;
  mon_on = 0; g_diag = nondet_ulong(); g_wfail = nondet_uint();
  bool r = set_listo(s, listo);
  VERIF_COVER(r && *listo == 7, "listo 7 accepted");
  VERIF_COVER(!r, "rejected");
}

void h_new_decoder(void)
{
  struct decoder *d = new_decoder(nondet_int(), nondet_int());
  VERIF_COVER(d != NULL, "decoder built");
}

void h_decode_file(void)
{
  struct decoder *dec; FILE *f = &verif_file_obj;
  mon_on = 1; fmon_on = 1;
  g_len = nondet_size_t(); g_pos = 0;
  fmon_phase = FPH_START; fmon_lines = nondet_ulong(); g_lines_listed = fmon_lines;
  fmon_gk = nondet_size_t();
  mon_listo = nondet_int(); mon_indent_run = 0;
  g_diag = nondet_ulong(); g_wfail = nondet_uint();
 g_read_error_happened = 0;
  bool r = decode_file(dec, "name", f);
  VERIF_COVER(r, "success");
  VERIF_COVER(!r, "failure");
}

void h_wrapped_main(void)
{
  h_setup_main();
  int r = wrapped_main(verif_argc, h_argv);
  VERIF_COVER(r == 0, "exit 0");
  VERIF_COVER(r == 1, "exit 1");
}

void h_main(void)
{
  h_setup_main();
  int r = main(verif_argc, h_argv);
  VERIF_COVER(r == 0, "exit 0");
  VERIF_COVER(r == 1, "exit 1");
}

void h_print_dialects(void)
{
  FILE *f = nondet_bool() ? stdout : stderr;
  mon_on = 0; g_diag = nondet_ulong(); g_wfail = nondet_uint();
  bool r = print_dialects(f, "6502");
  VERIF_COVER(r, "printed");
  VERIF_COVER(!r, "write failed");
}
