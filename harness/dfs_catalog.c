/* Proof harnesses for the extracted CatalogEntry / Volume::Access / sign_extend functions.
 * The *.inc files are produced on every run by engine/cxx2c.py from /repo's working tree. */
#include "dfs_types.h"

/* ---- monitor for visit_file_body_piecewise (C01) ------------------------------------------- */
struct visitor { int id; };
static struct DataAccess h_media, h_underlying;
static struct visitor h_visitor;
static _Bool mv_on;
static unsigned long mv_start, mv_len, mv_reads, mv_visits;
static _Bool mv_unreadable, mv_stop;
static size_t g_k;                    /* ghost index */
#define CEIL256(len) (((len) + 255ul) / 256ul)

static void mon_read_block(struct DataAccess *obj, unsigned long lba)
{
  if (!mv_on || obj != &h_media) return;
  __CPROVER_assert(lba == mv_start + mv_reads, "C01: the k-th sector read of a file body is start+k");
  __CPROVER_assert(mv_reads == mv_visits, "C01: every sector read is delivered before the next is read");
  __CPROVER_assert(mv_reads < CEIL256(mv_len), "C01: exactly ceil(len/256) sectors are read (none for a zero-length file)");
  mv_reads++;
}

static void mon_read_result(struct DataAccess *obj, _Bool ok)
{
  if (mv_on && obj == &h_media && !ok) mv_unreadable = 1;
}

static bool visitor_call(struct visitor *v, const byte *begin, const byte *end)
{
  (void)v;
  __CPROVER_assert(mv_visits + 1 == mv_reads && g_rb_last_ok, "C01: a chunk is delivered only after its sector was read successfully");
  __CPROVER_assert(__CPROVER_same_object(begin, end) && end >= begin, "C01: chunk is a valid range");
  __CPROVER_assert((unsigned long)(end - begin) == (mv_len - 256ul * mv_visits > 256ul ? 256ul : mv_len - 256ul * mv_visits),
                   "C01: chunk k has min(256, len-256k) bytes");
  if (g_k < (size_t)(end - begin))
    __CPROVER_assert(begin[g_k] == g_rb_last_buf.d[g_k], "C01: the chunk's bytes are the bytes of the sector just read");
  mv_visits++;
  if (nondet_bool()) { mv_stop = 1; return false; }
  return true;
}

#define VISIT_LOOP_CONTRACT \
  __CPROVER_assigns(sec, len, g_rb_calls, g_rb_last_lba, g_rb_last_obj, g_rb_last_buf, g_rb_last_ok, mv_reads, mv_visits, mv_unreadable, mv_stop, g_exc, g_exc_by_pointer) \
  __CPROVER_loop_invariant(start <= sec && sec <= end + 1) \
  __CPROVER_loop_invariant(mv_reads == (unsigned long)(sec - start) && mv_visits == mv_reads) \
  __CPROVER_loop_invariant(len == (mv_len > 256ul * mv_visits ? mv_len - 256ul * mv_visits : 0ul) && 256ul * mv_visits <= mv_len + 255ul) \
  __CPROVER_loop_invariant(g_exc == EXC_NONE && !mv_stop && !mv_unreadable) \
  __CPROVER_decreases((end + 1) - sec)

#include "sector_count.inc"
#include "CatalogEntry_metadata_byte.inc"
#include "CatalogEntry_metadata_word.inc"
#include "CatalogEntry_load_address.inc"
#include "CatalogEntry_exec_address.inc"
#include "CatalogEntry_file_length.inc"
#include "CatalogEntry_start_sector.inc"
#include "CatalogEntry_directory.inc"
#include "CatalogEntry_is_locked.inc"
#include "CatalogEntry_last_sector.inc"
#include "CatalogEntry_visit_file_body_piecewise.inc"
#include "sign_extend.inc"
#include "VolumeAccess_read_block.inc"
#include "dfs_catalog.h"

#define H_CE(fn, call) void h_##fn(void) { struct CatalogEntry *self; call; }
H_CE(metadata_byte, CatalogEntry_metadata_byte(self, nondet_uint()))
H_CE(metadata_word, CatalogEntry_metadata_word(self, nondet_uint()))
H_CE(load_address, CatalogEntry_load_address(self))
H_CE(exec_address, CatalogEntry_exec_address(self))
H_CE(file_length, CatalogEntry_file_length(self))
H_CE(start_sector, CatalogEntry_start_sector(self))
H_CE(directory, CatalogEntry_directory(self))
H_CE(is_locked, CatalogEntry_is_locked(self))
H_CE(last_sector, CatalogEntry_last_sector(self))
void h_sector_count(void) { sector_count((long)nondet_ulong()); }
void h_sign_extend(void) { unsigned long r = sign_extend(nondet_ulong()); VERIF_COVER(r >= 0xFC0000ul, "extended"); VERIF_COVER(r < 0x20000ul, "not extended"); }
void h_volume_read_block(void)
{
  struct VolumeAccess *self;
  mv_on = 0;
  g_rb_calls = nondet_ulong() & 0xFFFF;
  opt_SectorBuffer r = VolumeAccess_read_block(self, nondet_ulong());
  VERIF_COVER(r.has, "read inside the volume");
  VERIF_COVER(!r.has && g_rb_calls == 0, "refused");
}
void h_visit(void)
{
  struct CatalogEntry *self;
  mv_on = 1; mv_reads = 0; mv_visits = 0; mv_unreadable = 0; mv_stop = 0; g_exc = EXC_NONE;
  mv_start = nondet_ulong(); mv_len = nondet_ulong(); g_k = nondet_size_t();
  bool r = CatalogEntry_visit_file_body_piecewise(self, &h_media, &h_visitor);
  VERIF_COVER(r && mv_visits == 1024, "a 256 KiB file delivered completely");
  VERIF_COVER(g_exc != EXC_NONE, "unreadable sector");
}
