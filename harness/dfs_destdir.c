/* Proof harnesses: destination-directory normalisation of extract-files / extract-unused and make_name (C12). */
#include "dfs_types.h"
#include "ostream_events.h"
static void mon_read_block(struct DataAccess *obj, unsigned long lba) { (void)obj; (void)lba; }
static void mon_read_result(struct DataAccess *obj, _Bool ok) { (void)obj; (void)ok; }
static struct ostream ss_obj;
static size_t g_k;
static struct cstr mn_dest; static sector_count_type mn_first; static unsigned mn_step;
static void mon_out(struct ostream *os, const struct out_ev *e)
{
  (void)os;
  switch (mn_step)
    {
    case 0: __CPROVER_assert(e->kind == EV_CSTR && g_ev_cstr.n == mn_dest.n && (g_k >= mn_dest.n || g_k >= 15 || g_ev_cstr.d[g_k] == mn_dest.d[g_k]), "C12: the file name starts with the destination directory (which ends in '/')"); break;
    case 1: __CPROVER_assert(e->kind == EV_STR && e->str[0] == 'u' && e->str[1] == 'n' && e->str[2] == 'u' && e->str[3] == 's' && e->str[4] == 'e' && e->str[5] == 'd' && e->str[6] == '_' && e->str[7] == 0, "C12/C14: unused_ prefix"); break;
    case 2: __CPROVER_assert(e->kind == EV_NUM && e->num == mn_first && e->base == 16 && e->upper && e->fill == '0' && e->width == 3, "C14: named by first sector, at least 3 upper-case hex digits"); break;
    case 3: __CPROVER_assert(e->kind == EV_STR && e->str[0] == '.' && e->str[1] == 'b' && e->str[2] == 'i' && e->str[3] == 'n' && e->str[4] == 0, "C12/C14: .bin suffix"); break;
    default: __CPROVER_assert(0, "C12: nothing else in the file name"); break;
    }
  mn_step++;
}
static void mon_write(struct ostream *os, const byte *p, size_t n) { (void)os; (void)p; (void)n; }
#include "destdir_extract_unused.inc"
#include "destdir_extract_files.inc"
#include "make_name.inc"

/* the destination is the argument itself when it already ends in '/', otherwise the argument plus '/': files are then
   created as dest + <name without '/'>, i.e. directly inside the named directory */
#define DESTDIR_CONTRACT(fn) \
static void fn(struct cstr arg1, struct cstr *out) \
__CPROVER_requires(arg1.n <= 14 && __CPROVER_is_fresh(out, sizeof(*out)))   /* any argument, including the empty string */ \
__CPROVER_assigns(*out) \
__CPROVER_ensures(out->n >= 1 && out->n <= 15 && out->d[out->n - 1] == '/') \
__CPROVER_ensures((arg1.n >= 1 && arg1.d[arg1.n >= 1 ? arg1.n - 1 : 0] == '/') ? out->n == arg1.n : out->n == arg1.n + 1) \
__CPROVER_ensures(g_k >= arg1.n || out->d[g_k] == arg1.d[g_k]);
DESTDIR_CONTRACT(destdir_extract_unused)
DESTDIR_CONTRACT(destdir_extract_files)

static void make_name(const struct cstr dest_dir, sector_count_type first_sector)
__CPROVER_requires(dest_dir.n >= 1 && dest_dir.n <= 15 && dest_dir.d[dest_dir.n - 1] == '/' && mn_step == 0 && mn_first == first_sector)
__CPROVER_requires(mn_dest.n == dest_dir.n && (g_k >= 15 || mn_dest.d[g_k] == dest_dir.d[g_k]))
__CPROVER_assigns(ss_obj, mn_step, g_ev_cstr)
__CPROVER_ensures(ss_obj.bad || mn_step == 4);

void h_destdir_unused(void) { struct cstr a; struct cstr *o; g_k = nondet_size_t(); destdir_extract_unused(a, o); }
void h_destdir_files(void) { struct cstr a; struct cstr *o; g_k = nondet_size_t(); destdir_extract_files(a, o); }
void h_make_name(void) { struct cstr d; g_k = nondet_size_t(); mn_step = 0; mn_first = nondet_uint(); mn_dest = d; make_name(d, mn_first); }
