/* Proof harness: the span loop of `extract-unused` (cmd_extract_unused.cc).  C14: "extract-unused writes exactly the
 * sectors that sector-map shows as unowned, one output per maximal run, named by first sector".  The sector map is an
 * unbounded ghost array `owned[]` (occupied_by->at(sec) has a value iff owned[sec]); the caller has marked last_sec
 * (the sector after the last one) as owned (":::end"). */
#include <limits.h>
#include "dfs_types.h"
static struct DataAccess h_drive;
static void mon_read_block(struct DataAccess *obj, unsigned long lba) { (void)obj; (void)lba; }
static void mon_read_result(struct DataAccess *obj, _Bool ok) { (void)obj; (void)ok; }
struct opt_owner { _Bool has; };
static _Bool owned[__CPROVER_constant_infinity_uint];
static sector_count_type g_s;           /* ghost: one sector */
static sector_count_type h_last_sec;
static struct { unsigned long calls; _Bool covered; _Bool failed; sector_count_type prev_end; } SPN;
static struct opt_owner occupied_at(sector_count_type sec) { struct opt_owner o; o.has = owned[sec]; return o; }
#include "sector_count.inc"
/* write_span(drive, dest_dir, begin, end): one output file named by `begin` holding sectors [begin, end) -- its own
   contract is enforced in harness/dfs_unused.c; here every call is checked against the sector map */
static bool write_span_v(struct DataAccess *drive, sector_count_type begin, sector_count_type end)
{
  (void)drive;
  __CPROVER_assert(begin < end && end <= h_last_sec, "C14 extract-unused: a span is a non-empty range below the end of the disc");
  __CPROVER_assert(!(begin <= g_s && g_s < end) || !owned[g_s], "C14 extract-unused: only unowned sectors are written");
  __CPROVER_assert(owned[end] && (begin == 0 || owned[begin - 1]), "C14 extract-unused: a span is a MAXIMAL run (owned sector on either side)");
  __CPROVER_assert(SPN.calls == 0 || begin > SPN.prev_end, "C14 extract-unused: spans are written once each, in increasing order");
  if (begin <= g_s && g_s < end) SPN.covered = 1;
  SPN.prev_end = end;
  if (SPN.calls < (1ul << 40)) SPN.calls++;
  if (nondet_bool()) { SPN.failed = 1; return 0; }
  return 1;
}
#define SPANS_LOOP_CONTRACT \
  __CPROVER_assigns(sec, begin, count, SPN) \
  __CPROVER_loop_invariant(sec <= last_sec + 1 && begin >= -1 && (long)begin <= (long)sec && !SPN.failed && count == (unsigned short)SPN.calls && SPN.calls <= sec) \
  __CPROVER_loop_invariant(begin < 0 ==> (sec == 0 || owned[sec - 1])) \
  __CPROVER_loop_invariant(begin >= 0 ==> (sec <= last_sec && (unsigned)begin < sec && (begin == 0 || owned[begin - 1]) && (!((unsigned)begin <= g_s && g_s < sec) || !owned[g_s]))) \
  __CPROVER_loop_invariant(SPN.calls == 0 || (SPN.prev_end < sec && (begin < 0 || (unsigned)begin > SPN.prev_end))) \
  __CPROVER_loop_invariant((g_s < sec && !owned[g_s]) ==> (SPN.covered || (begin >= 0 && (unsigned)begin <= g_s))) \
  __CPROVER_decreases(last_sec + 1 - sec)
#include "extract_unused_spans.inc"
static sector_count_type sector_count(long int x)
__CPROVER_requires(0 <= x && x <= (long)UINT_MAX) __CPROVER_assigns()
__CPROVER_ensures(__CPROVER_return_value == (sector_count_type)x);

static bool extract_unused_spans(struct DataAccess *drive, sector_count_type last_sec, unsigned short *count_out)
__CPROVER_requires(drive == &h_drive && __CPROVER_is_fresh(count_out, sizeof(*count_out)) && last_sec == h_last_sec && last_sec <= 100000 && owned[last_sec])
__CPROVER_requires(SPN.calls == 0 && !SPN.covered && !SPN.failed)
__CPROVER_assigns(*count_out, SPN)
/* success: every unowned sector below the end of the disc went into exactly one span (the per-call assertions say the
   spans are maximal runs of unowned sectors, disjoint and in order); the count printed is the number of files */
__CPROVER_ensures(__CPROVER_return_value == !SPN.failed)
__CPROVER_ensures((__CPROVER_return_value && g_s < last_sec && !owned[g_s]) ==> SPN.covered)
__CPROVER_ensures(__CPROVER_return_value ==> *count_out == (unsigned short)SPN.calls);

void h_spans(void)
{
  unsigned short *c;
  g_s = nondet_uint(); h_last_sec = nondet_uint();
  SPN.calls = 0; SPN.covered = 0; SPN.failed = 0;
  bool r = extract_unused_spans(&h_drive, h_last_sec, c);
  VERIF_COVER(r && SPN.calls == 3, "three spans written");
  VERIF_COVER(!r, "a span failed");
}
