/* Proof harness: where an HFE file's track list (LUT) is read from and how the header and its entries are decoded
 * (img_hfe.cc decode_header, le_word, PicTrack::PicTrack, read_track_offset_lut and its call in the HfeFile constructor).
 * C05: the tracks handed to the decoders are the tracks the file records -- the header field track_list_offset (bytes
 * 0x12/0x13, little-endian, in units of 512 bytes: the program's own header dump prints it as "offset x 512 bytes") says
 * where the list is; entry k is four bytes: offset of track k's data in 512-byte blocks, then its length in bytes. */
#include "dfs_types.h"
static void mon_read_block(struct DataAccess *obj, unsigned long lba) { (void)obj; (void)lba; }
static void mon_read_result(struct DataAccess *obj, _Bool ok) { (void)obj; (void)ok; }
#define LUT_MAX (255u * 4u)                       /* number_of_track is one byte */
static size_t g_k;                                /* ghost index of one track */
/* FileAccess::read(pos, len) over a ghost file: a vector of min(len, what is there) bytes -- a heap object of exactly that
   size would be ideal; here the LAST n bytes of a fixed store, so that an access at or beyond size() leaves the object */
static byte h_lut_store[LUT_MAX];
static struct { unsigned long calls, pos, len; size_t got; } RD;
static struct dynvec FileAccess_read_lut(struct FileAccess *f, unsigned long pos, unsigned long len)
{
  struct dynvec r;
  (void)f;
  __CPROVER_assert(len <= (1ul << 20), "C07: no allocation request larger than 1 MiB is driven by sizes declared in the file");
  __CPROVER_assert(len <= LUT_MAX, "model: a track list of at most 255 entries");
  r.n = nondet_size_t();                          /* short at end of file */
  __CPROVER_assume(r.n <= len && r.n <= LUT_MAX);
  r.d = r.n ? h_lut_store + (LUT_MAX - r.n) : (byte *)0;
  if (RD.calls < 1000) RD.calls++;
  RD.pos = pos; RD.len = len; RD.got = r.n;
  return r;
}
/* std::vector<PicTrack> result: number of elements and the g_k-th of them */
static struct { size_t n; struct PicTrack at_k; } LUT;
static void lut_clear(void) { LUT.n = 0; }
#include "hfe_le_word.inc"
#include "hfe_le_word_it.inc"
#include "PicTrack_ctor.inc"
static void lut_push_back(const unsigned char *p) { struct PicTrack t; PicTrack_ctor(&t, p); if (LUT.n == g_k) LUT.at_k = t; LUT.n = LUT.n + 1; }
#define ENTRY_(k, o) (h_lut_store[LUT_MAX - RD.got + 4 * (k) + (o)])
#define LUT_LOOP_CONTRACT \
  __CPROVER_assigns(i, pos, LUT) \
  __CPROVER_loop_invariant(i <= tracks && LUT.n == i && __CPROVER_same_object(pos, h_lut_store) && \
                           __CPROVER_POINTER_OFFSET(pos) == LUT_MAX - RD.got + 4ul * i) \
  __CPROVER_loop_invariant(g_k < i ==> (LUT.at_k.offset_ == (ENTRY_(g_k, 0) | (ENTRY_(g_k, 1) << 8)) && LUT.at_k.track_len_ == (ENTRY_(g_k, 2) | (ENTRY_(g_k, 3) << 8)))) \
  __CPROVER_decreases(tracks - i)
#include "read_track_offset_lut.inc"
#include "picfileformatheader.inc"
static void bytes_copy_n(unsigned char *dst, const byte *src, size_t n) { size_t i; for (i = 0; i < 8; ++i) if (i < n) dst[i] = src[i]; }
#include "hfe_nextbyte.inc"
#include "hfe_nextshort.inc"
#include "hfe_decode_header.inc"

static unsigned short hfe_le_word(const byte *d)
__CPROVER_requires(__CPROVER_is_fresh(d, 2)) __CPROVER_assigns()
__CPROVER_ensures(__CPROVER_return_value == (d[0] | (d[1] << 8)));
static unsigned short hfe_le_word_it(const byte *d)
__CPROVER_requires(__CPROVER_is_fresh(d, 2)) __CPROVER_assigns()
__CPROVER_ensures(__CPROVER_return_value == (d[0] | (d[1] << 8)));

static void PicTrack_ctor(struct PicTrack *self, const unsigned char *p)
__CPROVER_requires(__CPROVER_is_fresh(self, sizeof(*self)) && __CPROVER_is_fresh(p, 4))
__CPROVER_assigns(*self)
__CPROVER_ensures(self->offset_ == (p[0] | (p[1] << 8)) && self->track_len_ == (p[2] | (p[3] << 8)));

/* the list is read with ONE read of 4 bytes per track at 512 x track_list_offset; a file too short for it is rejected (by
   value); otherwise there is one entry per track and entry k is the k-th group of four bytes */
static void read_track_offset_lut(struct FileAccess *f, unsigned int track_list_offset, unsigned int tracks)
__CPROVER_requires(tracks <= 255 && track_list_offset <= 65535 && RD.calls == 0 && g_exc == EXC_NONE && !g_exc_by_pointer)
__CPROVER_assigns(RD, LUT, g_exc, g_exc_by_pointer)
__CPROVER_ensures(RD.calls == 1 && RD.pos == 512ul * track_list_offset && RD.len == 4ul * tracks && !g_exc_by_pointer)
__CPROVER_ensures((g_exc != EXC_NONE) == (RD.got != 4ul * tracks))
__CPROVER_ensures(g_exc == EXC_NONE ==> LUT.n == tracks)
__CPROVER_ensures((g_exc == EXC_NONE && g_k < tracks) ==>
                  (LUT.at_k.offset_ == (ENTRY_(g_k, 0) | (ENTRY_(g_k, 1) << 8)) && LUT.at_k.track_len_ == (ENTRY_(g_k, 2) | (ENTRY_(g_k, 3) << 8))));

/* the header fields the reader depends on, at their documented positions */
static struct picfileformatheader hfe_decode_header(const byte *header)
__CPROVER_requires(__CPROVER_is_fresh(header, 512))
__CPROVER_assigns()
__CPROVER_ensures(__CPROVER_return_value.formatrevision == header[8] && __CPROVER_return_value.number_of_track == header[9] &&
                  __CPROVER_return_value.number_of_side == header[10] && __CPROVER_return_value.track_encoding == header[11])
__CPROVER_ensures(__CPROVER_return_value.track_list_offset == (header[0x12] | (header[0x13] << 8)))
__CPROVER_ensures(__CPROVER_return_value.track0s0_altencoding == header[0x16] && __CPROVER_return_value.track0s0_encoding == header[0x17] &&
                  __CPROVER_return_value.track0s1_altencoding == header[0x18] && __CPROVER_return_value.track0s1_encoding == header[0x19])
__CPROVER_ensures(g_k < 8 ==> __CPROVER_return_value.HEADERSIGNATURE[g_k] == header[g_k]);

/* the constructor hands the header's own fields to the reader */
struct HfeFileL { struct picfileformatheader header_; struct FileAccess *file_; };
static struct { unsigned calls; struct FileAccess *f; unsigned long off, tracks; _Bool has_off; } LC;
static void lut_call3(struct FileAccess *f, unsigned long off, unsigned long tracks) { LC.calls++; LC.f = f; LC.off = off; LC.tracks = tracks; LC.has_off = 1; }
static void lut_call2(struct FileAccess *f, unsigned long tracks) { LC.calls++; LC.f = f; LC.tracks = tracks; LC.has_off = 0; }
#define LUT_PICK_(a, b, c, N, ...) N
#define LUT_CALL(...) LUT_PICK_(__VA_ARGS__, lut_call3, lut_call2, 0)(__VA_ARGS__)
#include "hfe_lut_call.inc"
static void hfe_lut_call(struct HfeFileL *self)
__CPROVER_requires(__CPROVER_is_fresh(self, sizeof(*self)) && LC.calls == 0)
__CPROVER_assigns(LC)
__CPROVER_ensures(LC.calls == 1 && LC.f == self->file_ && LC.tracks == self->header_.number_of_track)
__CPROVER_ensures(LC.has_off && LC.off == self->header_.track_list_offset);

/* the encoding of a track is the header's track_encoding, except track 0, where side 0 / side 1 use their own field
   (track0s0_encoding / track0s1_encoding) when that side's alternative-encoding byte is 0 */
#include "hfe_encoding_of_track.inc"
static unsigned char hfe_encoding_of_track(const struct HfeFileL *self, int side, int track)
__CPROVER_requires(__CPROVER_is_fresh(self, sizeof(*self)))
__CPROVER_assigns()
__CPROVER_ensures(__CPROVER_return_value ==
                  ((track == 0 && side == 0 && self->header_.track0s0_altencoding == 0) ? self->header_.track0s0_encoding :
                   (track == 0 && side != 0 && self->header_.track0s1_altencoding == 0) ? self->header_.track0s1_encoding : self->header_.track_encoding));
void h_encoding_of_track(void) { const struct HfeFileL *f; hfe_encoding_of_track(f, nondet_int(), nondet_int()); }
void h_le_word(void) { const byte *d; hfe_le_word(d); }
void h_le_word_it(void) { const byte *d; hfe_le_word_it(d); }
void h_pictrack(void) { struct PicTrack *t; const unsigned char *p; PicTrack_ctor(t, p); }
void h_read_lut(void)
{
  struct FileAccess *f;
  g_k = nondet_size_t(); RD.calls = 0; g_exc = EXC_NONE; g_exc_by_pointer = 0;
  read_track_offset_lut(f, nondet_uint(), nondet_uint());
  VERIF_COVER(g_exc == EXC_NONE && LUT.n == 80, "a list of 80 tracks");
  VERIF_COVER(g_exc != EXC_NONE, "file too short for the list");
}
void h_decode_header(void) { const byte *h; g_k = nondet_size_t(); hfe_decode_header(h); }
void h_lut_call(void) { struct HfeFileL *s; LC.calls = 0; hfe_lut_call(s); }
