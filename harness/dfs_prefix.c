/* Proof harness: the default drive and directory prefixes of wildcards and file names (afsp.cc drive_prefix /
 * directory_prefix, driveselector.cc VolumeSelector::to_string).  C15: "an omitted drive or directory defaults to
 * --drive/--dir" -- the drive part includes the Opus DDOS volume letter when one is selected. */
#include "dfs_types.h"
static void mon_read_block(struct DataAccess *obj, unsigned long lba) { (void)obj; (void)lba; }
static void mon_read_result(struct DataAccess *obj, _Bool ok) { (void)obj; (void)ok; }
static size_t g_k;
struct opt_char { _Bool has; char val; };
struct VolumeSelectorM { unsigned surface_; struct opt_char subvolume_; };
/* SurfaceSelector::to_string() = std::to_string(d_): the decimal digits of the drive number (1 to 10 of them); which digits
   is not needed here, only that the same string is used: a ghost string fixed for the run */
static struct cstr h_surface_str;
static struct cstr surface_to_string_model(unsigned surface) { (void)surface; return h_surface_str; }
static void cstr_append(struct cstr *s, struct cstr t)          /* std::string::append */
{
  unsigned i;
  for (i = 0; i < 15; ++i) if (i < t.n) cstr_push(s, t.d[i]);
}
#include "VolumeSelector_to_string.inc"
#include "afsp_drive_prefix.inc"
#include "afsp_directory_prefix.inc"

#define SURF_OK (h_surface_str.n >= 1 && h_surface_str.n <= 10)
static struct cstr VolumeSelector_to_string(const struct VolumeSelectorM *self)
__CPROVER_requires(__CPROVER_is_fresh(self, sizeof(*self)) && SURF_OK)
__CPROVER_assigns()
/* the drive number, followed by the volume letter when there is one */
__CPROVER_ensures(__CPROVER_return_value.n == h_surface_str.n + (self->subvolume_.has ? 1 : 0))
__CPROVER_ensures(g_k < h_surface_str.n ==> __CPROVER_return_value.d[g_k] == h_surface_str.d[g_k])
__CPROVER_ensures(self->subvolume_.has ==> __CPROVER_return_value.d[h_surface_str.n] == self->subvolume_.val);

static struct cstr afsp_drive_prefix(const struct VolumeSelectorM *vol)
__CPROVER_requires(__CPROVER_is_fresh(vol, sizeof(*vol)) && SURF_OK)
__CPROVER_assigns()
/* ":" drive-number [volume letter] "." */
__CPROVER_ensures(__CPROVER_return_value.n == h_surface_str.n + (vol->subvolume_.has ? 1 : 0) + 2)
__CPROVER_ensures(__CPROVER_return_value.d[0] == ':' && __CPROVER_return_value.d[__CPROVER_return_value.n - 1] == '.')
__CPROVER_ensures(g_k < h_surface_str.n ==> __CPROVER_return_value.d[1 + g_k] == h_surface_str.d[g_k])
__CPROVER_ensures(vol->subvolume_.has ==> __CPROVER_return_value.d[1 + h_surface_str.n] == vol->subvolume_.val);

static struct cstr afsp_directory_prefix(char directory)
__CPROVER_assigns()
__CPROVER_ensures(__CPROVER_return_value.n == 2 && __CPROVER_return_value.d[0] == directory && __CPROVER_return_value.d[1] == '.');

/* VolumeSelector::operator= (C15: an explicit ":0." replaces the whole --drive default, volume letter included) */
#include "VolumeSelector_assign.inc"
static void VolumeSelector_assign(struct VolumeSelectorM *self, const struct VolumeSelectorM *v)
__CPROVER_requires(__CPROVER_is_fresh(self, sizeof(*self)) && __CPROVER_is_fresh(v, sizeof(*v)))
__CPROVER_assigns(*self)
__CPROVER_ensures(self->surface_ == v->surface_ && self->subvolume_.has == v->subvolume_.has && (v->subvolume_.has ==> self->subvolume_.val == v->subvolume_.val));
void h_vol_assign(void) { struct VolumeSelectorM *a; const struct VolumeSelectorM *b; VolumeSelector_assign(a, b); }
void h_vol_to_string(void) { const struct VolumeSelectorM *v; g_k = nondet_size_t(); __CPROVER_assume(g_k < 10); VolumeSelector_to_string(v); }
void h_drive_prefix(void) { const struct VolumeSelectorM *v; g_k = nondet_size_t(); __CPROVER_assume(g_k < 10); afsp_drive_prefix(v); }
void h_directory_prefix(void) { afsp_directory_prefix(nondet_char()); }

/* ---- transform_string_with_regex: assembling the fully qualified name from the regex groups (1: drive, 2: directory,
        3: name); strings are identified by where they come from ---- */
enum { T_NONE, T_G1, T_G2, T_G3, T_DRIVE_DEFAULT, T_DIR_DEFAULT };
struct astr { int tag; };
static size_t groups_n;
static _Bool h_group_empty[4];
static struct { unsigned n; int part[4]; _Bool cleared; } OUTS;
static _Bool group_empty(unsigned i) { __CPROVER_assert(i < groups_n && i < 4, "C07: vector index is below size()"); return h_group_empty[i < 4 ? i : 0]; }
static struct astr group_at(unsigned i) { struct astr a; __CPROVER_assert(i < groups_n && i >= 1 && i <= 3, "C07: vector index is below size()"); a.tag = (i == 1) ? T_G1 : (i == 2) ? T_G2 : T_G3; return a; }
static struct astr astr_tag(int t) { struct astr a; a.tag = t; return a; }
static void out_clear(void) { OUTS.n = 0; OUTS.cleared = 1; }
static void out_append(struct astr a) { if (OUTS.n < 4) OUTS.part[OUTS.n] = a.tag; OUTS.n++; }
#include "afsp_assemble.inc"
static bool afsp_assemble(void)
__CPROVER_requires(groups_n >= 1 && groups_n <= 4 && g_diag < 1000 && OUTS.n == 0)
__CPROVER_assigns(OUTS, g_diag)
/* a name is required; an omitted drive or directory is replaced by the default prefix (--drive / --dir) */
__CPROVER_ensures(__CPROVER_return_value == (groups_n > 3 && !h_group_empty[3]))
__CPROVER_ensures(!__CPROVER_return_value ==> g_diag > __CPROVER_old(g_diag))
__CPROVER_ensures(__CPROVER_return_value ==>
                  (OUTS.cleared && OUTS.n == 3 &&
                   OUTS.part[0] == ((groups_n > 1 && !h_group_empty[1]) ? T_G1 : T_DRIVE_DEFAULT) &&
                   OUTS.part[1] == ((groups_n > 2 && !h_group_empty[2]) ? T_G2 : T_DIR_DEFAULT) &&
                   OUTS.part[2] == T_G3));
void h_assemble(void) { OUTS.n = 0; OUTS.cleared = 0; g_diag = 0; afsp_assemble(); }
