/* Proof harness: the default drive and directory prefixes of wildcards and file names (afsp.cc drive_prefix /
 * directory_prefix, driveselector.cc VolumeSelector::to_string).  C15: "an omitted drive or directory defaults to
 * --drive/--dir" -- the drive part includes the Opus DDOS volume letter when one is selected. */
#include "dfs_types.h"
static void mon_read_block(struct DataAccess *obj, unsigned long lba) { (void)obj; (void)lba; }
static void mon_read_result(struct DataAccess *obj, _Bool ok) { (void)obj; (void)ok; }
static size_t g_k;
struct opt_char { _Bool has; char val; };
struct VolumeSelectorM { unsigned surface_; struct opt_char subvolume_; };
/* SurfaceSelector::to_string() = std::to_string(d_): the decimal digits of the drive number (1 to 10 of them); which digits
   is not needed here, only that the same string is used: a ghost string fixed for the run */
static struct cstr h_surface_str;
static struct cstr surface_to_string_model(unsigned surface) { (void)surface; return h_surface_str; }
static void cstr_append(struct cstr *s, struct cstr t)          /* std::string::append */
{
  unsigned i;
  for (i = 0; i < 15; ++i) if (i < t.n) cstr_push(s, t.d[i]);
}
#include "VolumeSelector_to_string.inc"
#include "afsp_drive_prefix.inc"
#include "afsp_directory_prefix.inc"

#define SURF_OK (h_surface_str.n >= 1 && h_surface_str.n <= 10)
static struct cstr VolumeSelector_to_string(const struct VolumeSelectorM *self)
__CPROVER_requires(__CPROVER_is_fresh(self, sizeof(*self)) && SURF_OK)
__CPROVER_assigns()
/* the drive number, followed by the volume letter when there is one */
__CPROVER_ensures(__CPROVER_return_value.n == h_surface_str.n + (self->subvolume_.has ? 1 : 0))
__CPROVER_ensures(g_k < h_surface_str.n ==> __CPROVER_return_value.d[g_k] == h_surface_str.d[g_k])
__CPROVER_ensures(self->subvolume_.has ==> __CPROVER_return_value.d[h_surface_str.n] == self->subvolume_.val);

static struct cstr afsp_drive_prefix(const struct VolumeSelectorM *vol)
__CPROVER_requires(__CPROVER_is_fresh(vol, sizeof(*vol)) && SURF_OK)
__CPROVER_assigns()
/* ":" drive-number [volume letter] "." */
__CPROVER_ensures(__CPROVER_return_value.n == h_surface_str.n + (vol->subvolume_.has ? 1 : 0) + 2)
__CPROVER_ensures(__CPROVER_return_value.d[0] == ':' && __CPROVER_return_value.d[__CPROVER_return_value.n - 1] == '.')
__CPROVER_ensures(g_k < h_surface_str.n ==> __CPROVER_return_value.d[1 + g_k] == h_surface_str.d[g_k])
__CPROVER_ensures(vol->subvolume_.has ==> __CPROVER_return_value.d[1 + h_surface_str.n] == vol->subvolume_.val);

static struct cstr afsp_directory_prefix(char directory)
__CPROVER_assigns()
__CPROVER_ensures(__CPROVER_return_value.n == 2 && __CPROVER_return_value.d[0] == directory && __CPROVER_return_value.d[1] == '.');

void h_vol_to_string(void) { const struct VolumeSelectorM *v; g_k = nondet_size_t(); __CPROVER_assume(g_k < 10); VolumeSelector_to_string(v); }
void h_drive_prefix(void) { const struct VolumeSelectorM *v; g_k = nondet_size_t(); __CPROVER_assume(g_k < 10); afsp_drive_prefix(v); }
void h_directory_prefix(void) { afsp_directory_prefix(nondet_char()); }
