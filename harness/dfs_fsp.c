/* Proof harness: the directory/name split of parse_filename (fsp.cc), after the optional :drive. prefix has been removed
 * (C15: `type`, `list`, `dump` find a file by dir.name; doc/dfs.1 DFS FILE NAMES: "A directory is a single letter", "The
 * drive and directory parts of the file name are optional"). */
#include "dfs_types.h"
static void mon_read_block(struct DataAccess *obj, unsigned long lba) { (void)obj; (void)lba; }
static void mon_read_result(struct DataAccess *obj, _Bool ok) { (void)obj; (void)ok; }
static size_t g_k;
static char cstr_at(const struct cstr *s, unsigned i)          /* operator[]: defined for i <= size() (the terminator) */
{
  __CPROVER_assert(i <= s->n, "C07: std::string index is at most size()");
  return i < s->n && i < 15 ? s->d[i] : 0;
}
#define CSTR_AT(s, i) cstr_at((s), (i))
static struct cstr cstr_substr(struct cstr s, unsigned pos)    /* std::string(s, pos): the suffix from pos (pos <= size()) */
{
  struct cstr r; unsigned i;
  __CPROVER_assert(pos <= s.n, "C07: std::string(str, pos) with pos beyond size() throws out_of_range");
  r.n = pos <= s.n ? s.n - pos : 0;
  for (i = 0; i < 16; ++i) r.d[i] = (i + pos < 16 && i < r.n) ? s.d[i + pos] : 0;
  return r;
}
#include "parse_dir_and_name.inc"

#define HAS_DIR(nm) ((nm).n >= 3 && (nm).d[1] == '.')
static void parse_dir_and_name(struct cstr name, char *result_dir, struct cstr *result_name)
__CPROVER_requires(__CPROVER_is_fresh(result_dir, 1) && __CPROVER_is_fresh(result_name, sizeof(*result_name)) && name.n <= 15)
__CPROVER_assigns(*result_dir, *result_name)
/* D.NAME with a non-empty NAME: the directory is the first character and the name is what follows the '.' */
__CPROVER_ensures(HAS_DIR(name) ==> (*result_dir == name.d[0] && result_name->n == name.n - 2 &&
                                     (g_k >= result_name->n || result_name->d[g_k] == name.d[g_k + 2])))
/* otherwise the directory stays the current one and the whole argument is the name */
__CPROVER_ensures(!HAS_DIR(name) ==> (*result_dir == __CPROVER_old(*result_dir) && result_name->n == name.n &&
                                      (g_k >= name.n || result_name->d[g_k] == name.d[g_k])));

void h_parse_dir_and_name(void)
{
  struct cstr nm; char *d; struct cstr *out;
  g_k = nondet_size_t(); __CPROVER_assume(g_k < 14);
  parse_dir_and_name(nm, d, out);
}
