/* Proof harness: the directory/name split of parse_filename (fsp.cc), after the optional :drive. prefix has been removed
 * (C15: `type`, `list`, `dump` find a file by dir.name; doc/dfs.1 DFS FILE NAMES: "A directory is a single letter", "The
 * drive and directory parts of the file name are optional"). */
#include "dfs_types.h"
static void mon_read_block(struct DataAccess *obj, unsigned long lba) { (void)obj; (void)lba; }
static void mon_read_result(struct DataAccess *obj, _Bool ok) { (void)obj; (void)ok; }
static size_t g_k;
static char cstr_at(const struct cstr *s, unsigned i)          /* operator[]: defined for i <= size() (the terminator) */
{
  __CPROVER_assert(i <= s->n, "C07: std::string index is at most size()");
  return i < s->n && i < 15 ? s->d[i] : 0;
}
#define CSTR_AT(s, i) cstr_at((s), (i))
static struct cstr cstr_substr(struct cstr s, unsigned pos)    /* std::string(s, pos): the suffix from pos (pos <= size()) */
{
  struct cstr r; unsigned i;
  __CPROVER_assert(pos <= s.n, "C07: std::string(str, pos) with pos beyond size() throws out_of_range");
  r.n = pos <= s.n ? s.n - pos : 0;
  for (i = 0; i < 16; ++i) r.d[i] = (i + pos < 16 && i < r.n) ? s.d[i + pos] : 0;
  return r;
}
#include "parse_dir_and_name.inc"

#define HAS_DIR(nm) ((nm).n >= 3 && (nm).d[1] == '.')
static void parse_dir_and_name(struct cstr name, char *result_dir, struct cstr *result_name)
__CPROVER_requires(__CPROVER_is_fresh(result_dir, 1) && __CPROVER_is_fresh(result_name, sizeof(*result_name)) && name.n <= 15)
__CPROVER_assigns(*result_dir, *result_name)
/* D.NAME with a non-empty NAME: the directory is the first character and the name is what follows the '.' */
__CPROVER_ensures(HAS_DIR(name) ==> (*result_dir == name.d[0] && result_name->n == name.n - 2 &&
                                     (g_k >= result_name->n || result_name->d[g_k] == name.d[g_k + 2])))
/* otherwise the directory stays the current one and the whole argument is the name */
__CPROVER_ensures(!HAS_DIR(name) ==> (*result_dir == __CPROVER_old(*result_dir) && result_name->n == name.n &&
                                      (g_k >= name.n || result_name->d[g_k] == name.d[g_k])));

/* ---- parse_filename, first part: defaults and the optional ":drive." prefix ---- */
struct VolSelF { unsigned surface; _Bool has_sub; char sub; };
struct FspCtx { struct VolSelF current_volume; char current_directory; };
struct FspResult { struct VolSelF vol; char dir; };
struct opt_vol { _Bool has; struct VolSelF val; };
static unsigned g_errors;
static void error_set(void) { if (g_errors < 1000) g_errors++; }
/* VolumeSelector::parse(fsp.substr(pos), &end, error): parses a drive number and optional volume letter at the start of the
   string; on success `end` is the number of characters it used (at least 1, at most what is there); on failure the error text
   is set (its own contract: harness/dfs_selector.c for the drive number) */
static struct { unsigned calls; unsigned pos; size_t end; struct opt_vol r; } VP;
static struct opt_vol volume_parse_model(struct cstr s, unsigned pos, size_t *end)
{
  __CPROVER_assert(pos <= s.n, "C07: std::string::substr(pos) with pos beyond size() throws out_of_range");
  VP.calls++; VP.pos = pos;
  VP.r.has = nondet_bool(); VP.r.val.surface = nondet_uint(); VP.r.val.has_sub = nondet_bool(); VP.r.val.sub = nondet_char();
  VP.end = nondet_size_t();
  __CPROVER_assume(VP.end >= 1 && VP.end <= (pos <= s.n ? s.n - pos : 0));
  if (VP.r.has) *end = VP.end; else error_set();
  return VP.r;
}
#include "fsp_drive_prefix.inc"
#define VOL_EQ_(a, b) ((a).surface == (b).surface && (a).has_sub == (b).has_sub && (a).sub == (b).sub)
static bool fsp_drive_prefix(const struct FspCtx *ctx, struct cstr fsp, struct FspResult *result_, struct cstr *name_out)
__CPROVER_requires(__CPROVER_is_fresh(ctx, sizeof(*ctx)) && __CPROVER_is_fresh(result_, sizeof(*result_)) && __CPROVER_is_fresh(name_out, sizeof(*name_out)))
__CPROVER_requires(fsp.n <= 15 && VP.calls == 0 && g_errors == 0)
__CPROVER_assigns(*result_, *name_out, VP, g_errors)
/* the directory defaults to the current one (--dir); the split that follows may override it */
__CPROVER_ensures(__CPROVER_return_value ==> result_->dir == ctx->current_directory)
/* no ':' in front: the drive defaults to the current one (--drive) and the whole argument goes on to the split */
__CPROVER_ensures(!(fsp.n >= 1 && fsp.d[0] == ':') ==>
                  (__CPROVER_return_value && VP.calls == 0 && VOL_EQ_(result_->vol, ctx->current_volume) && name_out->n == fsp.n &&
                   (g_k >= fsp.n || name_out->d[g_k] == fsp.d[g_k])))
/* ":<drive>.rest": the drive is what VolumeSelector::parse makes of the text after the colon, it must be followed by '.', and
   the rest goes on to the split; anything else is refused with an error text */
__CPROVER_ensures((fsp.n >= 1 && fsp.d[0] == ':') ==> (VP.calls == 1 && VP.pos == 1))
__CPROVER_ensures((fsp.n >= 1 && fsp.d[0] == ':') ==>
                  (__CPROVER_return_value == (VP.r.has && 1 + VP.end < fsp.n && fsp.d[1 + VP.end] == '.')))
__CPROVER_ensures((fsp.n >= 1 && fsp.d[0] == ':' && __CPROVER_return_value) ==>
                  (VOL_EQ_(result_->vol, VP.r.val) && name_out->n == fsp.n - (VP.end + 2) &&
                   (g_k >= name_out->n || name_out->d[g_k] == fsp.d[g_k + VP.end + 2])))
__CPROVER_ensures(!__CPROVER_return_value ==> g_errors == 1);
void h_drive_prefix(void)
{
  const struct FspCtx *c; struct cstr f; struct FspResult *r; struct cstr *n;
  g_k = nondet_size_t(); __CPROVER_assume(g_k < 14); VP.calls = 0; g_errors = 0;
  fsp_drive_prefix(c, f, r, n);
}
void h_parse_dir_and_name(void)
{
  struct cstr nm; char *d; struct cstr *out;
  g_k = nondet_size_t(); __CPROVER_assume(g_k < 14);
  parse_dir_and_name(nm, d, out);
}
