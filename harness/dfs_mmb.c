/* Proof harness: slot loop of the MmbFile constructor (img_mmb.cc). */
#include "dfs_types.h"
static struct DataAccess h_media;
static unsigned long g_views;
static unsigned long g_diag;
#define MMB_ENTRY_BYTES 16ul          /* MmbFile::MMB_ENTRY_BYTES (class constant, doc/mmb.5: 16-byte entries) */
static void mon_read_block(struct DataAccess *obj, unsigned long lba)
{
  (void)obj;
  __CPROVER_assert(lba < 32, "C04: the MMB catalogue is the first 32 sectors (8192 bytes)");
}
static void mon_read_result(struct DataAccess *obj, _Bool ok) { (void)obj; (void)ok; }
static void mmb_add_view(int formatted, unsigned long skip, sector_count_type take, sector_count_type leave, sector_count_type total)
{
  const unsigned long n = g_views;                       /* this view is slot n */
  const unsigned long entry = n + 1;                     /* catalogue entry 0 is the header */
  __CPROVER_assert(n < 511, "C04: at most 511 slots");
  __CPROVER_assert(g_rb_last_ok && g_rb_last_lba == entry / 16, "C04: slot n's catalogue entry is in catalogue sector (n+1)/16");
  {
    const unsigned char status = g_rb_last_buf.d[(entry % 16) * 16 + 15];
    const _Bool present = (status == 0x00 || status == 0x0F);
    __CPROVER_assert((formatted != 0) == present, "C04: slot status 0x00/0x0F is a present disc, 0xF0/0xFF/other is reported as unformatted");
    if (formatted)
      {
        __CPROVER_assert(skip == 32ul + 800ul * n, "C04: slot n starts at file sector 32 + 800n (byte 8192 + 204800n)");
        __CPROVER_assert(take == 800 && leave == 0 && total == 800, "C04: a slot is 800 contiguous sectors");
      }
    else
      __CPROVER_assert(take == 0, "C04: an unformatted slot yields no sectors");
  }
  g_views++;
}
#define MMB_OUTER_LOOP_CONTRACT \
  __CPROVER_assigns(sec, g_exc, g_exc_by_pointer, g_views, g_diag, g_rb_calls, g_rb_last_lba, g_rb_last_obj, g_rb_last_buf, g_rb_last_ok) \
  __CPROVER_loop_invariant(sec <= 32 && g_exc == EXC_NONE && g_diag <= 1000 + 16ul * sec) \
  __CPROVER_loop_invariant(g_views == (sec == 0 ? 0ul : 16ul * sec - 1ul)) \
  __CPROVER_decreases(32 - sec)
#define MMB_INNER_LOOP_CONTRACT \
  __CPROVER_assigns(i, g_views, g_diag) \
  __CPROVER_loop_invariant(i <= 16 && g_diag <= 1000 + 16ul * sec + i) \
  __CPROVER_loop_invariant(g_views == ((sec == 0 && i == 0) ? 0ul : 16ul * sec + i - 1ul)) \
  __CPROVER_decreases(16 - i)
#include "sector_count.inc"
#include "MmbFile_ctor.inc"
#include "dfs_mmb.h"
void h_mmb(void)
{
  g_exc = EXC_NONE; g_views = 0; g_diag = nondet_ulong();
  MmbFile_ctor(&h_media);
  VERIF_COVER(g_exc == EXC_NONE, "all 511 slots attached");
  VERIF_COVER(g_exc != EXC_NONE, "short MMB file");
}
