/* Proof harness: the command-invocation tail of dfs's main (C11: exit status 0 implies the output was written). */
#include "dfs_types.h"
#include "ostream_events.h"
static void mon_read_block(struct DataAccess *obj, unsigned long lba) { (void)obj; (void)lba; }
static void mon_read_result(struct DataAccess *obj, _Bool ok) { (void)obj; (void)ok; }
static void mon_out(struct ostream *os, const struct out_ev *e) { (void)os; (void)e; }
static void mon_write(struct ostream *os, const byte *p, size_t n) { (void)os; (void)p; (void)n; }
static struct ostream cout_obj;
static unsigned long g_diag, g_cfg_shown;
static _Bool g_cmd_result, g_flushed;
/* any command: writes some output to std::cout (any of the writes may fail, which sets badbit; data may also sit
   unflushed in the buffer) and returns its verdict; a command that returns false has issued a diagnostic */
static bool command_invoke(struct ostream *os)
{
  if (nondet_bool()) os->bad = 1;
  g_cmd_result = nondet_bool();
  if (!g_cmd_result) g_diag++;
  return g_cmd_result;
}
/* ostream::flush: pushes buffered data out; may fail (badbit) */
static void os_flush(struct ostream *os) { if (!os->bad && nondet_bool()) os->bad = 1; g_flushed = 1; }
/* fflush(stdout) of the C library: it knows nothing of what std::cout holds or of a failure std::cout has already met */
static int c_fflush_stdout(void) { return nondet_bool() ? -1 : 0; }
#include "dfs_main_tail.inc"

static int dfs_main_tail(bool show_config)
__CPROVER_requires(!cout_obj.bad && !g_flushed && g_diag < 1000)
__CPROVER_assigns(cout_obj, g_diag, g_cfg_shown, g_cmd_result, g_flushed)
__CPROVER_ensures(__CPROVER_return_value == 0 || __CPROVER_return_value == 1)
/* C11: exit status 0 implies std::cout was flushed and is still good, and the command succeeded */
__CPROVER_ensures(__CPROVER_return_value == 0 ==> (g_flushed && !cout_obj.bad && g_cmd_result))
/* C07: a non-zero status comes with a diagnostic */
__CPROVER_ensures(__CPROVER_return_value != 0 ==> g_diag > __CPROVER_old(g_diag));

#include "dfs_main_help.inc"
/* the --help option ends the program from inside the option loop: the same obligations as the normal tail */
static int dfs_main_help(void)
__CPROVER_requires(!cout_obj.bad && !g_flushed && g_diag < 1000)
__CPROVER_assigns(cout_obj, g_diag, g_cmd_result, g_flushed)
__CPROVER_ensures(__CPROVER_return_value == 0 || __CPROVER_return_value == 1)
__CPROVER_ensures(__CPROVER_return_value == 0 ==> (g_flushed && !cout_obj.bad && g_cmd_result))
__CPROVER_ensures(__CPROVER_return_value != 0 ==> g_diag > __CPROVER_old(g_diag));
void h_main_help(void) { os_init(&cout_obj); g_flushed = 0; g_diag = nondet_ulong(); dfs_main_help(); }

void h_main_tail(void)
{
  os_init(&cout_obj); g_flushed = 0; g_diag = nondet_ulong();
  int r = dfs_main_tail(nondet_bool());
  VERIF_COVER(r == 0, "exit 0");
  VERIF_COVER(r == 1 && g_cmd_result, "output failure turned into exit 1");
}
