/* Proof harness: title_and_cycle (cmd_cat.cc), the first field of `cat`'s heading.  C02: "`cat` shows the 12-character title,
 * cycle number, ...": the title left-justified in 12 columns (Opus style: as it is), then -- whenever the catalogue has a cycle
 * number, 00 included -- a space (not in Opus style after an empty title) and the number as two hex digits in parentheses. */
#include "dfs_types.h"
#include "ostream_events.h"
static void mon_read_block(struct DataAccess *obj, unsigned long lba) { (void)obj; (void)lba; }
static void mon_read_result(struct DataAccess *obj, _Bool ok) { (void)obj; (void)ok; }
enum { UiStyle_Default, UiStyle_Acorn, UiStyle_Watford, UiStyle_Opus };      /* dfscontext.h: enum class UiStyle */
struct opt_int_ { _Bool has; int val; };
static struct ostream os_obj;
static size_t g_k;
static struct { int ui; struct cstr title; struct opt_int_ cycle; unsigned step; } TC;
#define TC_SPACE_ (TC.ui != UiStyle_Opus || TC.title.n != 0)
static void mon_out(struct ostream *o, const struct out_ev *e)
{
  unsigned s = TC.step;
  (void)o;
  if (s >= 1 && !TC_SPACE_) s++;          /* the space is left out: the later events move up */
  switch (s)
    {
    case 0: __CPROVER_assert(e->kind == EV_CSTR && g_ev_cstr.n == TC.title.n && (g_k >= TC.title.n || g_k >= 15 || g_ev_cstr.d[g_k] == TC.title.d[g_k]) &&
                             e->width == (TC.ui == UiStyle_Opus ? 0 : 12) && e->fill == ' ' && e->left, "C02: the title, left-justified in 12 columns (as it is in Opus style)"); break;
    case 1: __CPROVER_assert(TC.cycle.has && e->kind == EV_CHR && e->chr == ' ', "C02: a space before the cycle number"); break;
    case 2: __CPROVER_assert(TC.cycle.has && e->kind == EV_CHR && e->chr == '(', "C02: ( before the cycle number"); break;
    case 3: __CPROVER_assert(TC.cycle.has && e->kind == EV_NUM && e->num == (unsigned long)TC.cycle.val && e->base == 16 && e->fill == '0' && e->width == 2 && !e->left,
                             "C02: the cycle number as two hex digits"); break;
    case 4: __CPROVER_assert(TC.cycle.has && e->kind == EV_CHR && e->chr == ')', "C02: ) after the cycle number"); break;
    default: __CPROVER_assert(0, "C02: nothing else in the field"); break;
    }
  TC.step++;
}
static void mon_write(struct ostream *o, const byte *p, size_t n) { (void)o; (void)p; (void)n; }
#include "title_and_cycle.inc"
static void title_and_cycle(int ui, struct cstr title, struct opt_int_ cycle)
__CPROVER_requires(ui >= UiStyle_Default && ui <= UiStyle_Opus && title.n <= 12 && TC.step == 0 && TC.ui == ui && TC.cycle.has == cycle.has && TC.cycle.val == cycle.val && cycle.val >= 0 && cycle.val <= 255)
__CPROVER_requires(TC.title.n == title.n && (g_k >= 15 || TC.title.d[g_k] == title.d[g_k]))
__CPROVER_assigns(os_obj, TC.step, g_ev_cstr)
/* everything was emitted: the title, and the cycle number whenever there is one (zero included) */
__CPROVER_ensures(os_obj.bad || TC.step == (cycle.has ? (TC_SPACE_ ? 5u : 4u) : 1u));
void h_title_and_cycle(void)
{
  struct cstr t; struct opt_int_ c;
  c.has = nondet_bool(); c.val = nondet_int();
  g_k = nondet_size_t(); TC.step = 0; TC.ui = nondet_int(); TC.title = t; TC.cycle = c;
  title_and_cycle(TC.ui, t, c);
}
