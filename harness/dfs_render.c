/* Proof harness: hexdump_bytes (the `dump` / `dump-sector` rendering, C01) against a row-format monitor.
 * Row format (doc/dfs.1 examples, tests/test_dump.sh golden output): 6-digit decimal offset; for each of the 8
 * columns " XX" (two upper-case hex digits) or " **" past the end of the data; a space; 8 characters, each the
 * byte itself if it is printable ASCII (0x20..0x7E) and '.' otherwise ('.' also past the end); newline. */
#include "dfs_types.h"
#include "ostream_events.h"
static void mon_read_block(struct DataAccess *obj, unsigned long lba) { (void)obj; (void)lba; }
static void mon_read_result(struct DataAccess *obj, _Bool ok) { (void)obj; (void)ok; }
#define HD_MAX 256
static byte h_data[HD_MAX];
enum { HP_POS = 0, HP_HEX, HP_SEP, HP_ASCII, HP_NL };
static struct { size_t total, pos0; } MHC;                       /* monitor inputs (never assigned by the code under contract) */
static struct { size_t row; int phase; unsigned col; _Bool sub; } MH;
#define MH_LEFT (MHC.total - 8 * MH.row)           /* bytes from the start of the current row to the end */
#define SPEC_PRINTABLE(b) ((b) >= 0x20 && (b) <= 0x7E)
static int verif_isgraph(int c)
{
  __CPROVER_assert(c == -1 || (c >= 0 && c <= 255), "C07: isgraph() on a value that is neither EOF nor an unsigned char is undefined");
  return c > 0x20 && c < 0x7F;                     /* C locale */
}
static void mon_out(struct ostream *os, const struct out_ev *e)
{
  (void)os;
  __CPROVER_assert(8 * MH.row < MHC.total, "C01 dump: no output after the last row");
  if (MH.phase == HP_POS)
    {
      __CPROVER_assert(e->kind == EV_NUM && e->num == MHC.pos0 + 8 * MH.row && e->width == 6 && e->fill == '0' && e->base == 10,
                       "C01 dump: a row starts with the 6-digit zero-padded decimal offset");
      MH.phase = HP_HEX; MH.col = 0; MH.sub = 0;
    }
  else if (MH.phase == HP_HEX)
    {
      if (MH.col < MH_LEFT)
        {
          if (!MH.sub)
            {
              __CPROVER_assert(e->kind == EV_CHR && e->chr == ' ', "C01 dump: a space precedes each hex byte");
              MH.sub = 1;
            }
          else
            {
              __CPROVER_assert(e->kind == EV_NUM && e->num == h_data[8 * MH.row + MH.col] && e->width == 2 && e->fill == '0' &&
                               e->base == 16 && e->upper, "C01 dump: each byte is shown as two upper-case hex digits");
              MH.sub = 0; MH.col++;
            }
        }
      else
        {
          __CPROVER_assert(e->kind == EV_STR && e->str[0] == ' ' && e->str[1] == '*' && e->str[2] == '*' && e->str[3] == 0,
                           "C01 dump: columns past the end of the data are shown as **");
          MH.col++;
        }
      if (MH.col == 8 && !MH.sub) MH.phase = HP_SEP;
    }
  else if (MH.phase == HP_SEP)
    {
      __CPROVER_assert(e->kind == EV_CHR && e->chr == ' ', "C01 dump: a space separates the hex and character columns");
      MH.phase = HP_ASCII; MH.col = 0;
    }
  else if (MH.phase == HP_ASCII)
    {
      const byte b = (MH.col < MH_LEFT) ? h_data[8 * MH.row + MH.col] : (byte)'.';
      __CPROVER_assert(e->kind == EV_CHR && e->chr == (SPEC_PRINTABLE(b) ? (char)b : '.'),
                       "C01 dump: printable ASCII is shown as itself, everything else as '.'");
      MH.col++;
      if (MH.col == 8) MH.phase = HP_NL;
    }
  else
    {
      __CPROVER_assert(e->kind == EV_CHR && e->chr == '\n', "C01 dump: a row ends with a newline");
      MH.phase = HP_POS; MH.col = 0; MH.row++;
    }
}
#define HEXDUMP_ROW_CONTRACT \
  __CPROVER_assigns(len, pos, begin, p, *os, MH) \
  __CPROVER_loop_invariant(__CPROVER_same_object(begin, h_data) && MH.row <= HD_MAX && 8 * MH.row <= MHC.total + 7 && MHC.total <= HD_MAX) \
  __CPROVER_loop_invariant(__CPROVER_loop_entry(os->bad) ==> os->bad) \
  __CPROVER_loop_invariant(os->bad || (MH.phase == HP_POS && __CPROVER_POINTER_OFFSET(begin) == 8 * MH.row && \
                                        pos == MHC.pos0 + 8 * MH.row && len == (MHC.total >= 8 * MH.row ? MHC.total - 8 * MH.row : 0))) \
  __CPROVER_loop_invariant(len <= HD_MAX && __CPROVER_POINTER_OFFSET(begin) + len <= HD_MAX)
#define HEXDUMP_HEX_CONTRACT \
  __CPROVER_assigns(i, *os, MH) \
  __CPROVER_loop_invariant(i <= stride && MH.row == __CPROVER_loop_entry(MH.row)) \
  __CPROVER_loop_invariant(__CPROVER_loop_entry(os->bad) ==> os->bad) \
  __CPROVER_loop_invariant(os->bad || (os->base == 16 && ((i < 8 && MH.phase == HP_HEX && MH.col == i && !MH.sub) || (i == 8 && MH.phase == HP_SEP)))) \
  __CPROVER_decreases(stride - i)
#define HEXDUMP_ASCII_CONTRACT \
  __CPROVER_assigns(i, *os, MH) \
  __CPROVER_loop_invariant(i <= stride && MH.row == __CPROVER_loop_entry(MH.row)) \
  __CPROVER_loop_invariant(__CPROVER_loop_entry(os->bad) ==> os->bad) \
  __CPROVER_loop_invariant(os->bad || ((i < 8 && MH.phase == HP_ASCII && MH.col == i) || (i == 8 && MH.phase == HP_NL))) \
  __CPROVER_decreases(stride - i)
#include "hexdump_bytes.inc"

/* the documented rendering: every row of the data, in order, and nothing else (unless the stream failed) */
static bool hexdump_bytes(struct ostream *os, size_t pos, size_t stride, const byte *begin, const byte *end)
__CPROVER_requires(__CPROVER_is_fresh(os, sizeof(*os)) && !os->bad && stride == 8)
__CPROVER_requires(begin == h_data && end >= begin && end <= h_data + HD_MAX && pos <= (1ul << 40))
__CPROVER_requires(MHC.total == (size_t)(end - begin) && MHC.pos0 == pos && MH.row == 0 && MH.phase == HP_POS && MH.col == 0 && !MH.sub)
__CPROVER_assigns(*os, MH)
__CPROVER_ensures(!os->bad ==> (MH.phase == HP_POS && 8 * MH.row >= MHC.total && 8 * MH.row < MHC.total + 8));

void h_hexdump(void)
{
  struct ostream *os;
  size_t n = nondet_size_t();
  __CPROVER_assume(n <= HD_MAX);
  MHC.total = n; MHC.pos0 = nondet_size_t(); __CPROVER_assume(MHC.pos0 <= (1ul << 40)); MH.row = 0; MH.phase = HP_POS; MH.col = 0; MH.sub = 0;
  bool r = hexdump_bytes(os, MHC.pos0, 8, h_data, h_data + n);
  VERIF_COVER(!os->bad && MH.row == 3, "three rows");
  VERIF_COVER(os->bad, "stream failed");
}
