/* Proof harness: the side de-interleave loop of HfeFile::read_all_sectors (img_hfe.cc).  An HFE track is stored as
 * alternating 256-byte blocks, side 0 first; C05: the cells handed to the decoder for side h are exactly the blocks
 * 2k + h of the track data that was read, in order, the last one possibly short. */
#include "dfs_types.h"
static void mon_read_block(struct DataAccess *obj, unsigned long lba) { (void)obj; (void)lba; }
static void mon_read_result(struct DataAccess *obj, _Bool ok) { (void)obj; (void)ok; }
#include "hfe_block_sizes.inc"
static size_t size_min(size_t a, size_t b) { return a < b ? a : b; }     /* std::min */
static unsigned h_side; static size_t h_n;
static struct { unsigned long calls; _Bool hfe3; } SB;
/* copy_hfe(hfe3, raw + begin, raw + end, back_inserter(track_stream)): its own contract is enforced in dfs_copyhfe.c;
   here the k-th call must be given block 2k + side */
static void copy_hfe_v(_Bool hfe3, size_t begin, size_t end)
{
  __CPROVER_assert(begin == 256ul * h_side + 512ul * SB.calls, "C05: the k-th block copied for side h starts at byte 512 k + 256 h of the track data");
  __CPROVER_assert(end == (begin + 256 < h_n ? begin + 256 : h_n) && begin < end, "C05: a block is 256 bytes, or what is left of the track data");
  SB.hfe3 = hfe3;
  if (SB.calls < (1ul << 40)) SB.calls++;
}
#define SIDE_BLOCKS_LOOP_CONTRACT \
  __CPROVER_assigns(begin_offset, SB) \
  __CPROVER_loop_invariant(begin_offset == 256ul * side + 512ul * SB.calls && SB.calls <= track_bytes_read / 512 + 1) \
  __CPROVER_loop_invariant(SB.calls == 0 || (256ul * side + 512ul * (SB.calls - 1) < track_bytes_read && SB.hfe3 == (hfe_version_ == 3))) \
  __CPROVER_decreases(track_bytes_read + 512 - begin_offset)
#include "hfe_side_blocks.inc"

static void hfe_side_blocks(unsigned int side, size_t track_bytes_read, int hfe_version_)
__CPROVER_requires(side <= 1 && side == h_side && track_bytes_read == h_n && track_bytes_read <= (1ul << 20) && SB.calls == 0)
__CPROVER_assigns(SB)
/* every block of this side was copied: the number of calls is the number of k with 512 k + 256 side < n */
__CPROVER_ensures(256ul * side + 512ul * SB.calls >= track_bytes_read && (SB.calls == 0 || 256ul * side + 512ul * (SB.calls - 1) < track_bytes_read))
__CPROVER_ensures(SB.calls > 0 ==> SB.hfe3 == (hfe_version_ == 3));

void h_side_blocks(void)
{
  h_side = nondet_uint(); h_n = nondet_size_t(); SB.calls = 0;
  hfe_side_blocks(h_side, h_n, nondet_int());
  VERIF_COVER(SB.calls == 25 && h_side == 1, "25 blocks of side 1");
}
