/* Proof harness: the side de-interleave loop of HfeFile::read_all_sectors (img_hfe.cc).  An HFE track is stored as
 * alternating 256-byte blocks, side 0 first; C05: the cells handed to the decoder for side h are exactly the blocks
 * 2k + h of the track data that was read, in order, the last one possibly short. */
#include "dfs_types.h"
static void mon_read_block(struct DataAccess *obj, unsigned long lba) { (void)obj; (void)lba; }
static void mon_read_result(struct DataAccess *obj, _Bool ok) { (void)obj; (void)ok; }
#include "hfe_block_sizes.inc"
#include "HfeCopyState.inc"
static size_t size_min(size_t a, size_t b) { return a < b ? a : b; }     /* std::min */
static unsigned h_side; static size_t h_n;
static struct { unsigned long calls; _Bool hfe3; struct HfeCopyState *state; byte op_left; unsigned long warned; } SB;
/* copy_hfe(hfe3, raw + begin, raw + end, back_inserter(track_stream), state): its own contract is enforced in
   dfs_copyhfe.c; here the k-th call must be given block 2k + side, and the decoding state (opcode waiting for its operand,
   unfinished output byte) must be ONE object for the whole track: fresh (all zero) at the first block and, at every later
   block, what the previous call left -- otherwise an opcode whose operand opens the next block, or the cells after a
   SKIPBITS, are lost at the block boundary (C05: "any placement of ... opcodes between cells") */
static void copy_hfe_v(_Bool hfe3, size_t begin, size_t end, struct HfeCopyState *state)
{
  __CPROVER_assert(begin == 256ul * h_side + 512ul * SB.calls, "C05: the k-th block copied for side h starts at byte 512 k + 256 h of the track data");
  __CPROVER_assert(end == (begin + 256 < h_n ? begin + 256 : h_n) && begin < end, "C05: a block is 256 bytes, or what is left of the track data");
  __CPROVER_assert(state != 0, "C05: the decoding state is carried from one side block to the next (a state object is handed to copy_hfe)");
  if (state != 0)
    {
      if (SB.calls == 0)
        __CPROVER_assert(state->got_bits == 0 && state->out == 0 && state->this_op == 0, "C05: the decoding state is empty at the first block of a track");
      else
        __CPROVER_assert(state == SB.state, "C05: every block of the track is decoded with the same state object");
      /* what copy_hfe leaves behind (its contract: the automaton's state): unconstrained here but for its ranges */
      state->got_bits = nondet_int(); state->out = nondet_uchar(); state->this_op = nondet_uchar();
      __CPROVER_assume(0 <= state->got_bits && state->got_bits < 8);
      SB.op_left = state->this_op;
    }
  SB.state = state;
  SB.hfe3 = hfe3;
  if (SB.calls < (1ul << 40)) SB.calls++;
}
/* premature_stream_end(opcode): a warning on stderr; it has to be about the opcode the LAST block left waiting */
static void premature_stream_end_model(byte opcode)
{
  __CPROVER_assert(SB.calls > 0 && opcode == SB.op_left && opcode != 0, "C05: the end-of-track warning names the opcode still waiting for its operand");
  SB.warned++;
}
/* the state object, when the source has one, is a local of the extracted region: the extraction rule that meets its
   declaration redefines these two macros to name it */
#define SIDE_STATE_TARGET
#define SIDE_STATE_INV 1
#define SIDE_STATE_INV_FOR(st) (SB.calls == 0 ? ((st).got_bits == 0 && (st).out == 0 && (st).this_op == 0) : (SB.state == &(st) && SB.op_left == (st).this_op))
#define SIDE_BLOCKS_LOOP_CONTRACT \
  __CPROVER_assigns(begin_offset, SB SIDE_STATE_TARGET) \
  __CPROVER_loop_invariant(SIDE_STATE_INV && SB.warned == 0 && (SB.calls == 0 ==> SB.op_left == 0)) \
  __CPROVER_loop_invariant(begin_offset == 256ul * side + 512ul * SB.calls && SB.calls <= track_bytes_read / 512 + 1) \
  __CPROVER_loop_invariant(SB.calls == 0 || (256ul * side + 512ul * (SB.calls - 1) < track_bytes_read && SB.hfe3 == (hfe_version_ == 3))) \
  __CPROVER_decreases(track_bytes_read + 512 - begin_offset)
#include "hfe_side_blocks.inc"

static void hfe_side_blocks(unsigned int side, size_t track_bytes_read, int hfe_version_)
__CPROVER_requires(side <= 1 && side == h_side && track_bytes_read == h_n && track_bytes_read <= (1ul << 20) && SB.calls == 0 && SB.warned == 0)
__CPROVER_assigns(SB)
/* every block of this side was copied: the number of calls is the number of k with 512 k + 256 side < n */
__CPROVER_ensures(256ul * side + 512ul * SB.calls >= track_bytes_read && (SB.calls == 0 || 256ul * side + 512ul * (SB.calls - 1) < track_bytes_read))
__CPROVER_ensures(SB.calls > 0 ==> SB.hfe3 == (hfe_version_ == 3))
/* a track that ends inside an opcode is reported (once), any other is not */
__CPROVER_ensures(SB.warned == ((SB.calls > 0 && SB.op_left != 0) ? 1 : 0));

void h_side_blocks(void)
{
  h_side = nondet_uint(); h_n = nondet_size_t(); SB.calls = 0; SB.warned = 0; SB.state = 0; SB.op_left = 0;
  hfe_side_blocks(h_side, h_n, nondet_int());
  VERIF_COVER(SB.calls == 25 && h_side == 1, "25 blocks of side 1");
}
