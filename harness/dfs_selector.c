/* Proof harness: SurfaceSelector::coerce(long) and SurfaceSelector::parse (driveselector.cc) -- C07, command-line clause:
 * --drive N (decoded in main's option loop, outside any try block), `dump-sector N ..` and `:N.` names.  Whatever the
 * argument, parse returns a surface or nothing plus a diagnostic; NO exception leaves it.  Exceptions carry their dynamic
 * type here (EXC_std_<name>), because which handler catches them is what is being checked. */
#include <limits.h>
#include "dfs_types.h"
static void mon_read_block(struct DataAccess *obj, unsigned long lba) { (void)obj; (void)lba; }
static void mon_read_result(struct DataAccess *obj, _Bool ok) { (void)obj; (void)ok; }
typedef unsigned int repr_type;
struct opt_surface { _Bool has; repr_type val; };
struct argstr { size_t n; };
/* std::stol(str, end, 10) (trusted: [string.conversions]): value and characters consumed; std::invalid_argument when no
   conversion can be performed, std::out_of_range when the value does not fit a long */
static struct { long value; size_t end; _Bool out_of_range, invalid; } STOL;
static long stol_model(const struct argstr *s, size_t *end, int base)
{
  __CPROVER_assert(base == 10, "C16: a drive number is read as decimal (std::stol base 10: a leading zero does not make it octal)");
  __CPROVER_assume(STOL.end <= s->n && (STOL.end == 0) == STOL.invalid);
  if (STOL.invalid) { VERIF_THROW(std_invalid_argument, 0); return 0; }
  if (STOL.out_of_range) { VERIF_THROW(std_out_of_range, 0); return 0; }
  if (end) *end = STOL.end;
  return STOL.value;
}
/* a handler `catch (T&)` catches exactly dynamic type T here: none of the types thrown in this file derives from another
   one that is caught (out_of_range, invalid_argument : logic_error; range_error : runtime_error) */
static _Bool exc_caught(int type) { if (g_exc == type && !g_exc_by_pointer) { g_exc = EXC_NONE; return 1; } return 0; }
#include "SurfaceSelector_coerce_long.inc"
#include "SurfaceSelector_parse.inc"

static unsigned int SurfaceSelector_coerce_long(long int ld)
__CPROVER_requires(g_exc == EXC_NONE && !g_exc_by_pointer)
__CPROVER_assigns(g_exc, g_exc_by_pointer)
/* a value that is not an unsigned int is refused with std::out_of_range (by value) -- the type parse() handles */
__CPROVER_ensures(!g_exc_by_pointer)
__CPROVER_ensures((ld < 0 || ld > (long)UINT_MAX) ? (g_exc == EXC_std_out_of_range)
                                                 : (g_exc == EXC_NONE && __CPROVER_return_value == (unsigned int)ld));

static struct opt_surface SurfaceSelector_parse(const struct argstr *s, size_t *end)
__CPROVER_requires(__CPROVER_is_fresh(s, sizeof(*s)) && __CPROVER_is_fresh(end, sizeof(*end)) && g_exc == EXC_NONE && !g_exc_by_pointer && g_diag < 1000)
__CPROVER_assigns(*end, g_exc, g_exc_by_pointer, g_diag)
/* C07: no exception escapes, whatever the argument */
__CPROVER_ensures(g_exc == EXC_NONE && !g_exc_by_pointer)
/* a surface is returned exactly for a leading decimal number that is an unsigned int; otherwise a diagnostic */
__CPROVER_ensures(__CPROVER_return_value.has == (!STOL.invalid && !STOL.out_of_range && STOL.value >= 0 && STOL.value <= (long)UINT_MAX))
__CPROVER_ensures(__CPROVER_return_value.has ==> (__CPROVER_return_value.val == (unsigned int)STOL.value && *end == STOL.end))
__CPROVER_ensures(!__CPROVER_return_value.has ==> g_diag > __CPROVER_old(g_diag));

void h_coerce(void) { g_exc = EXC_NONE; g_exc_by_pointer = 0; SurfaceSelector_coerce_long(nondet_long()); }
void h_parse(void)
{
  struct argstr *s; size_t *e; struct opt_surface r;
  g_exc = EXC_NONE; g_exc_by_pointer = 0; g_diag = 0;
  r = SurfaceSelector_parse(s, e);
  VERIF_COVER(r.has && r.val == 2, "drive 2");
  VERIF_COVER(!r.has && STOL.value > (long)UINT_MAX, "too large");
  VERIF_COVER(!r.has && STOL.invalid, "not a number");
}
