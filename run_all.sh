#!/bin/sh
# runs every claimed check's quick (or $1) tier in sequence; prints one summary line per property
cd "$(dirname "$0")"
tier=${1:-quick}
for id in $(python3 -c "import json; print(' '.join(c['property_id'] for c in json.load(open('MANIFEST.json'))['checks']))"); do
  ./check $id --tier $tier 2>&1 | grep -a "^C[0-9]\|^VIOLATION\|^KNOWN\|^UNDECIDED" | cut -c1-300
done
