#!/bin/sh
# Offline setup: nothing to build (the engine is Python + the pre-installed cbmc tools).  Verifies the tools.
set -e
cd "$(dirname "$0")"
for t in cbmc goto-cc goto-instrument python3; do command -v $t >/dev/null || { echo "missing tool: $t"; exit 1; }; done
mkdir -p evidence replays
# supporting static fact used by contracts/basic_tokens.h: dialects[] is never written in basic/
if grep -n "dialects\[[^]]*\][^=;]*=[^=]" /repo/basic/*.c | grep -v "static VERIF_CONST_DATA struct dialect_mapping dialects\[\] =" ; then
  echo "warning: a write to dialects[] was found"; fi
exit 0
